//! C20 cluster tier (`cluster_reload`) — a configuration file, loaded by the REAL main process
//! (`ReloadConfiguration(path)` -> `load_static_config` -> `Config::load_from_path` ->
//! `generate_config_messages` -> dispatch on the main state -> scatter) into a REAL, fresh worker: "the command list a
//! file yields is accepted in full by a fresh instance, and the resulting configuration contains exactly what the file
//! declares" judged on the running system rather than on a `ConfigState`.
//!
//! The files are *plain* on purpose (HTTP listeners, HTTP clusters, frontends with exact hosts and PREFIX/EQUALS paths,
//! backends; no answer templates, no TLS, no exotic knobs - those are the model tier's business): what this tier adds is
//! the order and completeness of the generated messages as a worker sees them (a worker refuses a frontend whose
//! listener it does not have yet, which a ConfigState does not), at sizes up to a few hundred entries, with the
//! command stream fragmented.
//!
//! Oracle, from an independent reading of the plan (never from sozu): the reload is answered OK (every message was
//! acknowledged by the worker); the worker's `QueryClusterById` lists exactly the declared frontends and backends of
//! each sampled cluster; an HTTP request for a sampled declared route (host, path under the prefix) is answered by a
//! backend of the declaring cluster (every backend names itself), a request for an undeclared host gets sozu's 404; a
//! second reload of the same file is answered OK and changes no answer.
#![allow(dead_code)]
use std::collections::BTreeMap;
use std::net::SocketAddr;
use std::sync::{Arc, Mutex};

use serde::{Deserialize, Serialize};
use sozu_command_lib::proto::command::{request::RequestType, response_content::ContentType, HardStop};

use super::cluster_cli::{per_worker, CliRecord, CliStep, ScriptCli};
use crate::actors::h1::*;
use crate::actors::{Pace, Quantum};
use crate::clustersim::{self, ClusterKnobs};
use crate::framework::*;
use crate::netsim;
use crate::prng::Prng;
use crate::scenario::*;
use crate::world::{ConnectMode, SchedCfg, World, MS, SEC};

#[derive(Clone, Debug, Serialize, Deserialize)]
pub struct Front { pub listener: usize, pub host: String, pub path: String, pub equals: bool }
#[derive(Clone, Debug, Serialize, Deserialize)]
pub struct Clu { pub id: String, pub fronts: Vec<Front>, pub backends: Vec<SocketAddr> }
#[derive(Clone, Debug, Serialize, Deserialize)]
pub struct ReloadPlan {
    pub seed: u64,
    pub family: String,
    pub sched: SchedCfg,
    pub listeners: Vec<SocketAddr>,
    pub clusters: Vec<Clu>,
    /// TOML layout: 0 inline arrays, 1 `[[clusters.x.frontends]]` tables
    pub style: u8,
    /// clusters before listeners in the file (the loader must not care)
    pub clusters_first: bool,
    pub frag: u8,
    pub reload_twice: bool,
    /// indices (cluster, front) of the routes probed with real requests
    pub probes: Vec<(usize, usize)>,
    /// workers forked at boot (each binds every listener address: SO_REUSEPORT group, connections spread by the PRNG)
    #[serde(default = "one")]
    pub workers: u16,
}
fn one() -> u16 { 1 }

pub fn generate(seed: u64, tier: Tier) -> ReloadPlan {
    let mut rng = Prng::derive(seed, "c20/cluster");
    let nl = 1 + rng.below(3) as usize;
    let listeners: Vec<SocketAddr> = (0..nl).map(|i| if rng.below(5) == 0 { format!("[2001:db8::{}]:80", i + 1).parse().unwrap() } else { format!("10.0.0.{}:{}", i + 1, 80 + i).parse().unwrap() }).collect();
    let big = match tier { Tier::Quick => 60, Tier::Thorough => 300 };
    let nc = match rng.below(8) { 0 => 1, 1..=4 => 1 + rng.below(6) as usize, 5 | 6 => 6 + rng.below(20) as usize, _ => 20 + rng.below(big) as usize };
    let mut clusters = Vec::new();
    let mut next_backend = 0u32;
    for ci in 0..nc {
        let nf = 1 + rng.below(3) as usize;
        let mut fronts = Vec::new();
        for fi in 0..nf {
            // routes are unique by construction: (host, path) pairs never repeat across clusters
            let shared = rng.below(4) == 0;
            let host = if shared { format!("h{ci}.shared.test") } else { format!("c{ci}-{fi}.test") };
            // a shared host gets a path of its own per frontend: two identical routes in one file are a declared conflict
            let path = match rng.below(3) { 0 if !shared => "/".to_string(), 1 => format!("/p{ci}x{fi}"), _ => format!("/api/v{ci}/{fi}") };
            fronts.push(Front { listener: rng.below(nl as u64) as usize, host, path, equals: rng.below(6) == 0 });
        }
        let nb = match rng.below(6) { 0 => 0, 1..=3 => 1, _ => 2 + rng.below(2) as usize };
        let backends = (0..nb).map(|_| { next_backend += 1; format!("10.{}.{}.{}:8000", 1 + next_backend / 60000, (next_backend / 250) % 250, 1 + next_backend % 250).parse().unwrap() }).collect();
        clusters.push(Clu { id: if rng.below(5) == 0 { format!("My-Cluster_{ci}") } else { format!("c{ci}") }, fronts, backends });
    }
    // probe up to 6 routes of clusters that have a backend
    let mut cand: Vec<(usize, usize)> = clusters.iter().enumerate().filter(|(_, c)| !c.backends.is_empty()).flat_map(|(ci, c)| (0..c.fronts.len()).map(move |fi| (ci, fi))).collect();
    rng.shuffle(&mut cand);
    cand.truncate(6);
    ReloadPlan { seed, family: "cluster_reload".into(), sched: netsim::default_sched(&mut rng, false), listeners, clusters, style: rng.below(2) as u8, clusters_first: rng.below(3) == 0, frag: rng.below(3) as u8, reload_twice: rng.below(2) == 0, probes: cand, workers: if rng.below(3) == 0 { 2 } else { 1 } }
}

pub fn render(p: &ReloadPlan) -> String {
    let mut head = String::from("command_socket = \"./sozu.sock\"\nlog_level = \"error\"\nlog_target = \"stdout\"\nworker_count = 1\n\n");
    let mut ls = String::new();
    for l in &p.listeners { ls += &format!("[[listeners]]\nprotocol = \"http\"\naddress = \"{l}\"\n\n"); }
    let mut cs = String::new();
    for c in &p.clusters {
        let key = if c.id.bytes().all(|b| b.is_ascii_alphanumeric() || b == b'_' || b == b'-') { c.id.clone() } else { format!("\"{}\"", c.id) };
        let front = |f: &Front| format!("address = \"{}\", hostname = \"{}\", path = \"{}\", path_type = \"{}\"", p.listeners[f.listener], f.host, f.path, if f.equals { "EQUALS" } else { "PREFIX" });
        if p.style == 0 {
            cs += &format!("[clusters.{key}]\nprotocol = \"http\"\nfrontends = [{}]\nbackends = [{}]\n\n",
                c.fronts.iter().map(|f| format!("{{ {} }}", front(f))).collect::<Vec<_>>().join(", "),
                c.backends.iter().map(|b| format!("{{ address = \"{b}\" }}")).collect::<Vec<_>>().join(", "));
        } else {
            cs += &format!("[clusters.{key}]\nprotocol = \"http\"\n");
            if c.backends.is_empty() { cs += "backends = []\n"; }
            for f in &c.fronts { cs += &format!("[[clusters.{key}.frontends]]\n{}\n", front(f).replace(", ", "\n")); }
            for b in &c.backends { cs += &format!("[[clusters.{key}.backends]]\naddress = \"{b}\"\n"); }
            cs.push('\n');
        }
    }
    if p.clusters_first && p.style == 0 { head.push_str(&cs); head.push_str(&ls); } else { head.push_str(&ls); head.push_str(&cs); }
    head
}

pub fn run(p: &ReloadPlan, log: bool) -> (RunReport, String) {
    let p = p.clone();
    netsim::on_fresh_thread(move || {
        let mut rep = RunReport { seed: p.seed, family: p.family.clone(), ..Default::default() };
        let dir = super::c05::scratch_dir("c20cluster");
        let path = dir.join("config.toml");
        if let Err(e) = std::fs::write(&path, render(&p)) { rep.harness_error = Some(format!("write config: {e}")); return (rep, String::new()); }
        let path_s = path.to_string_lossy().to_string();
        let mut w = World::new(p.seed, p.sched.clone());
        w.log_on = log;
        let mut knobs = ClusterKnobs::default();
        knobs.workers = p.workers.max(1);
        let rec = Arc::new(Mutex::new(CliRecord::default()));
        let mut steps: Vec<CliStep> = Vec::new();
        let mut rl = CliStep::new("reload", RequestType::ReloadConfiguration(path_s.clone()).into());
        rl.patience_ns = 120 * SEC; rl.set_board = Some("configured".into());
        steps.push(rl);
        // sample of clusters whose worker view is compared: the probed ones plus the first and the last
        let mut sample: Vec<usize> = p.probes.iter().map(|x| x.0).collect();
        if !p.clusters.is_empty() { sample.push(0); sample.push(p.clusters.len() - 1); }
        sample.sort(); sample.dedup();
        for ci in &sample { steps.push(CliStep::new(&format!("view:{ci}"), RequestType::QueryClusterById(p.clusters[*ci].id.clone()).into())); }
        let nprobes = p.probes.len() as i64 + 1;
        if p.reload_twice {
            let mut r2 = CliStep::new("reload2", RequestType::ReloadConfiguration(path_s.clone()).into());
            r2.patience_ns = 120 * SEC; r2.wait_board = Some(("clients_done".into(), nprobes)); r2.set_board = Some("reloaded".into());
            steps.push(r2);
            for ci in &sample { steps.push(CliStep::new(&format!("view2:{ci}"), RequestType::QueryClusterById(p.clusters[*ci].id.clone()).into())); }
        }
        let mut stop = CliStep::new("stop", RequestType::HardStop(HardStop {}).into());
        stop.wait_board = Some(("clients_done".into(), if p.reload_twice { 2 * nprobes } else { nprobes }));
        steps.push(stop);
        let labels: Vec<String> = steps.iter().map(|s| s.label.clone()).collect();
        // clients: one per probed route plus one for an undeclared host; a second round after the second reload
        let mut clients: Vec<ClientPlan> = Vec::new();
        let mut expect: Vec<Option<usize>> = Vec::new(); // cluster index expected to answer, None = 404
        let rounds = if p.reload_twice { 2 } else { 1 };
        for round in 0..rounds {
            for (k, (ci, fi)) in p.probes.iter().enumerate() {
                let f = &p.clusters[*ci].fronts[*fi];
                let id = (round * 100 + k + 1) as u64;
                let path = if f.equals || f.path == "/" { f.path.clone() } else { format!("{}/deeper", f.path) };
                let mut r = ReqSpec::get(id, &f.host, &path);
                r.headers.push(("Content-Length".into(), "0".into()));
                clients.push(ClientPlan { name: format!("probe{round}_{k}"), src: format!("192.0.2.{}:{}", 10 + k, 41000 + round * 100 + k).parse().unwrap(), dst: p.listeners[f.listener], start_ns: (k as u64) * MS, pace: Pace::greedy(), pipeline: false, requests: vec![r], abort: None, sndbuf: None, think_ns: 0, linger_ns: 0, give_up_ns: 60 * SEC, wait_board: if round == 0 { None } else { Some("reloaded".into()) } });
                expect.push(Some(*ci));
            }
            let id = (round * 100 + 99) as u64;
            let mut r = ReqSpec::get(id, "undeclared.test", "/");
            r.headers.push(("Content-Length".into(), "0".into()));
            clients.push(ClientPlan { name: format!("nohost{round}"), src: format!("192.0.2.99:{}", 43000 + round).parse().unwrap(), dst: p.listeners[0], start_ns: MS, pace: Pace::greedy(), pipeline: false, requests: vec![r], abort: None, sndbuf: None, think_ns: 0, linger_ns: 0, give_up_ns: 60 * SEC, wait_board: if round == 0 { None } else { Some("reloaded".into()) } });
            expect.push(None);
        }
        let wq = match p.frag { 0 => Quantum::All, 1 => Quantum::Uniform(1, 64), _ => Quantum::Uniform(1, 4096) };
        let mut cids: Vec<usize> = Vec::new();
        // one backend actor per declared backend of a probed cluster; each names its cluster in the body length
        let mut backend_of: BTreeMap<SocketAddr, usize> = BTreeMap::new();
        for (ci, _) in &p.probes { for b in &p.clusters[*ci].backends { backend_of.insert(*b, *ci); } }
        let end = {
            let (rec2, clients2, cids_ref, backend_of2, seed) = (rec.clone(), clients.clone(), &mut cids, backend_of.clone(), p.seed);
            clustersim::run_cluster(&mut w, &knobs, move |w, env| {
                let mut cli = ScriptCli::new(&env.sock_name, env.force, steps, rec2, Prng::derive(seed, "cli"), wq, 900 * SEC);
                cli.release = vec!["configured".into(), "reloaded".into()];
                w.add_actor(Box::new(cli));
                for (addr, ci) in &backend_of2 {
                    w.topo.insert(*addr, ConnectMode::Listen { delay_ns: 0 });
                    // the answer's body length names the cluster: 1000 + index
                    let bp = BackendPlan { name: format!("b{ci}"), addr: *addr, pace: Pace::greedy(), responses: BTreeMap::new(), default: RespSpec::ok(BodySpec::Cl(1000 + *ci)), close_on_accept: vec![], listen_from_ns: 0, listen_until_ns: 0 };
                    let id = w.add_actor(Box::new(H1Backend::new(bp, Prng::derive(seed, &format!("backend/{addr}")))));
                    w.prime_actor(id);
                }
                for c in &clients2 { cids_ref.push(w.add_actor(Box::new(H1Client::new(c.clone(), Prng::derive(seed, &format!("client/{}", c.name)))))); }
            })
        };
        World::install(&mut w);
        let _ = std::fs::remove_dir_all(&dir);
        let r = rec.lock().unwrap().clone();
        let mut v = Vec::new();
        if let Some(e) = &end.boot_error { rep.harness_error = Some(format!("cluster boot failed: {e}")); }
        if let Some(e) = r.connect_error { rep.harness_error = Some(format!("CLI could not connect: errno {e}")); }
        if let Some(pn) = &end.hub_panicked { v.push(Violation::new("panic", "main_process", pn.clone())); }
        for wk in &end.workers { if let Some(pn) = &wk.panicked { v.push(Violation::new("panic", "worker", pn.chars().take(200).collect::<String>())); } }
        if let Some(a) = &w.aborted { rep.harness_error.get_or_insert(format!("run aborted: {a} at step {:?}", labels.get(r.cur))); }
        let idx = |l: &str| labels.iter().position(|x| x == l);
        let size = if p.clusters.len() > 25 { "large" } else { "small" };
        let judge_reload = |label: &str, v: &mut Vec<Violation>| -> bool {
            let Some(i) = idx(label) else { return false };
            let s = &r.steps[i];
            if s.t_send == 0 { return false; }
            if !s.ok() {
                let msg = s.answers.last().map(|a| a.1.message.chars().take(300).collect::<String>()).unwrap_or_else(|| "no final answer".into());
                v.push(Violation::new("message_rejected", format!("{label}_not_ok|{size}"), format!("{label} of a file with {} listeners, {} clusters: {msg}", p.listeners.len(), p.clusters.len())));
                return false;
            }
            true
        };
        let mut views_compared = 0u64;
        if rep.harness_error.is_none() && !r.forced {
            let ok1 = judge_reload("reload", &mut v);
            let ok2 = p.reload_twice && judge_reload("reload2", &mut v);
            for (pref, ok) in [("view", ok1), ("view2", ok2)] {
                if !ok { continue; }
                for (li, l) in labels.iter().enumerate() {
                    let Some(ci) = l.strip_prefix(&format!("{pref}:")).and_then(|x| x.parse::<usize>().ok()) else { continue };
                    let c = &p.clusters[ci];
                    let s = &r.steps[li];
                    // the gathered answer also carries the main process's own entry ("main")
                    let workers: Vec<_> = per_worker(s.content()).into_iter().filter(|(k, _)| k.parse::<u32>().is_ok()).collect();
                    if workers.len() != p.workers.max(1) as usize { v.push(Violation::new("declared_differs_from_loaded", format!("worker_answers={}|{pref}", workers.len()), format!("QueryClusterById({}) was answered by {} worker(s), {} are running (status {:?})", c.id, workers.len(), p.workers, s.final_status()))); }
                    for (wid, wc) in &workers {
                    let info = match &wc.content_type { Some(ContentType::Clusters(ci)) => ci.vec.first().cloned(), _ => None };
                    let Some(info) = info else { v.push(Violation::new("declared_differs_from_loaded", format!("cluster_missing_in_worker|{pref}"), format!("QueryClusterById({}) has no answer from worker {wid} (status {:?})", c.id, s.final_status()))); continue };
                    views_compared += 1;
                    let mut want_f: Vec<String> = c.fronts.iter().map(|f| format!("{}|{}|{}|{}", p.listeners[f.listener], f.host, f.path, if f.equals { "EQUALS" } else { "PREFIX" })).collect();
                    let mut got_f: Vec<String> = info.http_frontends.iter().map(|f| { let a: SocketAddr = f.address.into(); format!("{}|{}|{}|{}", a, f.hostname, f.path.value, match f.path.kind { 0 => "PREFIX", 1 => "REGEX", _ => "EQUALS" }) }).collect();
                    want_f.sort(); got_f.sort();
                    if want_f != got_f { v.push(Violation::new("declared_differs_from_loaded", format!("frontends|{pref}|{size}"), format!("cluster {}: file declares {want_f:?}, the worker holds {got_f:?}", c.id))); }
                    let mut want_b: Vec<String> = c.backends.iter().map(|b| b.to_string()).collect();
                    let mut got_b: Vec<String> = info.backends.iter().map(|b| { let a: SocketAddr = b.address.into(); a.to_string() }).collect();
                    want_b.sort(); got_b.sort();
                    if want_b != got_b { v.push(Violation::new("declared_differs_from_loaded", format!("backends|{pref}|{size}"), format!("cluster {}: file declares {want_b:?}, worker {wid} holds {got_b:?}", c.id))); }
                    }
                }
            }
            // behaviour: the routes answer
            if ok1 {
                for (k, id) in cids.iter().enumerate() {
                    let c: &H1Client = w.actor_ref(*id);
                    let round2 = clients[k].wait_board.is_some();
                    if round2 && !ok2 { continue; }
                    let got = c.responses().first().map(|m| (m.start.clone(), m.body_len, m.complete));
                    match (expect[k], &got) {
                        (Some(ci), Some((start, len, true))) if start.contains(" 200") && *len == 1000 + ci as u64 => {}
                        (None, Some((start, _, _))) if start.contains(" 404") => {}
                        (want, got) => v.push(Violation::new("declared_differs_from_loaded", format!("route_not_served|{}|{size}", if round2 { "after_second_reload" } else { "after_load" }), format!("client {} ({} {}): expected {}, got {:?} (connect_err {:?})", clients[k].name, clients[k].requests[0].host, clients[k].requests[0].path, match want { Some(ci) => format!("200 from a backend of cluster {}", p.clusters[ci].id), None => "404".into() }, got, c.rec.connect_err))),
                    }
                }
            }
        }
        rep.probes.insert("clusters".into(), p.clusters.len() as u64);
        rep.probes.insert("views_compared".into(), views_compared);
        rep.probes.insert(format!("size_{size}"), 1);
        rep.nontrivial = views_compared > 0;
        rep.probes.insert(format!("workers_{}", p.workers), 1);
        rep.summary = format!("real main + fresh worker(s): ReloadConfiguration of a file with {} listeners, {} clusters, {} frontends, {} backends (style {}, clusters_first {}), {} routes probed{}", p.listeners.len(), p.clusters.len(), p.clusters.iter().map(|c| c.fronts.len()).sum::<usize>(), p.clusters.iter().map(|c| c.backends.len()).sum::<usize>(), p.style, p.clusters_first, p.probes.len(), if p.reload_twice { ", reloaded a second time" } else { "" });
        rep.violations = v;
        rep.trace_hash = w.trace.0;
        w.stats.virtual_ns = w.now.saturating_sub(1000 * SEC);
        rep.stats = w.stats.clone();
        let mut dbg = String::new();
        if log {
            dbg += &render(&p);
            for l in &w.log { dbg += l; dbg.push('\n'); }
            for (i, s) in r.steps.iter().enumerate() { dbg += &format!("{}: sent {} final {:?} answers {:?}\n", labels[i], s.t_send, s.final_status(), s.answers.iter().map(|a| (a.1.status, a.1.message.chars().take(200).collect::<String>())).collect::<Vec<_>>()); }
            dbg += &format!("{end:#?}\n{}\n", serde_json::to_string_pretty(&rep.violations).unwrap());
        }
        drop(w);
        World::uninstall();
        (rep, dbg)
    })
}

pub fn shrink(p: &ReloadPlan) -> Vec<ReloadPlan> {
    let mut out = Vec::new();
    // drop a cluster (re-index the probes)
    let n = p.clusters.len();
    let try_drop = |keep: &dyn Fn(usize) -> bool| -> ReloadPlan {
        let mut q = p.clone();
        let map: Vec<Option<usize>> = { let mut k = 0; (0..n).map(|i| if keep(i) { k += 1; Some(k - 1) } else { None }).collect() };
        q.clusters = p.clusters.iter().enumerate().filter(|(i, _)| keep(*i)).map(|(_, c)| c.clone()).collect();
        q.probes = p.probes.iter().filter_map(|(ci, fi)| map[*ci].map(|c| (c, *fi))).collect();
        q
    };
    if n > 2 { out.push(try_drop(&|i| i < n / 2)); out.push(try_drop(&|i| i >= n / 2)); }
    if n > 1 && n <= 12 { for d in 0..n { out.push(try_drop(&|i| i != d)); } }
    if p.probes.len() > 1 { for i in 0..p.probes.len() { let mut q = p.clone(); q.probes.remove(i); out.push(q); } }
    if p.reload_twice { let mut q = p.clone(); q.reload_twice = false; out.push(q); }
    if p.frag != 0 { let mut q = p.clone(); q.frag = 0; out.push(q); }
    if p.clusters_first { let mut q = p.clone(); q.clusters_first = false; out.push(q); }
    out
}

/// The family as a property of its own (`simk check C20C`): used while developing; the registered check C20 dispatches
/// one seed in N here.
pub struct Standalone;
impl Property for Standalone {
    fn id(&self) -> &'static str { "C20C" }
    fn runs(&self, tier: Tier) -> u64 { match tier { Tier::Quick => 400, Tier::Thorough => 4000 } }
    fn gen_plan(&self, seed: u64, tier: Tier) -> serde_json::Value { serde_json::to_value(generate(seed, tier)).unwrap() }
    fn run_plan(&self, plan: &serde_json::Value) -> RunReport { match serde_json::from_value::<ReloadPlan>(plan.clone()) { Ok(p) => run(&p, false).0, Err(e) => RunReport { harness_error: Some(format!("bad plan: {e}")), ..Default::default() } } }
    fn shrink(&self, plan: &serde_json::Value) -> Vec<serde_json::Value> { serde_json::from_value::<ReloadPlan>(plan.clone()).map(|p| shrink(&p).into_iter().map(|q| serde_json::to_value(q).unwrap()).collect()).unwrap_or_default() }
    fn debug_plan(&self, plan: &serde_json::Value) -> String { serde_json::from_value::<ReloadPlan>(plan.clone()).map(|p| run(&p, true).1).unwrap_or_default() }
    fn descr(&self) -> Descr { Descr { level: "exploration", rule: "development alias of the C20 cluster_reload family", assumptions: vec![], real: vec![], stub: vec![], not_covered: vec![] } }
}
