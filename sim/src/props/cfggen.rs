//! shared ConfigState command-history generator (being written by an agent)
