//! cfggen — seeded generator of configuration command histories (`Request` sequences) for
//! `sozu_command_lib::state::ConfigState` and anything that consumes the same verbs (workers, the
//! main process), plus the structural state comparison shared by C05/C06/C07.
//!
//! The generator is free of harness state: `gen_history(&mut Prng, len, &GenOpts) -> Vec<Request>`.
//! It covers every mutating verb `ConfigState::dispatch` accepts, with valid and deliberately invalid
//! arguments, duplicates, removals of missing things, partially invalid multi-field commands, over
//! small alphabets (cluster ids, IPv4/IPv6 addresses, hostnames, backend ids) so collisions are common.
//!
//! Certificates come from the PEM fixtures in `/repo/lib/assets`. To keep plans small the generator can
//! emit *symbolic* PEM strings (`@cert:N`, `@key:N`, `@chain`, `@dertrunc:N`, `@pemtrunc:N`) that
//! `materialize` expands to the real text; `gen_history` returns materialised requests.
#![allow(dead_code)]

use std::collections::{BTreeMap, BTreeSet};
use std::net::SocketAddr;

use sozu_command_lib::certificate::Fingerprint;
use sozu_command_lib::proto::command::{
    request::RequestType, ActivateListener, AddBackend, AddCertificate, AlpnProtocols, CertificateAndKey, Cluster, CustomHttpAnswers,
    DeactivateListener, Header, HealthCheckConfig, HstsConfig, HttpListenerConfig, HttpsListenerConfig, IpAddress, LoadBalancingParams, PathRule,
    RemoveBackend, RemoveCertificate, RemoveListener, ReplaceCertificate, Request, RequestHttpFrontend, RequestTcpFrontend, RequestUdpFrontend,
    SetHealthCheck, SocketAddress, Status, TcpListenerConfig, UdpClusterConfig, UdpHealthConfig, UdpListenerConfig, UpdateHttpListenerConfig,
    UpdateHttpsListenerConfig, UpdateTcpListenerConfig, UpdateUdpListenerConfig,
};
use sozu_command_lib::response::{Backend, HttpFrontend, TcpFrontend, UdpFrontend};
use sozu_command_lib::state::ConfigState;

use crate::prng::Prng;

// ------------------------------------------------------------------------------------------ corpus

/// (certificate PEM, private key PEM) pairs that exist in the repository.
pub const CORPUS: &[(&str, &str)] = &[
    (include_str!("/repo/lib/assets/tests/ecdsa-localhost.pem"), include_str!("/repo/lib/assets/tests/ecdsa-localhost.key")),
    (include_str!("/repo/lib/assets/cn-ne-san-cert.pem"), include_str!("/repo/lib/assets/cn-ne-san-key.pem")),
    (include_str!("/repo/lib/assets/multi-sni-cert.pem"), include_str!("/repo/lib/assets/multi-sni-key.pem")),
    (include_str!("/repo/lib/assets/tests/localhost.crt"), include_str!("/repo/lib/assets/tests/localhost.key")),
    (include_str!("/repo/lib/assets/certificate.pem"), include_str!("/repo/lib/assets/key.pem")),
    (include_str!("/repo/lib/assets/local-certificate.pem"), include_str!("/repo/lib/assets/local-key.pem")),
];
pub const CHAIN: &str = include_str!("/repo/lib/assets/certificate_chain.pem");

/// Expand one symbolic PEM string. Anything not starting with `@` is returned as is.
pub fn expand_pem(s: &str) -> String {
    let idx = |rest: &str| rest.parse::<usize>().unwrap_or(0) % CORPUS.len();
    if let Some(r) = s.strip_prefix("@cert:") { return CORPUS[idx(r)].0.to_string(); }
    if let Some(r) = s.strip_prefix("@key:") { return CORPUS[idx(r)].1.to_string(); }
    if s == "@chain" { return CHAIN.to_string(); }
    if let Some(r) = s.strip_prefix("@pemtrunc:") {
        // BEGIN line and some base64, no END line: not a PEM object
        let c = CORPUS[idx(r)].0;
        return c[..c.len() / 2].to_string();
    }
    if let Some(r) = s.strip_prefix("@dertrunc:") {
        // well-formed PEM framing around a truncated DER body: PEM parses, X.509 does not
        let c = CORPUS[idx(r)].0;
        let lines: Vec<&str> = c.lines().collect();
        let keep = 1 + (lines.len().saturating_sub(2)) / 2;
        let mut out = String::new();
        for l in &lines[..keep.min(lines.len())] { out.push_str(l); out.push('\n'); }
        out.push_str("-----END CERTIFICATE-----\n");
        return out;
    }
    s.to_string()
}

fn expand_cak(c: &mut CertificateAndKey) {
    if c.certificate.starts_with('@') { c.certificate = expand_pem(&c.certificate); }
    if c.key.starts_with('@') { c.key = expand_pem(&c.key); }
    for x in c.certificate_chain.iter_mut() { if x.starts_with('@') { *x = expand_pem(x); } }
}

/// Replace symbolic PEM strings by the real text (idempotent).
pub fn materialize(r: &mut Request) {
    match &mut r.request_type {
        Some(RequestType::AddCertificate(a)) => expand_cak(&mut a.certificate),
        Some(RequestType::ReplaceCertificate(a)) => expand_cak(&mut a.new_certificate),
        Some(RequestType::AddHttpsListener(l)) => {
            if let Some(c) = l.certificate.as_mut() { if c.starts_with('@') { *c = expand_pem(c); } }
            if let Some(c) = l.key.as_mut() { if c.starts_with('@') { *c = expand_pem(c); } }
            for x in l.certificate_chain.iter_mut() { if x.starts_with('@') { *x = expand_pem(x); } }
        }
        _ => {}
    }
}

/// SHA-256 fingerprint (hex) of corpus certificate `i`, as sozu computes it (input construction only).
pub fn corpus_fingerprint(i: usize) -> String {
    sozu_command_lib::certificate::calculate_fingerprint(CORPUS[i % CORPUS.len()].0.as_bytes()).map(hex_encode).unwrap_or_default()
}
pub fn hex_encode(b: Vec<u8>) -> String {
    let mut s = String::with_capacity(b.len() * 2);
    for x in b { s.push_str(&format!("{x:02x}")); }
    s
}

// ------------------------------------------------------------------------------------------- verbs

#[derive(Clone, Copy, Debug, PartialEq, Eq, PartialOrd, Ord, serde::Serialize, serde::Deserialize)]
pub enum Verb {
    AddCluster, RemoveCluster, SetHealthCheck, RemoveHealthCheck,
    AddHttpListener, AddHttpsListener, AddTcpListener, AddUdpListener,
    RemoveListener, ActivateListener, DeactivateListener,
    UpdateHttpListener, UpdateHttpsListener, UpdateTcpListener, UpdateUdpListener,
    AddHttpFrontend, RemoveHttpFrontend, AddHttpsFrontend, RemoveHttpsFrontend,
    AddTcpFrontend, RemoveTcpFrontend, AddUdpFrontend, RemoveUdpFrontend,
    AddBackend, RemoveBackend,
    AddCertificate, ReplaceCertificate, RemoveCertificate,
    /// requests that are not configuration: Status, an empty request, SaveState (undispatchable)
    NonConfig,
}
pub const ALL_VERBS: &[Verb] = &[
    Verb::AddCluster, Verb::RemoveCluster, Verb::SetHealthCheck, Verb::RemoveHealthCheck,
    Verb::AddHttpListener, Verb::AddHttpsListener, Verb::AddTcpListener, Verb::AddUdpListener,
    Verb::RemoveListener, Verb::ActivateListener, Verb::DeactivateListener,
    Verb::UpdateHttpListener, Verb::UpdateHttpsListener, Verb::UpdateTcpListener, Verb::UpdateUdpListener,
    Verb::AddHttpFrontend, Verb::RemoveHttpFrontend, Verb::AddHttpsFrontend, Verb::RemoveHttpsFrontend,
    Verb::AddTcpFrontend, Verb::RemoveTcpFrontend, Verb::AddUdpFrontend, Verb::RemoveUdpFrontend,
    Verb::AddBackend, Verb::RemoveBackend,
    Verb::AddCertificate, Verb::ReplaceCertificate, Verb::RemoveCertificate,
    Verb::NonConfig,
];

/// Short verb name of a request (plan-side classification; `-` for an empty request).
pub fn verb_name(r: &Request) -> &'static str {
    match &r.request_type {
        None => "Empty",
        Some(t) => match t {
            RequestType::AddCluster(_) => "AddCluster", RequestType::RemoveCluster(_) => "RemoveCluster",
            RequestType::SetHealthCheck(_) => "SetHealthCheck", RequestType::RemoveHealthCheck(_) => "RemoveHealthCheck",
            RequestType::AddHttpListener(_) => "AddHttpListener", RequestType::AddHttpsListener(_) => "AddHttpsListener",
            RequestType::AddTcpListener(_) => "AddTcpListener", RequestType::AddUdpListener(_) => "AddUdpListener",
            RequestType::RemoveListener(_) => "RemoveListener", RequestType::ActivateListener(_) => "ActivateListener",
            RequestType::DeactivateListener(_) => "DeactivateListener",
            RequestType::UpdateHttpListener(_) => "UpdateHttpListener", RequestType::UpdateHttpsListener(_) => "UpdateHttpsListener",
            RequestType::UpdateTcpListener(_) => "UpdateTcpListener", RequestType::UpdateUdpListener(_) => "UpdateUdpListener",
            RequestType::AddHttpFrontend(_) => "AddHttpFrontend", RequestType::RemoveHttpFrontend(_) => "RemoveHttpFrontend",
            RequestType::AddHttpsFrontend(_) => "AddHttpsFrontend", RequestType::RemoveHttpsFrontend(_) => "RemoveHttpsFrontend",
            RequestType::AddTcpFrontend(_) => "AddTcpFrontend", RequestType::RemoveTcpFrontend(_) => "RemoveTcpFrontend",
            RequestType::AddUdpFrontend(_) => "AddUdpFrontend", RequestType::RemoveUdpFrontend(_) => "RemoveUdpFrontend",
            RequestType::AddBackend(_) => "AddBackend", RequestType::RemoveBackend(_) => "RemoveBackend",
            RequestType::AddCertificate(_) => "AddCertificate", RequestType::ReplaceCertificate(_) => "ReplaceCertificate",
            RequestType::RemoveCertificate(_) => "RemoveCertificate",
            RequestType::Status(_) => "Status", RequestType::SaveState(_) => "SaveState",
            _ => "Other",
        },
    }
}

// ----------------------------------------------------------------------------------------- options

#[derive(Clone, Debug)]
pub struct GenOpts {
    /// listener / frontend address alphabet
    pub addrs: Vec<SocketAddr>,
    /// backend address alphabet
    pub backend_addrs: Vec<SocketAddr>,
    pub clusters: Vec<String>,
    pub hosts: Vec<String>,
    pub backend_ids: Vec<String>,
    /// number of corpus certificates in use (1..=CORPUS.len())
    pub n_certs: usize,
    /// relative weight per verb (0 = never)
    pub weights: BTreeMap<Verb, u32>,
    /// per mille: an argument is deliberately invalid as a whole (unknown enum value, address without ip,
    /// unparsable PEM, bad hex, invalid health check)
    pub invalid_pm: u32,
    /// per mille: a multi-field command (listener patch, certificate replacement) carries exactly one bad
    /// field among good ones
    pub partial_pm: u32,
    /// per mille: removals / patches / replacements aim at something emitted earlier in this history
    pub reuse_pm: u32,
    /// emit symbolic PEM strings (see `materialize`) instead of the real text
    pub symbolic_certs: bool,
    /// per mille: an optional field is present
    pub opt_pm: u32,
    /// per mille: a free-text field (answer template) is large (30-70 kB, rarely > 200 kB)
    pub big_text_pm: u32,
}

pub const ADDR_ALPHABET: &[&str] = &["127.0.0.1:8080", "127.0.0.1:8443", "[::1]:8080", "10.0.0.1:80", "[2001:db8::1]:443", "0.0.0.0:80", "127.0.0.1:8081"];
pub const BACKEND_ADDR_ALPHABET: &[&str] = &["10.1.0.1:8000", "10.1.0.2:8000", "[fd00::1]:8000", "10.1.0.1:8001"];
pub const HOST_ALPHABET: &[&str] = &["a.test", "b.test", "*.a.test", "A.test", "xn--bcher-kva.test"];

impl GenOpts {
    /// every verb, moderate fault rates, the whole alphabet
    pub fn full() -> GenOpts {
        GenOpts {
            addrs: ADDR_ALPHABET.iter().take(4).map(|s| s.parse().unwrap()).collect(),
            backend_addrs: BACKEND_ADDR_ALPHABET.iter().map(|s| s.parse().unwrap()).collect(),
            clusters: vec!["c0".into(), "c1".into(), "c2".into()],
            hosts: HOST_ALPHABET.iter().take(3).map(|s| s.to_string()).collect(),
            backend_ids: vec!["b0".into(), "b1".into()],
            n_certs: 4,
            weights: ALL_VERBS.iter().map(|v| (*v, default_weight(*v))).collect(),
            invalid_pm: 80,
            partial_pm: 150,
            reuse_pm: 600,
            symbolic_certs: false,
            opt_pm: 250,
            big_text_pm: 0,
        }
    }
    /// swarm: random alphabet sizes, random subset of verbs emphasised / switched off, random fault rates
    pub fn swarm(rng: &mut Prng) -> GenOpts {
        let mut o = GenOpts::full();
        let na = 1 + rng.below(4) as usize;
        let mut idx: Vec<usize> = (0..ADDR_ALPHABET.len()).collect();
        rng.shuffle(&mut idx);
        o.addrs = idx.iter().take(na).map(|i| ADDR_ALPHABET[*i].parse().unwrap()).collect();
        let nb = 1 + rng.below(BACKEND_ADDR_ALPHABET.len() as u64) as usize;
        o.backend_addrs = BACKEND_ADDR_ALPHABET.iter().take(nb).map(|s| s.parse().unwrap()).collect();
        let nc = 1 + rng.below(3) as usize;
        o.clusters = (0..nc).map(|i| format!("c{i}")).collect();
        if rng.chance(1, 10) { o.clusters.push(String::new()); }
        let nh = 1 + rng.below(3) as usize;
        let mut hidx: Vec<usize> = (0..HOST_ALPHABET.len()).collect();
        rng.shuffle(&mut hidx);
        o.hosts = hidx.iter().take(nh).map(|i| HOST_ALPHABET[*i].to_string()).collect();
        o.backend_ids = (0..1 + rng.below(3)).map(|i| format!("b{i}")).collect();
        o.n_certs = 1 + rng.below(CORPUS.len() as u64 - 1) as usize;
        // switch groups of verbs off / boost them
        let groups: &[&[Verb]] = &[
            &[Verb::AddCluster, Verb::RemoveCluster, Verb::SetHealthCheck, Verb::RemoveHealthCheck],
            &[Verb::AddHttpListener, Verb::UpdateHttpListener, Verb::AddHttpFrontend, Verb::RemoveHttpFrontend],
            &[Verb::AddHttpsListener, Verb::UpdateHttpsListener, Verb::AddHttpsFrontend, Verb::RemoveHttpsFrontend],
            &[Verb::AddTcpListener, Verb::UpdateTcpListener, Verb::AddTcpFrontend, Verb::RemoveTcpFrontend],
            &[Verb::AddUdpListener, Verb::UpdateUdpListener, Verb::AddUdpFrontend, Verb::RemoveUdpFrontend],
            &[Verb::AddBackend, Verb::RemoveBackend],
            &[Verb::AddCertificate, Verb::ReplaceCertificate, Verb::RemoveCertificate],
            &[Verb::RemoveListener, Verb::ActivateListener, Verb::DeactivateListener],
        ];
        for g in groups {
            let f = *rng.pick(&[0u32, 1, 1, 1, 1, 3, 6]);
            for v in g.iter() { if let Some(w) = o.weights.get_mut(v) { *w *= f; } }
        }
        if o.weights.values().all(|w| *w == 0) { o.weights = GenOpts::full().weights; }
        o.invalid_pm = *rng.pick(&[0u32, 30, 80, 200]);
        o.partial_pm = *rng.pick(&[0u32, 100, 300, 600]);
        o.reuse_pm = *rng.pick(&[300u32, 600, 850]);
        o.opt_pm = *rng.pick(&[60u32, 250, 500]);
        o
    }
    /// only well-formed arguments (for consumers that want valid histories)
    pub fn valid_only(mut self) -> GenOpts { self.invalid_pm = 0; self.partial_pm = 0; self.weights.insert(Verb::NonConfig, 0); self }
}

fn default_weight(v: Verb) -> u32 {
    match v {
        Verb::AddCluster | Verb::AddBackend | Verb::AddHttpFrontend | Verb::AddHttpsFrontend | Verb::AddCertificate => 6,
        Verb::AddTcpFrontend | Verb::AddUdpFrontend => 4,
        Verb::AddHttpListener | Verb::AddHttpsListener | Verb::AddTcpListener | Verb::AddUdpListener => 4,
        Verb::UpdateHttpListener | Verb::UpdateHttpsListener => 4,
        Verb::UpdateTcpListener | Verb::UpdateUdpListener => 2,
        Verb::RemoveBackend | Verb::RemoveCertificate | Verb::ReplaceCertificate => 4,
        Verb::NonConfig => 1,
        _ => 3,
    }
}

// ------------------------------------------------------------------------------- generator memory

/// What the history has emitted so far (no knowledge of what was accepted).
#[derive(Clone, Debug, Default)]
pub struct Mem {
    pub listeners: Vec<(i32, SocketAddress)>,
    pub http_fronts: Vec<RequestHttpFrontend>,
    pub https_fronts: Vec<RequestHttpFrontend>,
    pub tcp_fronts: Vec<RequestTcpFrontend>,
    pub udp_fronts: Vec<RequestUdpFrontend>,
    pub backends: Vec<AddBackend>,
    /// (address, corpus index)
    pub certs: Vec<(SocketAddress, usize)>,
}

pub fn sa(a: SocketAddr) -> SocketAddress { a.into() }

/// Independent conversion of the wire address to a socket address (documented in request.rs: missing ip =
/// unspecified v4, port truncated to 16 bits).
pub fn to_sockaddr(a: &SocketAddress) -> SocketAddr {
    use sozu_command_lib::proto::command::ip_address::Inner;
    let ip = match a.ip.inner {
        Some(Inner::V4(v)) => std::net::IpAddr::V4(std::net::Ipv4Addr::from(v)),
        Some(Inner::V6(v)) => std::net::IpAddr::V6(std::net::Ipv6Addr::from(((v.high as u128) << 64) | v.low as u128)),
        None => std::net::IpAddr::V4(std::net::Ipv4Addr::UNSPECIFIED),
    };
    SocketAddr::new(ip, a.port as u16)
}

struct G<'a> {
    rng: &'a mut Prng,
    o: &'a GenOpts,
    mem: Mem,
}

macro_rules! h2_knobs {
    ($g:expr, $t:expr, $zero_ok:expr) => {{
        let g = &mut *$g;
        macro_rules! k { ($f:ident, $ty:ty) => { if g.opt(3) { $t.$f = Some(g.knob($zero_ok) as $ty); } }; }
        k!(h2_max_rst_stream_per_window, u32); k!(h2_max_ping_per_window, u32); k!(h2_max_settings_per_window, u32);
        k!(h2_max_empty_data_per_window, u32); k!(h2_max_continuation_frames, u32); k!(h2_max_glitch_count, u32);
        k!(h2_initial_connection_window, u32); k!(h2_max_concurrent_streams, u32);
        if g.opt(3) { $t.h2_stream_shrink_ratio = Some(if $zero_ok { g.knob(true) as u32 } else { 2 + g.rng.below(8) as u32 }); }
        k!(h2_max_rst_stream_lifetime, u64); k!(h2_max_rst_stream_abusive_lifetime, u64); k!(h2_max_rst_stream_emitted_lifetime, u64);
        k!(h2_max_header_list_size, u32); k!(h2_max_header_table_size, u32); k!(h2_max_header_fields, u32);
        k!(h2_stream_idle_timeout_seconds, u32); k!(h2_max_window_update_stream0_per_window, u32);
        if g.opt(3) { $t.h2_graceful_shutdown_deadline_seconds = Some(*g.rng.pick(&[0u32, 5, 30])); }
    }};
}

impl<'a> G<'a> {
    fn invalid(&mut self) -> bool { self.o.invalid_pm > 0 && self.rng.below(1000) < self.o.invalid_pm as u64 }
    fn partial(&mut self) -> bool { self.o.partial_pm > 0 && self.rng.below(1000) < self.o.partial_pm as u64 }
    fn reuse(&mut self) -> bool { self.rng.below(1000) < self.o.reuse_pm as u64 }
    /// optional field present? `div` scales the probability down for rarely interesting fields
    fn opt(&mut self, div: u64) -> bool { self.rng.below(1000 * div) < self.o.opt_pm as u64 }
    fn knob(&mut self, zero_ok: bool) -> u64 {
        if zero_ok { *self.rng.pick(&[0u64, 1, 2, 100, 65_535, u32::MAX as u64]) } else { *self.rng.pick(&[1u64, 2, 100, 65_535, u32::MAX as u64]) }
    }
    fn timeout(&mut self) -> u32 { *self.rng.pick(&[0u32, 1, 10, 30, 60, 3600, u32::MAX]) }
    fn addr(&mut self) -> SocketAddress {
        let a = *self.rng.pick(&self.o.addrs);
        let mut s = sa(a);
        if self.invalid() {
            if self.rng.chance(1, 2) { s.ip = IpAddress { inner: None }; } else { s.port += 65536; }
        }
        s
    }
    fn plain_addr(&mut self) -> SocketAddress { sa(*self.rng.pick(&self.o.addrs)) }
    fn backend_addr(&mut self) -> SocketAddress { sa(*self.rng.pick(&self.o.backend_addrs)) }
    fn cluster(&mut self) -> String {
        if self.invalid() { return self.rng.pick(&["", "nope", "c0\u{0}x"]).to_string(); }
        self.rng.pick(&self.o.clusters).clone()
    }
    fn host(&mut self) -> String {
        if self.invalid() { return self.rng.pick(&["", "bad host", "é.test"]).to_string(); }
        self.rng.pick(&self.o.hosts).clone()
    }
    fn tags(&mut self) -> BTreeMap<String, String> {
        let mut m = BTreeMap::new();
        let n = *self.rng.pick(&[0u64, 0, 1, 2]);
        for _ in 0..n { m.insert(self.rng.pick(&["owner", "env", ""]).to_string(), self.rng.pick(&["x", "y", "", "a\"b\n"]).to_string()); }
        m
    }
    fn text(&mut self) -> String {
        if self.o.big_text_pm > 0 && self.rng.below(1000) < self.o.big_text_pm as u64 {
            let n = *self.rng.pick(&[30_000usize, 30_000, 70_000, 70_000, 120_000, 210_000]);
            let unit = "<p>sozu \"503\" \\ page\n</p>";
            return unit.repeat(n / unit.len() + 1);
        }
        self.small_text()
    }
    fn small_text(&mut self) -> String { self.rng.pick(&["", "x", "HTTP/1.1 503 Service Unavailable\r\n\r\n", "tmpl %REQUEST_ID \u{0}\u{7f}é"]).to_string() }
    fn answers_map(&mut self) -> BTreeMap<String, String> {
        let mut m = BTreeMap::new();
        if self.opt(2) { let n = 1 + self.rng.below(2); for _ in 0..n { m.insert(self.rng.pick(&["404", "503", "abc", ""]).to_string(), self.text()); } }
        m
    }
    fn custom_answers(&mut self) -> CustomHttpAnswers {
        let mut c = CustomHttpAnswers::default();
        if self.rng.chance(1, 2) { c.answer_404 = Some(self.text()); }
        if self.rng.chance(1, 3) { c.answer_503 = Some(self.text()); }
        if self.rng.chance(1, 4) { c.answer_301 = Some(self.text()); }
        if self.rng.chance(1, 6) { c.answer_429 = Some(self.text()); }
        c
    }
    fn sozu_id_header(&mut self, bad: bool) -> String {
        if bad { self.rng.pick(&["", "bad header", "x:y", "a\r\nb", "é"]).to_string() } else { self.rng.pick(&["Sozu-Id", "x-id", "X_1"]).to_string() }
    }
    fn hsts(&mut self) -> HstsConfig {
        HstsConfig { enabled: Some(self.rng.chance(1, 2)), max_age: if self.rng.chance(1, 2) { Some(*self.rng.pick(&[0u32, 31536000])) } else { None }, include_subdomains: if self.rng.chance(1, 3) { Some(true) } else { None }, preload: None, force_replace_backend: if self.rng.chance(1, 4) { Some(false) } else { None } }
    }
    fn health(&mut self, bad: bool) -> HealthCheckConfig {
        let mut h = HealthCheckConfig { uri: self.rng.pick(&["/", "/health", "/h?x=1"]).to_string(), interval: *self.rng.pick(&[1u32, 10]), timeout: *self.rng.pick(&[1u32, 5]), healthy_threshold: *self.rng.pick(&[1u32, 3]), unhealthy_threshold: *self.rng.pick(&[1u32, 3]), expected_status: *self.rng.pick(&[0u32, 200, 999]) };
        if bad {
            match self.rng.below(4) { 0 => h.uri = "health".into(), 1 => h.uri = "/a\r\nX: y".into(), 2 => h.interval = 0, _ => h.unhealthy_threshold = 0 }
        }
        h
    }

    // ---- clusters
    fn gen_cluster(&mut self) -> Cluster {
        let mut c = Cluster { cluster_id: self.cluster(), sticky_session: self.rng.chance(1, 3), https_redirect: self.rng.chance(1, 4), ..Default::default() };
        c.load_balancing = if self.invalid() { 99 } else { self.rng.below(5) as i32 };
        if self.opt(1) { c.proxy_protocol = Some(if self.invalid() { 9 } else { self.rng.below(3) as i32 }); }
        if self.opt(1) { c.answer_503 = Some(self.text()); }
        if self.opt(1) { c.load_metric = Some(self.rng.below(3) as i32); }
        if self.opt(1) { c.http2 = Some(self.rng.chance(1, 2)); }
        c.answers = self.answers_map();
        if self.opt(1) { c.https_redirect_port = Some(*self.rng.pick(&[443u32, 0, 70000])); }
        if self.opt(2) { c.authorized_hashes = vec![self.rng.pick(&["user:0123abcd", "", "x"]).to_string()]; }
        if self.opt(2) { c.www_authenticate = Some(self.text()); }
        if self.opt(1) { c.max_connections_per_ip = Some(*self.rng.pick(&[0u64, 1, u64::MAX, 1 << 53])); }
        if self.opt(1) { c.retry_after = Some(*self.rng.pick(&[0u32, 30])); }
        if self.opt(1) { let bad = self.invalid(); c.health_check = Some(self.health(bad)); }
        if self.opt(2) {
            let mut u = UdpClusterConfig::default();
            if self.rng.chance(1, 2) { u.affinity_key = Some(self.rng.below(2) as i32); }
            if self.rng.chance(1, 2) { u.responses = Some(*self.rng.pick(&[0u32, 1])); }
            if self.rng.chance(1, 3) { u.send_proxy_protocol = Some(true); }
            if self.rng.chance(1, 2) {
                u.health = Some(UdpHealthConfig { mode: Some(self.rng.below(3) as i32), tcp_port: if self.rng.chance(1, 2) { Some(53) } else { None }, udp_probe_payload: if self.rng.chance(1, 2) { Some(vec![0, 255, 10, 34]) } else { None }, ..Default::default() });
            }
            c.udp = Some(u);
        }
        c
    }

    // ---- listeners
    fn gen_http_listener(&mut self) -> HttpListenerConfig {
        let mut l = HttpListenerConfig { address: self.addr(), ..Default::default() };
        if self.opt(1) { l.public_address = Some(self.plain_addr()); }
        l.expect_proxy = self.rng.chance(1, 4);
        l.sticky_name = self.rng.pick(&["SOZUBALANCEID", "", "sid"]).to_string();
        if self.opt(1) { l.front_timeout = self.timeout(); }
        if self.opt(1) { l.back_timeout = self.timeout(); }
        if self.opt(1) { l.connect_timeout = self.timeout(); }
        if self.opt(1) { l.request_timeout = self.timeout(); }
        l.active = self.rng.chance(1, 5);
        if self.opt(1) { l.http_answers = Some(self.custom_answers()); }
        h2_knobs!(self, l, true);
        if self.opt(1) { let bad = self.invalid(); l.sozu_id_header = Some(self.sozu_id_header(bad)); }
        l.answers = self.answers_map();
        if self.opt(2) { l.elide_x_real_ip = Some(self.rng.chance(1, 2)); }
        if self.opt(2) { l.send_x_real_ip = Some(self.rng.chance(1, 2)); }
        l
    }
    fn gen_https_listener(&mut self) -> HttpsListenerConfig {
        let mut l = HttpsListenerConfig { address: self.addr(), ..Default::default() };
        if self.opt(1) { l.public_address = Some(self.plain_addr()); }
        l.expect_proxy = self.rng.chance(1, 4);
        l.sticky_name = self.rng.pick(&["SOZUBALANCEID", "", "sid"]).to_string();
        if self.opt(1) { l.front_timeout = self.timeout(); }
        if self.opt(1) { l.back_timeout = self.timeout(); }
        if self.opt(1) { l.connect_timeout = self.timeout(); }
        if self.opt(1) { l.request_timeout = self.timeout(); }
        l.active = self.rng.chance(1, 5);
        if self.opt(1) { l.versions = vec![4, 5]; if self.invalid() { l.versions.push(99); } }
        if self.opt(2) { l.cipher_list = vec!["TLS13_AES_128_GCM_SHA256".into(), "".into()]; }
        if self.opt(2) { l.cipher_suites = vec!["TLS_AES_256_GCM_SHA384".into()]; }
        if self.opt(2) { l.signature_algorithms = vec!["ECDSA+SHA256".into()]; }
        if self.opt(2) { l.groups_list = vec!["x25519".into()]; }
        if self.opt(2) {
            let i = self.rng.below(self.o.n_certs as u64) as usize;
            l.certificate = Some(self.cert_text(i)); l.key = Some(self.key_text(i));
            if self.rng.chance(1, 2) { l.certificate_chain = vec![self.chain_text()]; }
        }
        l.send_tls13_tickets = *self.rng.pick(&[0u64, 4, u64::MAX]);
        if self.opt(1) { l.http_answers = Some(self.custom_answers()); }
        if self.opt(1) { l.alpn_protocols = match self.rng.below(3) { 0 => vec!["h2".into(), "http/1.1".into()], 1 => vec!["http/1.1".into()], _ => vec![] }; }
        h2_knobs!(self, l, true);
        if self.opt(1) { l.strict_sni_binding = Some(self.rng.chance(1, 2)); }
        if self.opt(1) { l.disable_http11 = Some(self.rng.chance(1, 2)); }
        if self.opt(1) { let bad = self.invalid(); l.sozu_id_header = Some(self.sozu_id_header(bad)); }
        l.answers = self.answers_map();
        if self.opt(2) { l.elide_x_real_ip = Some(self.rng.chance(1, 2)); }
        if self.opt(2) { l.send_x_real_ip = Some(self.rng.chance(1, 2)); }
        if self.opt(2) { l.hsts = Some(self.hsts()); }
        l
    }
    fn gen_tcp_listener(&mut self) -> TcpListenerConfig {
        let mut l = TcpListenerConfig { address: self.addr(), ..Default::default() };
        if self.opt(1) { l.public_address = Some(self.plain_addr()); }
        l.expect_proxy = self.rng.chance(1, 4);
        if self.opt(1) { l.front_timeout = self.timeout(); }
        if self.opt(1) { l.back_timeout = self.timeout(); }
        if self.opt(1) { l.connect_timeout = self.timeout(); }
        l.active = self.rng.chance(1, 5);
        l
    }
    fn gen_udp_listener(&mut self) -> UdpListenerConfig {
        let mut l = UdpListenerConfig { address: self.addr(), ..Default::default() };
        if self.opt(1) { l.public_address = Some(self.plain_addr()); }
        if self.opt(1) { l.front_timeout = self.timeout(); }
        if self.opt(1) { l.back_timeout = self.timeout(); }
        if self.opt(1) { l.max_rx_datagram_size = *self.rng.pick(&[0u32, 512, 65535]); }
        if self.opt(1) { l.max_flows = *self.rng.pick(&[0u32, 1, 1000]); }
        l.active = self.rng.chance(1, 5);
        l
    }
    /// address of a listener of this kind emitted earlier, or any address
    fn listener_addr(&mut self, kind: i32) -> SocketAddress {
        if self.reuse() {
            let c: Vec<SocketAddress> = self.mem.listeners.iter().filter(|(k, _)| *k == kind).map(|(_, a)| *a).collect();
            if !c.is_empty() { return *self.rng.pick(&c); }
        }
        self.addr()
    }
    fn listener_kind(&mut self) -> i32 {
        if self.invalid() { return *self.rng.pick(&[4i32, 7, -1]); }
        if self.reuse() && !self.mem.listeners.is_empty() { return self.rng.pick(&self.mem.listeners).0; }
        self.rng.below(4) as i32
    }
    fn gen_update_http(&mut self) -> UpdateHttpListenerConfig {
        let mut p = UpdateHttpListenerConfig { address: self.listener_addr(0), ..Default::default() };
        if self.opt(1) { p.public_address = Some(self.plain_addr()); }
        if self.opt(1) { p.expect_proxy = Some(self.rng.chance(1, 2)); }
        if self.opt(1) { p.sticky_name = Some(self.rng.pick(&["SOZUBALANCEID", "", "sid2"]).to_string()); }
        if self.opt(1) { p.front_timeout = Some(self.timeout()); }
        if self.opt(1) { p.back_timeout = Some(self.timeout()); }
        if self.opt(1) { p.connect_timeout = Some(self.timeout()); }
        if self.opt(1) { p.request_timeout = Some(self.timeout()); }
        if self.opt(1) { p.http_answers = Some(self.custom_answers()); }
        h2_knobs!(self, p, false);
        if self.opt(1) { p.sozu_id_header = Some(self.sozu_id_header(false)); }
        if self.opt(3) { p.answers = self.answers_map(); }
        if self.opt(3) { p.elide_x_real_ip = Some(self.rng.chance(1, 2)); }
        if self.opt(3) { p.send_x_real_ip = Some(self.rng.chance(1, 2)); }
        if self.partial() {
            // make sure there is something good to apply, then exactly one bad field
            if p.front_timeout.is_none() { p.front_timeout = Some(self.timeout()); }
            if p.expect_proxy.is_none() { p.expect_proxy = Some(self.rng.chance(1, 2)); }
            match self.rng.below(4) {
                0 => p.sozu_id_header = Some(self.sozu_id_header(true)),
                1 => p.h2_max_ping_per_window = Some(0),
                2 => p.h2_stream_shrink_ratio = Some(1),
                _ => { p.h2_max_header_fields = Some(0); p.sticky_name = Some("sid3".into()); }
            }
        }
        p
    }
    fn gen_update_https(&mut self) -> UpdateHttpsListenerConfig {
        let mut p = UpdateHttpsListenerConfig { address: self.listener_addr(1), ..Default::default() };
        if self.opt(1) { p.public_address = Some(self.plain_addr()); }
        if self.opt(1) { p.expect_proxy = Some(self.rng.chance(1, 2)); }
        if self.opt(1) { p.sticky_name = Some(self.rng.pick(&["SOZUBALANCEID", "", "sid2"]).to_string()); }
        if self.opt(1) { p.front_timeout = Some(self.timeout()); }
        if self.opt(1) { p.back_timeout = Some(self.timeout()); }
        if self.opt(1) { p.connect_timeout = Some(self.timeout()); }
        if self.opt(1) { p.request_timeout = Some(self.timeout()); }
        if self.opt(1) { p.http_answers = Some(self.custom_answers()); }
        if self.opt(1) { p.alpn_protocols = Some(AlpnProtocols { values: match self.rng.below(3) { 0 => vec!["h2".into(), "http/1.1".into()], 1 => vec!["h2".into()], _ => vec![] } }); }
        if self.opt(1) { p.strict_sni_binding = Some(self.rng.chance(1, 2)); }
        if self.opt(1) { p.disable_http11 = Some(self.rng.chance(1, 2)); }
        h2_knobs!(self, p, false);
        if self.opt(1) { p.sozu_id_header = Some(self.sozu_id_header(false)); }
        if self.opt(3) { p.answers = self.answers_map(); }
        if self.opt(3) { p.elide_x_real_ip = Some(self.rng.chance(1, 2)); }
        if self.opt(3) { p.send_x_real_ip = Some(self.rng.chance(1, 2)); }
        if self.opt(3) { p.hsts = Some(self.hsts()); }
        if self.partial() {
            if p.back_timeout.is_none() { p.back_timeout = Some(self.timeout()); }
            if p.strict_sni_binding.is_none() { p.strict_sni_binding = Some(self.rng.chance(1, 2)); }
            match self.rng.below(4) {
                0 => p.sozu_id_header = Some(self.sozu_id_header(true)),
                1 => p.alpn_protocols = Some(AlpnProtocols { values: vec!["h2".into(), self.rng.pick(&["h3", "", "HTTP/1.1"]).to_string()] }),
                2 => p.h2_max_rst_stream_per_window = Some(0),
                _ => p.h2_stream_shrink_ratio = Some(0),
            }
        }
        p
    }
    fn gen_update_tcp(&mut self) -> UpdateTcpListenerConfig {
        let mut p = UpdateTcpListenerConfig { address: self.listener_addr(2), ..Default::default() };
        if self.opt(1) { p.public_address = Some(self.plain_addr()); }
        if self.rng.chance(1, 2) { p.expect_proxy = Some(self.rng.chance(1, 2)); }
        if self.rng.chance(1, 2) { p.front_timeout = Some(self.timeout()); }
        if self.opt(1) { p.back_timeout = Some(self.timeout()); }
        if self.opt(1) { p.connect_timeout = Some(self.timeout()); }
        p
    }
    fn gen_update_udp(&mut self) -> UpdateUdpListenerConfig {
        let mut p = UpdateUdpListenerConfig { address: self.listener_addr(3), ..Default::default() };
        if self.opt(1) { p.public_address = Some(self.plain_addr()); }
        if self.rng.chance(1, 2) { p.front_timeout = Some(self.timeout()); }
        if self.opt(1) { p.back_timeout = Some(self.timeout()); }
        if self.rng.chance(1, 2) { p.max_rx_datagram_size = Some(*self.rng.pick(&[0u32, 1200, 65535])); }
        if self.opt(1) { p.max_flows = Some(*self.rng.pick(&[0u32, 7])); }
        p
    }

    // ---- frontends
    fn gen_http_front(&mut self) -> RequestHttpFrontend {
        let mut f = RequestHttpFrontend { address: self.addr(), hostname: self.host(), ..Default::default() };
        f.cluster_id = if self.rng.chance(1, 6) { None } else { Some(self.cluster()) };
        f.path = match self.rng.below(5) {
            0 => PathRule { kind: 0, value: String::new() },
            1 => PathRule { kind: 0, value: self.rng.pick(&["/", "/api"]).to_string() },
            2 => PathRule { kind: 1, value: self.rng.pick(&["/[a-z]+", "("]).to_string() },
            3 => PathRule { kind: 2, value: "/x".into() },
            _ => PathRule { kind: 0, value: "/api".into() },
        };
        if self.invalid() { f.path.kind = *self.rng.pick(&[3i32, 9]); }
        if self.rng.chance(1, 4) { f.method = Some(self.rng.pick(&["GET", "POST", ""]).to_string()); }
        f.position = if self.invalid() { 9 } else { self.rng.below(3) as i32 };
        f.tags = self.tags();
        if self.opt(2) { f.redirect = Some(if self.invalid() { 9 } else { self.rng.below(5) as i32 }); }
        if self.opt(2) { f.required_auth = Some(self.rng.chance(1, 2)); }
        if self.opt(2) { f.redirect_scheme = Some(self.rng.below(3) as i32); }
        if self.opt(2) { f.redirect_template = Some(self.text()); }
        if self.opt(2) { f.rewrite_host = Some("h.test".into()); }
        if self.opt(2) { f.rewrite_path = Some("/p".into()); }
        if self.opt(2) { f.rewrite_port = Some(*self.rng.pick(&[0u32, 8080, 70000])); }
        if self.opt(2) { f.headers = vec![Header { position: if self.invalid() { 9 } else { self.rng.below(4) as i32 }, key: "X-A".into(), val: self.text() }]; }
        if self.opt(2) { f.hsts = Some(self.hsts()); }
        f
    }
    fn gen_tcp_front(&mut self) -> RequestTcpFrontend { RequestTcpFrontend { cluster_id: self.cluster(), address: self.addr(), tags: self.tags() } }
    fn gen_udp_front(&mut self) -> RequestUdpFrontend { RequestUdpFrontend { cluster_id: self.cluster(), address: self.addr(), tags: self.tags() } }

    // ---- backends
    fn gen_backend(&mut self) -> AddBackend {
        let mut b = AddBackend { cluster_id: self.cluster(), backend_id: self.rng.pick(&self.o.backend_ids).clone(), address: self.backend_addr(), ..Default::default() };
        if self.invalid() { b.address.ip = IpAddress { inner: None }; }
        if self.opt(1) { b.sticky_id = Some(self.rng.pick(&["s0", "", "s1"]).to_string()); }
        if self.opt(1) { b.load_balancing_parameters = Some(LoadBalancingParams { weight: *self.rng.pick(&[0i32, 1, 100, -1, i32::MAX]) }); }
        if self.opt(1) { b.backup = Some(self.rng.chance(1, 2)); }
        b
    }

    // ---- certificates
    fn cert_text(&mut self, i: usize) -> String { if self.o.symbolic_certs { format!("@cert:{i}") } else { CORPUS[i % CORPUS.len()].0.to_string() } }
    fn key_text(&mut self, i: usize) -> String { if self.o.symbolic_certs { format!("@key:{i}") } else { CORPUS[i % CORPUS.len()].1.to_string() } }
    fn chain_text(&mut self) -> String { if self.o.symbolic_certs { "@chain".into() } else { CHAIN.to_string() } }
    fn sym(&mut self, s: String) -> String { if self.o.symbolic_certs { s } else { expand_pem(&s) } }
    /// `bad`: 0 none, else a kind of invalid certificate text
    fn gen_cak(&mut self, i: usize, bad: u64) -> CertificateAndKey {
        let mut c = CertificateAndKey { certificate: self.cert_text(i), key: self.key_text(i), ..Default::default() };
        match bad {
            0 => {}
            1 => c.certificate = String::new(),
            2 => c.certificate = "not a pem".into(),
            3 => c.certificate = self.sym(format!("@pemtrunc:{i}")),
            4 => c.certificate = self.sym(format!("@dertrunc:{i}")),
            _ => c.certificate = self.key_text(i), // a PEM object that is not a certificate
        }
        if self.opt(1) { c.certificate_chain = vec![self.chain_text()]; }
        if self.opt(1) { c.versions = vec![4, 5]; if self.invalid() { c.versions.push(99); } }
        if self.rng.chance(1, 4) { c.names = vec![self.rng.pick(&self.o.hosts).clone()]; if self.rng.chance(1, 3) { c.names.push("extra.test".into()); } }
        c
    }
    fn bad_cert_kind(&mut self) -> u64 { 1 + self.rng.below(5) }
    fn fingerprint_arg(&mut self, address: &SocketAddress) -> String {
        if self.invalid() { return self.rng.pick(&["zz", "abc", "", "00"]).to_string(); }
        if self.reuse() {
            let c: Vec<usize> = self.mem.certs.iter().filter(|(a, _)| a == address).map(|(_, i)| *i).collect();
            if !c.is_empty() { let i = *self.rng.pick(&c); let f = corpus_fingerprint(i); return if self.rng.chance(1, 8) { f.to_uppercase() } else { f }; }
        }
        corpus_fingerprint(self.rng.below(self.o.n_certs as u64) as usize)
    }
    fn cert_addr(&mut self) -> SocketAddress {
        if self.reuse() && !self.mem.certs.is_empty() { return self.rng.pick(&self.mem.certs).0; }
        self.addr()
    }

    fn make(&mut self, v: Verb) -> Request {
        let t = match v {
            Verb::AddCluster => RequestType::AddCluster(self.gen_cluster()),
            Verb::RemoveCluster => RequestType::RemoveCluster(self.cluster()),
            Verb::SetHealthCheck => { let bad = self.invalid() || (self.partial() && self.rng.chance(1, 3)); RequestType::SetHealthCheck(SetHealthCheck { cluster_id: self.cluster(), config: self.health(bad) }) }
            Verb::RemoveHealthCheck => RequestType::RemoveHealthCheck(self.cluster()),
            Verb::AddHttpListener => { let l = self.gen_http_listener(); self.mem.listeners.push((0, l.address)); RequestType::AddHttpListener(l) }
            Verb::AddHttpsListener => { let l = self.gen_https_listener(); self.mem.listeners.push((1, l.address)); RequestType::AddHttpsListener(l) }
            Verb::AddTcpListener => { let l = self.gen_tcp_listener(); self.mem.listeners.push((2, l.address)); RequestType::AddTcpListener(l) }
            Verb::AddUdpListener => { let l = self.gen_udp_listener(); self.mem.listeners.push((3, l.address)); RequestType::AddUdpListener(l) }
            Verb::RemoveListener => { let k = self.listener_kind(); RequestType::RemoveListener(RemoveListener { address: self.listener_addr(k), proxy: k }) }
            Verb::ActivateListener => { let k = self.listener_kind(); RequestType::ActivateListener(ActivateListener { address: self.listener_addr(k), proxy: k, from_scm: self.rng.chance(1, 8) }) }
            Verb::DeactivateListener => { let k = self.listener_kind(); RequestType::DeactivateListener(DeactivateListener { address: self.listener_addr(k), proxy: k, to_scm: self.rng.chance(1, 8) }) }
            Verb::UpdateHttpListener => RequestType::UpdateHttpListener(self.gen_update_http()),
            Verb::UpdateHttpsListener => RequestType::UpdateHttpsListener(self.gen_update_https()),
            Verb::UpdateTcpListener => RequestType::UpdateTcpListener(self.gen_update_tcp()),
            Verb::UpdateUdpListener => RequestType::UpdateUdpListener(self.gen_update_udp()),
            Verb::AddHttpFrontend | Verb::AddHttpsFrontend => {
                let https = v == Verb::AddHttpsFrontend;
                let pool = if https { self.mem.https_fronts.clone() } else { self.mem.http_fronts.clone() };
                // sometimes re-add an earlier frontend (duplicate) or a variant that differs only in tags / policy
                let f = if !pool.is_empty() && self.rng.chance(1, 5) {
                    let mut f = self.rng.pick(&pool).clone();
                    match self.rng.below(3) { 0 => {} 1 => f.tags = self.tags(), _ => f.cluster_id = Some(self.cluster()) }
                    f
                } else { self.gen_http_front() };
                if https { self.mem.https_fronts.push(f.clone()); RequestType::AddHttpsFrontend(f) } else { self.mem.http_fronts.push(f.clone()); RequestType::AddHttpFrontend(f) }
            }
            Verb::RemoveHttpFrontend | Verb::RemoveHttpsFrontend => {
                let https = v == Verb::RemoveHttpsFrontend;
                let pool = if https { self.mem.https_fronts.clone() } else { self.mem.http_fronts.clone() };
                let f = if !pool.is_empty() && self.reuse() {
                    let mut f = self.rng.pick(&pool).clone();
                    // the removal may name the frontend with other non-key attributes
                    if self.rng.chance(1, 4) { f.tags = self.tags(); }
                    if self.rng.chance(1, 6) { f.cluster_id = None; }
                    f
                } else { self.gen_http_front() };
                if https { RequestType::RemoveHttpsFrontend(f) } else { RequestType::RemoveHttpFrontend(f) }
            }
            Verb::AddTcpFrontend => {
                let f = if !self.mem.tcp_fronts.is_empty() && self.rng.chance(1, 4) { let mut f = self.rng.pick(&self.mem.tcp_fronts).clone(); if self.rng.chance(2, 3) { f.tags = self.tags(); } f } else { self.gen_tcp_front() };
                self.mem.tcp_fronts.push(f.clone()); RequestType::AddTcpFrontend(f)
            }
            Verb::RemoveTcpFrontend => {
                let f = if !self.mem.tcp_fronts.is_empty() && self.reuse() { let mut f = self.rng.pick(&self.mem.tcp_fronts).clone(); if self.rng.chance(1, 4) { f.tags = self.tags(); } f } else { self.gen_tcp_front() };
                RequestType::RemoveTcpFrontend(f)
            }
            Verb::AddUdpFrontend => {
                let f = if !self.mem.udp_fronts.is_empty() && self.rng.chance(1, 4) { let mut f = self.rng.pick(&self.mem.udp_fronts).clone(); if self.rng.chance(2, 3) { f.tags = self.tags(); } f } else { self.gen_udp_front() };
                self.mem.udp_fronts.push(f.clone()); RequestType::AddUdpFrontend(f)
            }
            Verb::RemoveUdpFrontend => {
                let f = if !self.mem.udp_fronts.is_empty() && self.reuse() { let mut f = self.rng.pick(&self.mem.udp_fronts).clone(); if self.rng.chance(1, 4) { f.tags = self.tags(); } f } else { self.gen_udp_front() };
                RequestType::RemoveUdpFrontend(f)
            }
            Verb::AddBackend => {
                let b = if !self.mem.backends.is_empty() && self.rng.chance(1, 3) {
                    // same backend again with other parameters, or the same id at another address
                    let mut b = self.rng.pick(&self.mem.backends).clone();
                    match self.rng.below(3) { 0 => b.address = self.backend_addr(), 1 => b.load_balancing_parameters = Some(LoadBalancingParams { weight: self.rng.below(5) as i32 }), _ => b.sticky_id = Some("s9".into()) }
                    b
                } else { self.gen_backend() };
                self.mem.backends.push(b.clone()); RequestType::AddBackend(b)
            }
            Verb::RemoveBackend => {
                let r = if !self.mem.backends.is_empty() && self.reuse() {
                    let b = self.rng.pick(&self.mem.backends).clone();
                    let mut r = RemoveBackend { cluster_id: b.cluster_id, backend_id: b.backend_id, address: b.address };
                    if self.rng.chance(1, 6) { r.address = self.backend_addr(); }
                    r
                } else { RemoveBackend { cluster_id: self.cluster(), backend_id: self.rng.pick(&self.o.backend_ids).clone(), address: self.backend_addr() } };
                RequestType::RemoveBackend(r)
            }
            Verb::AddCertificate => {
                let address = self.cert_addr();
                let i = self.rng.below(self.o.n_certs as u64) as usize;
                let bad = if self.invalid() || (self.partial() && self.rng.chance(1, 2)) { self.bad_cert_kind() } else { 0 };
                let c = self.gen_cak(i, bad);
                if bad == 0 { self.mem.certs.push((address, i)); }
                RequestType::AddCertificate(AddCertificate { address, certificate: c, expired_at: if self.opt(1) { Some(*self.rng.pick(&[0i64, 1_900_000_000, -1])) } else { None } })
            }
            Verb::ReplaceCertificate => {
                let address = self.cert_addr();
                let old_fingerprint = self.fingerprint_arg(&address);
                let i = self.rng.below(self.o.n_certs as u64) as usize;
                let bad = if self.partial() || self.invalid() { self.bad_cert_kind() } else { 0 };
                let c = self.gen_cak(i, bad);
                if bad == 0 { self.mem.certs.push((address, i)); }
                RequestType::ReplaceCertificate(ReplaceCertificate { address, new_certificate: c, old_fingerprint, new_expired_at: if self.opt(1) { Some(1_900_000_000) } else { None } })
            }
            Verb::RemoveCertificate => { let address = self.cert_addr(); RequestType::RemoveCertificate(RemoveCertificate { address, fingerprint: self.fingerprint_arg(&address) }) }
            Verb::NonConfig => match self.rng.below(3) {
                0 => return Request { request_type: None },
                1 => RequestType::Status(Status {}),
                _ => RequestType::SaveState("/nonexistent/state.json".into()),
            },
        };
        t.into()
    }

    fn pick_verb(&mut self) -> Verb {
        let total: u64 = self.o.weights.values().map(|w| *w as u64).sum();
        let mut x = self.rng.below(total.max(1));
        for (v, w) in &self.o.weights {
            if x < *w as u64 { return *v; }
            x -= *w as u64;
        }
        Verb::AddCluster
    }
}

/// A seeded history of `len` requests. With `opts.symbolic_certs` the PEM fields are symbolic (apply
/// `materialize` before use); otherwise they carry the real text.
pub fn gen_history(rng: &mut Prng, len: usize, opts: &GenOpts) -> Vec<Request> {
    gen_history_mem(rng, len, opts, Mem::default()).0
}

/// Same, continuing from (and returning) the generator memory, so that a second history can aim at the
/// objects of a first one.
pub fn gen_history_mem(rng: &mut Prng, len: usize, opts: &GenOpts, mem: Mem) -> (Vec<Request>, Mem) {
    let mut g = G { rng, o: opts, mem };
    let mut out = Vec::with_capacity(len);
    for _ in 0..len {
        let v = g.pick_verb();
        out.push(g.make(v));
    }
    (out, g.mem)
}

/// One request of a given verb (for targeted mutations).
pub fn gen_one(rng: &mut Prng, verb: Verb, opts: &GenOpts, mem: &mut Mem) -> Request {
    let mut g = G { rng, o: opts, mem: std::mem::take(mem) };
    let r = g.make(verb);
    *mem = g.mem;
    r
}

/// A *near* mutation: one or two requests that change one aspect of something emitted earlier — a listener's
/// activation or one field, a frontend's tags, a backend id at a second address, a certificate set.
pub fn gen_near_mutation(rng: &mut Prng, opts: &GenOpts, mem: &mut Mem) -> Vec<Request> {
    let mut g = G { rng, o: opts, mem: std::mem::take(mem) };
    let mut out: Vec<Request> = Vec::new();
    for _attempt in 0..8 {
        match g.rng.below(10) {
            0 if !g.mem.listeners.is_empty() => {
                let (k, a) = *g.rng.pick(&g.mem.listeners);
                out.push(if g.rng.chance(1, 2) { RequestType::ActivateListener(ActivateListener { address: a, proxy: k, from_scm: false }).into() } else { RequestType::DeactivateListener(DeactivateListener { address: a, proxy: k, to_scm: false }).into() });
            }
            1 if !g.mem.listeners.is_empty() => {
                let (k, a) = *g.rng.pick(&g.mem.listeners);
                let t = g.timeout();
                out.push(match k {
                    0 => RequestType::UpdateHttpListener(UpdateHttpListenerConfig { address: a, front_timeout: Some(t), ..Default::default() }).into(),
                    1 => RequestType::UpdateHttpsListener(UpdateHttpsListenerConfig { address: a, disable_http11: Some(t % 2 == 0), ..Default::default() }).into(),
                    2 => RequestType::UpdateTcpListener(UpdateTcpListenerConfig { address: a, back_timeout: Some(t), ..Default::default() }).into(),
                    _ => RequestType::UpdateUdpListener(UpdateUdpListenerConfig { address: a, max_flows: Some(t), ..Default::default() }).into(),
                });
            }
            2 if !g.mem.http_fronts.is_empty() || !g.mem.https_fronts.is_empty() => {
                let https = g.mem.http_fronts.is_empty() || (!g.mem.https_fronts.is_empty() && g.rng.chance(1, 2));
                let f = if https { g.rng.pick(&g.mem.https_fronts).clone() } else { g.rng.pick(&g.mem.http_fronts).clone() };
                let mut f2 = f.clone();
                match g.rng.below(3) { 0 => { f2.tags.insert("near".into(), "1".into()); } 1 => f2.required_auth = Some(f.required_auth != Some(true)), _ => f2.cluster_id = Some(g.cluster()) }
                if https { out.push(RequestType::RemoveHttpsFrontend(f).into()); g.mem.https_fronts.push(f2.clone()); out.push(RequestType::AddHttpsFrontend(f2).into()); }
                else { out.push(RequestType::RemoveHttpFrontend(f).into()); g.mem.http_fronts.push(f2.clone()); out.push(RequestType::AddHttpFrontend(f2).into()); }
            }
            3 if !g.mem.tcp_fronts.is_empty() => {
                let f = g.rng.pick(&g.mem.tcp_fronts).clone();
                let mut f2 = f.clone(); f2.tags.insert("near".into(), g.rng.pick(&["1", "2"]).to_string());
                if g.rng.chance(1, 2) { out.push(RequestType::RemoveTcpFrontend(f).into()); }
                g.mem.tcp_fronts.push(f2.clone()); out.push(RequestType::AddTcpFrontend(f2).into());
            }
            4 if !g.mem.udp_fronts.is_empty() => {
                let f = g.rng.pick(&g.mem.udp_fronts).clone();
                let mut f2 = f.clone(); f2.tags.insert("near".into(), g.rng.pick(&["1", "2"]).to_string());
                if g.rng.chance(1, 2) { out.push(RequestType::RemoveUdpFrontend(f).into()); }
                g.mem.udp_fronts.push(f2.clone()); out.push(RequestType::AddUdpFrontend(f2).into());
            }
            5 | 6 if !g.mem.backends.is_empty() => {
                let b = g.rng.pick(&g.mem.backends).clone();
                match g.rng.below(4) {
                    0 => { let mut b2 = b.clone(); b2.address = g.backend_addr(); g.mem.backends.push(b2.clone()); out.push(RequestType::AddBackend(b2).into()); }
                    1 => { let mut b2 = b.clone(); b2.load_balancing_parameters = Some(LoadBalancingParams { weight: 1 + g.rng.below(9) as i32 }); out.push(RequestType::AddBackend(b2).into()); }
                    2 => { let mut b2 = b.clone(); b2.backup = Some(b.backup != Some(true)); out.push(RequestType::AddBackend(b2).into()); }
                    _ => out.push(RequestType::RemoveBackend(RemoveBackend { cluster_id: b.cluster_id, backend_id: b.backend_id, address: b.address }).into()),
                }
            }
            7 | 8 if !g.mem.certs.is_empty() => {
                let (a, i) = *g.rng.pick(&g.mem.certs);
                match g.rng.below(4) {
                    0 => { let j = g.rng.below(g.o.n_certs as u64) as usize; let c = g.gen_cak(j, 0); g.mem.certs.push((a, j)); out.push(RequestType::AddCertificate(AddCertificate { address: a, certificate: c, expired_at: None }).into()); }
                    1 => out.push(RequestType::RemoveCertificate(RemoveCertificate { address: a, fingerprint: corpus_fingerprint(i) }).into()),
                    2 => {
                        // the same certificate again with other names / versions
                        let mut c = g.gen_cak(i, 0);
                        c.names = vec![g.rng.pick(&["near.test", "other.test"]).to_string()];
                        out.push(RequestType::RemoveCertificate(RemoveCertificate { address: a, fingerprint: corpus_fingerprint(i) }).into());
                        out.push(RequestType::AddCertificate(AddCertificate { address: a, certificate: c, expired_at: None }).into());
                    }
                    _ => { let j = g.rng.below(g.o.n_certs as u64) as usize; let c = g.gen_cak(j, 0); g.mem.certs.push((a, j)); out.push(RequestType::ReplaceCertificate(ReplaceCertificate { address: a, new_certificate: c, old_fingerprint: corpus_fingerprint(i), new_expired_at: None }).into()); }
                }
            }
            9 => {
                let mut c = g.gen_cluster();
                c.cluster_id = g.rng.pick(&g.o.clusters).clone();
                out.push(if g.rng.chance(1, 4) { RequestType::RemoveHealthCheck(c.cluster_id).into() } else if g.rng.chance(1, 3) { let h = g.health(false); RequestType::SetHealthCheck(SetHealthCheck { cluster_id: c.cluster_id, config: h }).into() } else { RequestType::AddCluster(c).into() });
            }
            _ => {}
        }
        if !out.is_empty() { break; }
    }
    if out.is_empty() { let v = g.pick_verb(); out.push(g.make(v)); }
    *mem = g.mem;
    out
}

// ------------------------------------------------------------------------------ state comparison

#[derive(Clone, Debug, PartialEq, Eq, PartialOrd, Ord)]
pub enum DeltaKind { Added, Removed, Changed, BucketAdded, BucketRemoved }

/// One difference between two configurations: `map` names the ConfigState field, `bucket` the outer key
/// for two-level maps, `item` the object, `fields` (for `Changed`) the differing top-level fields.
#[derive(Clone, Debug)]
pub struct Delta {
    pub map: &'static str,
    pub bucket: String,
    pub item: String,
    pub kind: DeltaKind,
    pub fields: Vec<String>,
}
impl Delta {
    fn kind_name(&self) -> &'static str {
        match self.kind { DeltaKind::Added => "added", DeltaKind::Removed => "removed", DeltaKind::Changed => "changed", DeltaKind::BucketAdded => "empty_bucket_added", DeltaKind::BucketRemoved => "empty_bucket_removed" }
    }
    /// coarse signature: map and kind of difference
    pub fn sig(&self) -> String { format!("{}:{}", self.map, self.kind_name()) }
    /// fine signature: with the names of the differing fields
    pub fn sig_fields(&self) -> String {
        if self.fields.is_empty() { self.sig() } else { format!("{}:{}[{}]", self.map, self.kind_name(), self.fields.join(",")) }
    }
    pub fn describe(&self) -> String { format!("{} bucket={:?} item={:?}", self.sig_fields(), self.bucket, self.item) }
}

/// Signature of a set of deltas (sorted, deduplicated) — used as violation key material.
pub fn delta_sig(d: &[Delta]) -> String {
    let s: BTreeSet<String> = d.iter().map(|x| x.sig()).collect();
    s.into_iter().collect::<Vec<_>>().join(";")
}
pub fn delta_sig_fields(d: &[Delta]) -> String {
    let s: BTreeSet<String> = d.iter().map(|x| x.sig_fields()).collect();
    s.into_iter().collect::<Vec<_>>().join(";")
}

fn changed_fields<T: serde::Serialize>(a: &T, b: &T) -> Vec<String> {
    let (va, vb) = (serde_json::to_value(a).unwrap_or_default(), serde_json::to_value(b).unwrap_or_default());
    let mut out = Vec::new();
    if let (Some(ma), Some(mb)) = (va.as_object(), vb.as_object()) {
        let keys: BTreeSet<&String> = ma.keys().chain(mb.keys()).collect();
        for k in keys { if ma.get(k) != mb.get(k) { out.push(k.clone()); } }
    }
    out
}

fn diff_flat<K: Ord + std::fmt::Display, V: PartialEq + serde::Serialize>(map: &'static str, bucket: &str, a: &BTreeMap<&K, &V>, b: &BTreeMap<&K, &V>, out: &mut Vec<Delta>) {
    for (k, va) in a {
        match b.get(k) {
            None => out.push(Delta { map, bucket: bucket.into(), item: k.to_string(), kind: DeltaKind::Removed, fields: vec![] }),
            Some(vb) => if va != vb { out.push(Delta { map, bucket: bucket.into(), item: k.to_string(), kind: DeltaKind::Changed, fields: changed_fields(*va, *vb) }); }
        }
    }
    for k in b.keys() { if !a.contains_key(k) { out.push(Delta { map, bucket: bucket.into(), item: k.to_string(), kind: DeltaKind::Added, fields: vec![] }); } }
}

/// multiset difference of two bucket vectors (order inside a bucket is not configuration). Items are
/// compared by their `Debug` rendering so that the comparison does not lean on sozu's own `Ord` impls.
fn diff_bucket_vec<T: PartialEq + std::fmt::Debug>(map: &'static str, bucket: &str, a: &[T], b: &[T], name: impl Fn(&T) -> String, out: &mut Vec<Delta>) {
    if a == b { return; }
    let mut sa: Vec<(String, &T)> = a.iter().map(|x| (format!("{x:?}"), x)).collect(); sa.sort_by(|x, y| x.0.cmp(&y.0));
    let mut sb: Vec<(String, &T)> = b.iter().map(|x| (format!("{x:?}"), x)).collect(); sb.sort_by(|x, y| x.0.cmp(&y.0));
    let (mut i, mut j) = (0, 0);
    while i < sa.len() || j < sb.len() {
        if j >= sb.len() || (i < sa.len() && sa[i].0 < sb[j].0) { out.push(Delta { map, bucket: bucket.into(), item: name(sa[i].1), kind: DeltaKind::Removed, fields: vec![] }); i += 1; }
        else if i >= sa.len() || sb[j].0 < sa[i].0 { out.push(Delta { map, bucket: bucket.into(), item: name(sb[j].1), kind: DeltaKind::Added, fields: vec![] }); j += 1; }
        else { i += 1; j += 1; }
    }
}

fn diff_buckets<T: PartialEq + std::fmt::Debug>(map: &'static str, a: &BTreeMap<String, &Vec<T>>, b: &BTreeMap<String, &Vec<T>>, strict: bool, name: impl Fn(&T) -> String + Copy, out: &mut Vec<Delta>) {
    let empty: Vec<T> = Vec::new();
    let keys: BTreeSet<&String> = a.keys().chain(b.keys()).collect();
    for k in keys {
        let (ba, bb) = (a.get(k), b.get(k));
        if strict {
            if ba.is_none() && bb.is_some_and(|v| v.is_empty()) { out.push(Delta { map, bucket: k.clone(), item: String::new(), kind: DeltaKind::BucketAdded, fields: vec![] }); }
            if bb.is_none() && ba.is_some_and(|v| v.is_empty()) { out.push(Delta { map, bucket: k.clone(), item: String::new(), kind: DeltaKind::BucketRemoved, fields: vec![] }); }
        }
        diff_bucket_vec(map, k, ba.map(|v| v.as_slice()).unwrap_or(&empty), bb.map(|v| v.as_slice()).unwrap_or(&empty), name, out);
    }
}

/// Structural difference of two configurations over every map except `request_counts` (a census, not
/// configuration). `strict`: an empty bucket differs from an absent one; otherwise empty buckets are
/// normalised away. Order inside `Vec` buckets is ignored (multiset comparison).
pub fn state_delta(a: &ConfigState, b: &ConfigState, strict: bool) -> Vec<Delta> {
    let mut out = Vec::new();
    macro_rules! flat { ($name:literal, $f:ident) => {{
        let ma: BTreeMap<_, _> = a.$f.iter().collect(); let mb: BTreeMap<_, _> = b.$f.iter().collect();
        diff_flat($name, "", &ma, &mb, &mut out);
    }}; }
    flat!("clusters", clusters);
    flat!("http_listeners", http_listeners);
    flat!("https_listeners", https_listeners);
    flat!("tcp_listeners", tcp_listeners);
    flat!("udp_listeners", udp_listeners);
    flat!("http_fronts", http_fronts);
    flat!("https_fronts", https_fronts);
    {
        let ma: BTreeMap<String, &Vec<Backend>> = a.backends.iter().map(|(k, v)| (k.clone(), v)).collect();
        let mb: BTreeMap<String, &Vec<Backend>> = b.backends.iter().map(|(k, v)| (k.clone(), v)).collect();
        diff_buckets("backends", &ma, &mb, strict, |x: &Backend| format!("{}@{}", x.backend_id, x.address), &mut out);
    }
    {
        let ma: BTreeMap<String, &Vec<TcpFrontend>> = a.tcp_fronts.iter().map(|(k, v)| (k.clone(), v)).collect();
        let mb: BTreeMap<String, &Vec<TcpFrontend>> = b.tcp_fronts.iter().map(|(k, v)| (k.clone(), v)).collect();
        diff_buckets("tcp_fronts", &ma, &mb, strict, |x: &TcpFrontend| format!("{} {:?}", x.address, x.tags), &mut out);
    }
    {
        let ma: BTreeMap<String, &Vec<UdpFrontend>> = a.udp_fronts.iter().map(|(k, v)| (k.clone(), v)).collect();
        let mb: BTreeMap<String, &Vec<UdpFrontend>> = b.udp_fronts.iter().map(|(k, v)| (k.clone(), v)).collect();
        diff_buckets("udp_fronts", &ma, &mb, strict, |x: &UdpFrontend| format!("{} {:?}", x.address, x.tags), &mut out);
    }
    {
        let ma: BTreeMap<SocketAddr, _> = a.certificates.iter().map(|(k, v)| (*k, v)).collect();
        let mb: BTreeMap<SocketAddr, _> = b.certificates.iter().map(|(k, v)| (*k, v)).collect();
        let keys: BTreeSet<&SocketAddr> = ma.keys().chain(mb.keys()).collect();
        let none: std::collections::HashMap<Fingerprint, CertificateAndKey> = Default::default();
        for k in keys {
            let (ba, bb) = (ma.get(k), mb.get(k));
            if strict {
                if ba.is_none() && bb.is_some_and(|v| v.is_empty()) { out.push(Delta { map: "certificates", bucket: k.to_string(), item: String::new(), kind: DeltaKind::BucketAdded, fields: vec![] }); }
                if bb.is_none() && ba.is_some_and(|v| v.is_empty()) { out.push(Delta { map: "certificates", bucket: k.to_string(), item: String::new(), kind: DeltaKind::BucketRemoved, fields: vec![] }); }
            }
            let fa: BTreeMap<&Fingerprint, &CertificateAndKey> = ba.copied().unwrap_or(&none).iter().collect();
            let fb: BTreeMap<&Fingerprint, &CertificateAndKey> = bb.copied().unwrap_or(&none).iter().collect();
            diff_flat("certificates", &k.to_string(), &fa, &fb, &mut out);
        }
    }
    out
}

/// Plan-side features of a pair of configurations that are known to matter for difference computation
/// (read from the public maps; no sozu logic involved).
pub fn pair_features(a: &ConfigState, b: &ConfigState) -> BTreeSet<&'static str> {
    let mut f = BTreeSet::new();
    for s in [a, b] {
        for v in s.backends.values() {
            let ids: BTreeSet<&String> = v.iter().map(|x| &x.backend_id).collect();
            if ids.len() < v.len() { f.insert("dup_backend_id"); }
        }
        for v in s.tcp_fronts.values() {
            let ids: BTreeSet<SocketAddr> = v.iter().map(|x| x.address).collect();
            if ids.len() < v.len() { f.insert("tcp_fronts_sharing_address"); }
        }
        for v in s.udp_fronts.values() {
            let ids: BTreeSet<SocketAddr> = v.iter().map(|x| x.address).collect();
            if ids.len() < v.len() { f.insert("udp_fronts_sharing_address"); }
        }
    }
    for s in [a, b] {
        if s.certificates.values().any(|m| m.values().any(|c| c.names.is_empty())) { f.insert("certificate_without_names"); }
    }
    let ca: BTreeMap<SocketAddr, _> = a.certificates.iter().map(|(k, v)| (*k, v)).collect();
    for (addr, certs) in ca {
        if let Some(other) = b.certificates.get(&addr) {
            let m: BTreeMap<&Fingerprint, &CertificateAndKey> = certs.iter().collect();
            for (fp, c) in m { if other.get(fp).is_some_and(|o| o != c) { f.insert("same_fingerprint_other_attributes"); } }
        }
    }
    f
}

/// Apply a history to an empty configuration; returns the state and the per-request acceptance.
pub fn apply_history(ops: &[Request]) -> (ConfigState, Vec<bool>) {
    let mut s = ConfigState::new();
    let acc = ops.iter().map(|r| s.dispatch(r).is_ok()).collect();
    (s, acc)
}

pub fn count_objects(s: &ConfigState) -> usize {
    s.clusters.len() + s.http_listeners.len() + s.https_listeners.len() + s.tcp_listeners.len() + s.udp_listeners.len() + s.http_fronts.len() + s.https_fronts.len()
        + s.backends.values().map(|v| v.len()).sum::<usize>() + s.tcp_fronts.values().map(|v| v.len()).sum::<usize>() + s.udp_fronts.values().map(|v| v.len()).sum::<usize>()
        + s.certificates.values().map(|v| v.len()).sum::<usize>()
}

/// Deterministic content hash of a configuration (for trace hashes): independent of map iteration order.
pub fn state_hash(s: &ConfigState, h: &mut crate::prng::TraceHash) {
    use std::hash::{Hash, Hasher};
    let mut d = std::collections::hash_map::DefaultHasher::new();
    s.clusters.hash(&mut d); s.backends.hash(&mut d); s.http_listeners.hash(&mut d); s.https_listeners.hash(&mut d); s.tcp_listeners.hash(&mut d); s.udp_listeners.hash(&mut d);
    s.http_fronts.hash(&mut d); s.https_fronts.hash(&mut d);
    let t: BTreeMap<&String, &Vec<TcpFrontend>> = s.tcp_fronts.iter().collect(); t.hash(&mut d);
    let u: BTreeMap<&String, &Vec<UdpFrontend>> = s.udp_fronts.iter().collect(); u.hash(&mut d);
    let c: BTreeMap<&SocketAddr, BTreeMap<&Fingerprint, &CertificateAndKey>> = s.certificates.iter().map(|(k, v)| (k, v.iter().collect())).collect();
    c.hash(&mut d);
    h.mix(d.finish());
}

// ------------------------------------------------------------------------------- plan utilities

/// Short human-readable form of a history.
pub fn summarize_ops(ops: &[Request]) -> String {
    let mut s = String::new();
    for (i, r) in ops.iter().enumerate() {
        if i > 0 { s.push(' '); }
        s.push_str(verb_name(r));
        if i >= 40 { s.push_str(" …"); break; }
    }
    s
}

pub fn ops_to_value(ops: &[Request]) -> serde_json::Value { serde_json::to_value(ops).unwrap() }
pub fn ops_from_value(v: &serde_json::Value) -> Result<Vec<Request>, String> {
    let mut ops: Vec<Request> = serde_json::from_value(v.clone()).map_err(|e| e.to_string())?;
    for r in ops.iter_mut() { materialize(r); }
    Ok(ops)
}

/// Generic shrink candidates for a JSON array of requests: drop halves, drop single requests, then null /
/// empty optional members of one request.
pub fn shrink_ops(ops: &serde_json::Value) -> Vec<serde_json::Value> {
    let Some(a) = ops.as_array() else { return vec![] };
    let mut out = Vec::new();
    let n = a.len();
    if n >= 4 {
        out.push(serde_json::Value::Array(a[n / 2..].to_vec()));
        out.push(serde_json::Value::Array(a[..n / 2].to_vec()));
    }
    for i in 0..n { let mut b = a.clone(); b.remove(i); out.push(serde_json::Value::Array(b)); }
    // simplify one argument: set one optional (non-null) member to null, or empty one array / map
    for i in 0..n {
        let mut paths: Vec<Vec<String>> = Vec::new();
        collect_paths(&a[i], &mut Vec::new(), 0, &mut paths);
        for p in paths.into_iter().take(80) {
            let mut b = a.clone();
            if let Some(slot) = get_path_mut(&mut b[i], &p) {
                let simpler = match slot { serde_json::Value::Array(x) if !x.is_empty() => serde_json::Value::Array(vec![]), serde_json::Value::Object(x) if !x.is_empty() && p.len() > 2 => { let _ = x; serde_json::Value::Null }, serde_json::Value::Null => continue, serde_json::Value::Array(_) => continue, _ => serde_json::Value::Null };
                *slot = simpler;
                out.push(serde_json::Value::Array(b));
            }
        }
    }
    out
}
fn collect_paths(v: &serde_json::Value, cur: &mut Vec<String>, depth: usize, out: &mut Vec<Vec<String>>) {
    if depth > 5 { return; }
    if let Some(m) = v.as_object() {
        for (k, x) in m {
            cur.push(k.clone());
            // depth 0 = "request_type", depth 1 = the verb; members start at depth 2
            if depth >= 2 && !x.is_null() { out.push(cur.clone()); }
            collect_paths(x, cur, depth + 1, out);
            cur.pop();
        }
    }
}
fn get_path_mut<'a>(v: &'a mut serde_json::Value, p: &[String]) -> Option<&'a mut serde_json::Value> {
    let mut cur = v;
    for k in p { cur = cur.as_object_mut()?.get_mut(k)?; }
    Some(cur)
}

pub fn front_key_parts(f: &HttpFrontend) -> (SocketAddr, &str, &PathRule, &Option<String>) { (f.address, &f.hostname, &f.path, &f.method) }
