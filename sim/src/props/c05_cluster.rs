//! C05 cluster tier (`cluster_bootstrap`) — the bootstrap path end to end: a configuration that reached a
//! real worker command by command must look the same in a *successor* worker that received it as the state
//! blob the main process writes for a new worker (`write_initial_state_to_file` -> state file ->
//! `read_initial_state_from_file` in `begin_worker_process`).
//!
//! The real main process and a real worker run in one simulation (clustersim.rs). A scripted CLI client
//! sends a seeded, well-formed command history through the hub, asks the workers for their view
//! (`QueryClusterById` for every cluster id of the alphabet,
//! `QueryCertificatesFromWorkers`), sends `UpgradeWorker(0)` - the main process forks a successor that
//! boots from the state file - and asks again. Oracle (metamorphic): when the main process reported OK for
//! every command, the successor's answers equal the predecessor's (order inside lists ignored); the
//! main process's own `ListFrontends` / `ListListeners` / `QueryCertificatesFromTheState` are unchanged by the
//! upgrade. Both workers draw their own hash keys from the seeded entropy stream, so a dependence on
//! hash order shows as a replayable difference.
#![allow(dead_code)]
use std::sync::{Arc, Mutex};

use serde_json::{json, Value};
use sozu_command_lib::config::ListenerBuilder;
use sozu_command_lib::proto::command::{
    request::RequestType, FrontendFilters, HardStop, ListListeners, QueryCertificatesFilters, Request, ResponseStatus,
};

use super::cfggen::{self, GenOpts, Verb};
use super::cluster_cli::{canon, per_worker, CliRecord, CliStep, ScriptCli};
use crate::actors::Quantum;
use crate::clustersim::{self, ClusterKnobs};
use crate::framework::*;
use crate::netsim;
use crate::prng::Prng;
use crate::world::{World, SEC};

pub fn generate(seed: u64, tier: Tier) -> Value {
    let mut rng = Prng::derive(seed, "c05/cluster");
    let mut o = GenOpts::swarm(&mut rng).valid_only();
    o.symbolic_certs = true;
    // keep answer templates small: the point here is the path, big records are the model tier's business
    o.big_text_pm = 0;
    // optional fields carry the answer templates a worker validates and the main state does not: keep them rare in most plans
    if rng.below(3) != 0 { o.opt_pm = 40; }
    let max = match tier { Tier::Quick => 30, Tier::Thorough => 80 };
    let len = *rng.pick(&[4usize, 8, 16, max]);
    let fam = match rng.below(4) {
        0 => { for v in [Verb::AddCertificate, Verb::ReplaceCertificate, Verb::RemoveCertificate, Verb::AddHttpsListener] { o.weights.insert(v, 20); } "cluster_bootstrap_certs" }
        1 => { for v in [Verb::AddBackend, Verb::RemoveBackend, Verb::AddCluster] { o.weights.insert(v, 20); } "cluster_bootstrap_backends" }
        _ => "cluster_bootstrap",
    };
    // Well-founded histories: every address of the alphabet hosts exactly one kind of listener, created first; every
    // later command that names an address draws it from the alphabet of its own kind. (A frontend for a listener a
    // worker does not have is accepted by the main state and refused by the worker: that divergence belongs to C08,
    // and a plan that contains one cannot be judged here.)
    let mut addrs = o.addrs.clone();
    rng.shuffle(&mut addrs);
    let mut by_kind: [Vec<std::net::SocketAddr>; 3] = [vec![], vec![], vec![]];
    for (i, a) in addrs.iter().enumerate() { by_kind[if i == 0 { 0 } else { rng.below(3) as usize }].push(*a); }
    o.weights.insert(Verb::AddUdpListener, 0); o.weights.insert(Verb::UpdateUdpListener, 0); o.weights.insert(Verb::AddUdpFrontend, 0); o.weights.insert(Verb::RemoveUdpFrontend, 0);
    let kind_of = |v: Verb| -> Option<usize> {
        match v {
            Verb::AddHttpListener | Verb::UpdateHttpListener | Verb::AddHttpFrontend | Verb::RemoveHttpFrontend => Some(0),
            Verb::AddHttpsListener | Verb::UpdateHttpsListener | Verb::AddHttpsFrontend | Verb::RemoveHttpsFrontend | Verb::AddCertificate | Verb::ReplaceCertificate | Verb::RemoveCertificate => Some(1),
            Verb::AddTcpListener | Verb::UpdateTcpListener | Verb::AddTcpFrontend | Verb::RemoveTcpFrontend => Some(2),
            _ => None,
        }
    };
    let mut mem = cfggen::Mem::default();
    let mut ops: Vec<Request> = Vec::new();
    // the listeners themselves are plain (ListenerBuilder defaults): cfggen's listener records carry answer templates
    // and cipher lists that the main state stores unvalidated and a worker refuses
    for a in &by_kind[0] { ops.push(RequestType::AddHttpListener(ListenerBuilder::new_http((*a).into()).to_http(None).unwrap()).into()); mem.listeners.push((0, (*a).into())); }
    for a in &by_kind[1] { ops.push(RequestType::AddHttpsListener(ListenerBuilder::new_https((*a).into()).to_tls(None).unwrap()).into()); mem.listeners.push((1, (*a).into())); }
    for a in &by_kind[2] { ops.push(RequestType::AddTcpListener(ListenerBuilder::new_tcp((*a).into()).to_tcp(None).unwrap()).into()); mem.listeners.push((2, (*a).into())); }
    for c in o.clusters.clone() { if !c.is_empty() && rng.chance(2, 3) { let mut oo = o.clone(); oo.clusters = vec![c]; ops.push(cfggen::gen_one(&mut rng, Verb::AddCluster, &oo, &mut mem)); } }
    let verbs: Vec<(Verb, u32)> = o.weights.iter().filter(|(v, w)| **w > 0 && !matches!(v, Verb::AddHttpListener | Verb::AddHttpsListener | Verb::AddTcpListener | Verb::RemoveListener | Verb::NonConfig)).map(|(v, w)| (*v, *w)).collect();
    let total: u64 = verbs.iter().map(|x| x.1 as u64).sum();
    for _ in 0..len {
        if total == 0 { break; }
        let mut t = rng.below(total);
        let mut verb = verbs[0].0;
        for (v, w) in &verbs { if t < *w as u64 { verb = *v; break; } t -= *w as u64; }
        let mut oo = o.clone();
        if let Some(k) = kind_of(verb) { if by_kind[k].is_empty() { continue; } oo.addrs = by_kind[k].clone(); }
        ops.push(cfggen::gen_one(&mut rng, verb, &oo, &mut mem));
    }
    let sched = netsim::default_sched(&mut rng, false);
    json!({"seed": seed, "family": fam, "clusters": o.clusters, "sched": serde_json::to_value(&sched).unwrap(), "frag": rng.below(3), "ops": cfggen::ops_to_value(&ops)})
}

fn queries(clusters: &[String]) -> Vec<(String, Request)> {
    // QueryClustersHashes is deliberately not compared: hash_state() hashes an empty backend bucket differently from a
    // missing one, which is not a difference in configuration (a worker that saw AddBackend + RemoveBackend and a
    // successor that never saw the backend hold the same configuration and report different hashes)
    let mut q: Vec<(String, Request)> = vec![];
    for c in clusters { if !c.is_empty() { q.push((format!("cluster:{c}"), RequestType::QueryClusterById(c.clone()).into())); } }
    q.push(("certs".into(), RequestType::QueryCertificatesFromWorkers(QueryCertificatesFilters::default()).into()));
    q.push(("main:frontends".into(), RequestType::ListFrontends(FrontendFilters { http: true, https: true, tcp: true, domain: None }).into()));
    q.push(("main:listeners".into(), RequestType::ListListeners(ListListeners {}).into()));
    q.push(("main:certs".into(), RequestType::QueryCertificatesFromTheState(QueryCertificatesFilters::default()).into()));
    q
}

pub fn run(plan: &Value, log: bool) -> (RunReport, String) {
    let plan = plan.clone();
    netsim::on_fresh_thread(move || {
        let seed = plan["seed"].as_u64().unwrap_or(0);
        let family = plan["family"].as_str().unwrap_or("cluster_bootstrap").to_string();
        let mut rep = RunReport { seed, family: family.clone(), ..Default::default() };
        let mut ops = match cfggen::ops_from_value(&plan["ops"]) { Ok(o) => o, Err(e) => { rep.harness_error = Some(format!("bad plan: {e}")); return (rep, String::new()); } };
        for r in ops.iter_mut() { cfggen::materialize(r); }
        let clusters: Vec<String> = serde_json::from_value(plan["clusters"].clone()).unwrap_or_default();
        let sched = serde_json::from_value(plan["sched"].clone()).unwrap_or_default();
        let mut w = World::new(seed, sched);
        w.log_on = log;
        let knobs = ClusterKnobs::default();
        let rec = Arc::new(Mutex::new(CliRecord::default()));
        let qs = queries(&clusters);
        let n_ops = ops.len();
        let mut steps: Vec<CliStep> = ops.iter().enumerate().map(|(i, r)| CliStep::new(&format!("op{i}:{}", cfggen::verb_name(r)), r.clone())).collect();
        for (l, q) in &qs { steps.push(CliStep::new(&format!("pre:{l}"), q.clone())); }
        let mut up = CliStep::new("upgrade", RequestType::UpgradeWorker(0).into());
        up.patience_ns = 200 * SEC;
        steps.push(up);
        for (l, q) in &qs { steps.push(CliStep::new(&format!("post:{l}"), q.clone())); }
        steps.push(CliStep::new("stop", RequestType::HardStop(HardStop {}).into()));
        let labels: Vec<String> = steps.iter().map(|s| s.label.clone()).collect();
        let wq = match plan["frag"].as_u64().unwrap_or(0) { 0 => Quantum::All, 1 => Quantum::Uniform(1, 64), _ => Quantum::Uniform(1, 4096) };
        let end = {
            let rec2 = rec.clone();
            clustersim::run_cluster(&mut w, &knobs, move |w, env| {
                let cli = ScriptCli::new(&env.sock_name, env.force, steps, rec2, Prng::derive(seed, "cli"), wq, 900 * SEC);
                w.add_actor(Box::new(cli));
            })
        };
        World::install(&mut w);
        let r = rec.lock().unwrap().clone();
        let mut v = Vec::new();
        if let Some(e) = &end.boot_error { rep.harness_error = Some(format!("cluster boot failed: {e}")); }
        if let Some(e) = r.connect_error { rep.harness_error = Some(format!("CLI could not connect: errno {e}")); }
        if let Some(pn) = &end.hub_panicked { v.push(Violation::new("panic", "main_process", pn.clone())); }
        for wk in &end.workers {
            if let Some(pn) = &wk.panicked { v.push(Violation::new("panic", if wk.worker_index == 0 { "worker" } else { "successor" }, pn.chars().take(200).collect::<String>())); }
            if let Some(e) = &wk.error { v.push(Violation::new("replay_rejected", if wk.worker_index == 0 { "worker_boot_failed" } else { "successor_boot_failed" }, e.clone())); }
        }
        if let Some(a) = &w.aborted { rep.harness_error.get_or_insert(format!("run aborted: {a} at step {}", labels.get(r.cur).cloned().unwrap_or_default())); }
        if r.forced && w.aborted.is_none() { v.push(Violation::new("no_final_answer", format!("step={}", labels.get(r.cur).map(|l| l.split(':').next().unwrap_or("")).unwrap_or("")), format!("the main process stopped answering at step {:?}", labels.get(r.cur)))); }
        let idx = |label: &str| labels.iter().position(|l| l == label);
        // A command the main process's own state refuses is never scattered and leaves no trace anywhere: harmless here.
        // Only a command the main process accepted while a worker refused it makes the two workers' histories differ
        // legitimately (the successor boots from the main process's state). Which commands the main state accepts is
        // read off a ConfigState of the harness (classification of plans only, never an expected value).
        let has_replace = ops.iter().any(|r| matches!(r.request_type, Some(RequestType::ReplaceCertificate(_))));
        // plan-level trigger of C05-E1: the history gives a certificate an `expired_at` override (the saved state has no place for it)
        let has_expiry_override = ops.iter().any(|r| match &r.request_type { Some(RequestType::AddCertificate(a)) => a.expired_at.is_some(), Some(RequestType::ReplaceCertificate(x)) => x.new_expired_at.is_some(), _ => false });
        let accepted_by_state = cfggen::apply_history(&ops).1;
        let all_ok = (0..n_ops).all(|i| !accepted_by_state[i] || r.steps.get(i).map(|s| s.ok()).unwrap_or(false));
        let failed_ops = (0..n_ops).filter(|i| accepted_by_state[*i] && !r.steps.get(*i).map(|s| s.ok()).unwrap_or(false)).count();
        rep.probes.insert("ops_refused_by_main_state".into(), accepted_by_state.iter().filter(|a| !**a).count() as u64);
        let up_obs = idx("upgrade").and_then(|i| r.steps.get(i).cloned()).unwrap_or_default();
        let upgraded = up_obs.ok();
        if rep.harness_error.is_none() && !r.forced {
            if up_obs.t_send > 0 && !upgraded { v.push(Violation::new("replay_rejected", "upgrade_refused", format!("UpgradeWorker did not succeed: {:?}", up_obs.answers.last().map(|a| (a.1.status, a.1.message.chars().take(200).collect::<String>()))))); }
            if upgraded {
                for (l, _) in &qs {
                    let (Some(a), Some(b)) = (idx(&format!("pre:{l}")).map(|i| &r.steps[i]), idx(&format!("post:{l}")).map(|i| &r.steps[i])) else { continue };
                    let kind = l.split(':').next().unwrap_or("").to_string();
                    if l.starts_with("main:") {
                        // the main process's own view must not move because a worker was replaced
                        if a.ok() && b.ok() && canon(&a.content()) != canon(&b.content()) {
                            v.push(Violation::new("roundtrip_mismatch", format!("main_view_changed_by_upgrade|{l}"), format!("{l}: before {} / after {}", canon(&a.content()).chars().take(300).collect::<String>(), canon(&b.content()).chars().take(300).collect::<String>())));
                        }
                        continue;
                    }
                    if !all_ok { continue; }
                    let (pa, pb) = (per_worker(a.content()), per_worker(b.content()));
                    let old = pa.iter().find(|(k, _)| k == "0").map(|x| canon(&x.1));
                    let new = pb.iter().find(|(k, _)| k == "1").map(|x| canon(&x.1));
                    match (old, new) {
                        (Some(o), Some(n)) => {
                            if o != n {
                                // name the first differing top-level part for the key
                                let what = diff_hint(&pa.iter().find(|(k, _)| k == "0").unwrap().1, &pb.iter().find(|(k, _)| k == "1").unwrap().1);
                                // plan-level trigger of the recorded ReplaceCertificate findings (CFG-S1/S2 family: the main state and
                                // the worker's resolver do not do the same thing with a ReplaceCertificate): certificate keys say
                                // whether the history contains one at all; with one, the differing part is in the detail only
                                let key = if kind == "certs" && has_replace { format!("successor_view_differs|certs|replace_certificate_in_history") } else if kind == "certs" && has_expiry_override { "successor_view_differs|certs|expired_at_override_in_history".to_string() } else { format!("successor_view_differs|{kind}|{what}") };
                                v.push(Violation::new("roundtrip_mismatch", key, format!("{l} ({what}): predecessor {} / successor {}", o.chars().take(400).collect::<String>(), n.chars().take(400).collect::<String>())));
                            }
                        }
                        (o, n) => { v.push(Violation::new("roundtrip_mismatch", format!("worker_answer_missing|{kind}"), format!("{l}: predecessor answered {}, successor answered {} (status {:?}/{:?})", o.is_some(), n.is_some(), a.final_status(), b.final_status()))); }
                    }
                }
            }
        }
        rep.probes.insert("ops".into(), n_ops as u64);
        rep.probes.insert("ops_not_ok".into(), failed_ops as u64);
        rep.probes.insert("plans_all_ok".into(), all_ok as u64);
        rep.probes.insert("upgrade_completed".into(), upgraded as u64);
        rep.probes.insert("workers_forked".into(), end.workers.len() as u64);
        rep.nontrivial = upgraded && all_ok && n_ops > 0;
        rep.summary = format!("real main + worker: {} commands ({} not OK), views taken, UpgradeWorker {}, views compared; {}", n_ops, failed_ops, if upgraded { "OK" } else { "not OK" }, cfggen::summarize_ops(&ops));
        rep.violations = v;
        rep.trace_hash = w.trace.0;
        w.stats.virtual_ns = w.now.saturating_sub(1000 * SEC);
        rep.stats = w.stats.clone();
        let mut dbg = String::new();
        if log {
            for l in &w.log { dbg += l; dbg.push('\n'); }
            for (i, s) in r.steps.iter().enumerate() { dbg += &format!("{}: sent {} final {:?} answers {:?}\n", labels[i], s.t_send, s.final_status(), s.answers.iter().map(|a| (a.1.status, a.1.message.chars().take(120).collect::<String>())).collect::<Vec<_>>()); }
            dbg += &format!("{end:#?}\n{}\n", serde_json::to_string_pretty(&rep.violations).unwrap());
        }
        drop(w);
        World::uninstall();
        (rep, dbg)
    })
}

/// Which part of two worker answers differs (for the violation key): field names only.
fn diff_hint<T: serde::Serialize>(a: &T, b: &T) -> String {
    fn walk(a: &Value, b: &Value, path: &str, out: &mut Vec<String>) {
        if out.len() >= 2 { return; }
        match (a, b) {
            (Value::Object(x), Value::Object(y)) => {
                let keys: std::collections::BTreeSet<&String> = x.keys().chain(y.keys()).collect();
                for k in keys {
                    // map keys that are data (cluster ids, fingerprints, addresses) are not part of the hint
                    let data_key = k.len() > 24 || k.contains('.') || k.contains(':') || k.chars().all(|c| c.is_ascii_hexdigit()) || k.starts_with('c') && k.len() <= 2;
                    let p = if data_key { format!("{path}.*") } else { format!("{path}.{k}") };
                    match (x.get(k), y.get(k)) { (Some(u), Some(w)) => walk(u, w, &p, out), _ => { if !out.contains(&p) { out.push(p); } } }
                }
            }
            (Value::Array(x), Value::Array(y)) => {
                if x.len() != y.len() { let p = format!("{path}[len]"); if !out.contains(&p) { out.push(p); } return; }
                for (u, w) in x.iter().zip(y.iter()) { walk(u, w, &format!("{path}[]"), out); }
            }
            _ => { if a != b { let p = path.to_string(); if !out.contains(&p) { out.push(p); } } }
        }
    }
    let norm = |v: &T| -> Value { serde_json::from_str(&canon(v)).unwrap_or(Value::Null) };
    let mut out = Vec::new();
    walk(&norm(a), &norm(b), "", &mut out);
    out.join(",")
}

pub fn shrink(plan: &Value) -> Vec<Value> {
    let mut out = Vec::new();
    for ops in cfggen::shrink_ops(&plan["ops"]) { let mut q = plan.clone(); q["ops"] = ops; out.push(q); }
    if plan["frag"].as_u64().unwrap_or(0) != 0 { let mut q = plan.clone(); q["frag"] = json!(0); out.push(q); }
    out
}

#[allow(dead_code)]
fn _status(_: ResponseStatus) {}
