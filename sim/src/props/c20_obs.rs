//! C20: canonical facts of a real `ConfigState` (the observed side of the comparison).
//! Same key / attribute vocabulary as `c20_model`, produced from sozu's own structures.
use std::collections::BTreeMap;
use std::net::SocketAddr;

use sozu_command_lib::proto::command::{CustomHttpAnswers, HstsConfig, RulePosition};
use sozu_command_lib::state::ConfigState;

use super::model::{chain_h, h, kv, Attrs, H2_KNOBS_U32, H2_KNOBS_U64};

#[derive(Debug, Clone)]
pub struct ObsBackend {
    pub cluster: String,
    pub addr: String,
    pub id: String,
    pub attrs: Attrs,
}

#[derive(Debug, Default, Clone)]
pub struct Observed {
    pub facts: BTreeMap<String, Attrs>,
    pub backends: Vec<ObsBackend>,
    /// keys that occur more than once in a list-shaped collection
    pub duplicated: Vec<String>,
}

fn ob(v: Option<bool>) -> String { match v { None => "default".into(), Some(b) => b.to_string() } }
fn oi<X: ToString>(v: Option<X>) -> String { match v { None => "none".into(), Some(b) => b.to_string() } }
fn os(v: Option<&String>) -> String { match v { None => "none".into(), Some(b) => format!("s:{b}") } }
fn hmap(m: &BTreeMap<String, String>) -> String {
    let x: BTreeMap<String, String> = m.iter().map(|(k, v)| (k.clone(), h(v.as_bytes()))).collect();
    kv(&x)
}
fn legacy(a: &Option<CustomHttpAnswers>) -> String {
    let mut m = BTreeMap::new();
    if let Some(a) = a {
        for (c, v) in [("301", &a.answer_301), ("400", &a.answer_400), ("401", &a.answer_401), ("404", &a.answer_404), ("408", &a.answer_408), ("413", &a.answer_413), ("421", &a.answer_421), ("502", &a.answer_502), ("503", &a.answer_503), ("504", &a.answer_504), ("507", &a.answer_507), ("429", &a.answer_429)] {
            if let Some(v) = v { m.insert(c.to_string(), h(v.as_bytes())); }
        }
    }
    kv(&m)
}
fn hsts(hc: &Option<HstsConfig>) -> String {
    match hc {
        None => "none".into(),
        Some(x) => format!("enabled={};max_age={};include_subdomains={};preload={};force_replace_backend={}", match x.enabled { Some(e) => e.to_string(), None => "unset".into() }, oi(x.max_age), ob(x.include_subdomains), ob(x.preload), ob(x.force_replace_backend)),
    }
}

macro_rules! http_common {
    ($l:expr, $a:expr) => {{
        let l = $l;
        let a: &mut Attrs = $a;
        a.insert("public_address".into(), match l.public_address { Some(p) => SocketAddr::from(p).to_string(), None => "none".into() });
        a.insert("expect_proxy".into(), l.expect_proxy.to_string());
        a.insert("sticky_name".into(), l.sticky_name.clone());
        a.insert("front_timeout".into(), l.front_timeout.to_string());
        a.insert("back_timeout".into(), l.back_timeout.to_string());
        a.insert("connect_timeout".into(), l.connect_timeout.to_string());
        a.insert("request_timeout".into(), l.request_timeout.to_string());
        a.insert("active".into(), l.active.to_string());
        a.insert("answers".into(), hmap(&l.answers));
        a.insert("legacy_answers".into(), legacy(&l.http_answers));
        let u32s = [l.h2_max_rst_stream_per_window, l.h2_max_ping_per_window, l.h2_max_settings_per_window, l.h2_max_empty_data_per_window,
            l.h2_max_window_update_stream0_per_window, l.h2_max_continuation_frames, l.h2_max_glitch_count, l.h2_initial_connection_window,
            l.h2_max_concurrent_streams, l.h2_stream_shrink_ratio, l.h2_max_header_list_size, l.h2_max_header_table_size,
            l.h2_max_header_fields, l.h2_stream_idle_timeout_seconds, l.h2_graceful_shutdown_deadline_seconds];
        for (k, v) in H2_KNOBS_U32.iter().zip(u32s.iter()) { a.insert(k.to_string(), oi(*v)); }
        let u64s = [l.h2_max_rst_stream_lifetime, l.h2_max_rst_stream_abusive_lifetime, l.h2_max_rst_stream_emitted_lifetime];
        for (k, v) in H2_KNOBS_U64.iter().zip(u64s.iter()) { a.insert(k.to_string(), oi(*v)); }
        a.insert("sozu_id_header".into(), os(l.sozu_id_header.as_ref()));
        a.insert("elide_x_real_ip".into(), l.elide_x_real_ip.unwrap_or(false).to_string());
        a.insert("send_x_real_ip".into(), l.send_x_real_ip.unwrap_or(false).to_string());
    }};
}

pub fn observe(s: &ConfigState) -> Observed {
    let mut o = Observed::default();
    let mut put = |o: &mut Observed, k: String, a: Attrs| { if o.facts.insert(k.clone(), a).is_some() { o.duplicated.push(k); } };
    for (addr, l) in &s.http_listeners {
        let mut a = Attrs::new();
        a.insert("proto".into(), "http".into());
        http_common!(l, &mut a);
        put(&mut o, format!("listener|{addr}"), a);
    }
    for (addr, l) in &s.https_listeners {
        let mut a = Attrs::new();
        a.insert("proto".into(), "https".into());
        http_common!(l, &mut a);
        a.insert("versions".into(), l.versions.iter().map(|v| v.to_string()).collect::<Vec<_>>().join(","));
        a.insert("cipher_list".into(), l.cipher_list.join(","));
        a.insert("groups_list".into(), l.groups_list.join(","));
        a.insert("alpn".into(), l.alpn_protocols.join(","));
        a.insert("send_tls13_tickets".into(), l.send_tls13_tickets.to_string());
        a.insert("strict_sni_binding".into(), ob(l.strict_sni_binding));
        a.insert("disable_http11".into(), ob(l.disable_http11));
        a.insert("hsts".into(), hsts(&l.hsts));
        a.insert("certificate".into(), match &l.certificate { Some(c) => h(c.as_bytes()), None => "none".into() });
        a.insert("key".into(), match &l.key { Some(c) => h(c.as_bytes()), None => "none".into() });
        a.insert("certificate_chain".into(), chain_h(&l.certificate_chain));
        put(&mut o, format!("listener|{addr}"), a);
    }
    for (addr, l) in &s.tcp_listeners {
        let mut a = Attrs::new();
        a.insert("proto".into(), "tcp".into());
        a.insert("public_address".into(), match l.public_address { Some(p) => SocketAddr::from(p).to_string(), None => "none".into() });
        a.insert("expect_proxy".into(), l.expect_proxy.to_string());
        a.insert("front_timeout".into(), l.front_timeout.to_string());
        a.insert("back_timeout".into(), l.back_timeout.to_string());
        a.insert("connect_timeout".into(), l.connect_timeout.to_string());
        a.insert("active".into(), l.active.to_string());
        put(&mut o, format!("listener|{addr}"), a);
    }
    for (addr, l) in &s.udp_listeners {
        let mut a = Attrs::new();
        a.insert("proto".into(), "udp".into());
        a.insert("public_address".into(), match l.public_address { Some(p) => SocketAddr::from(p).to_string(), None => "none".into() });
        a.insert("front_timeout".into(), l.front_timeout.to_string());
        a.insert("back_timeout".into(), l.back_timeout.to_string());
        a.insert("max_rx_datagram_size".into(), l.max_rx_datagram_size.to_string());
        a.insert("max_flows".into(), l.max_flows.to_string());
        a.insert("active".into(), l.active.to_string());
        put(&mut o, format!("listener|{addr}"), a);
    }
    for (id, c) in &s.clusters {
        let mut a = Attrs::new();
        a.insert("sticky_session".into(), c.sticky_session.to_string());
        a.insert("https_redirect".into(), c.https_redirect.to_string());
        a.insert("proxy_protocol".into(), oi(c.proxy_protocol));
        a.insert("load_balancing".into(), c.load_balancing.to_string());
        a.insert("load_metric".into(), oi(c.load_metric));
        a.insert("answer_503".into(), match &c.answer_503 { Some(x) => h(x.as_bytes()), None => "none".into() });
        a.insert("http2".into(), ob(c.http2));
        a.insert("answers".into(), hmap(&c.answers));
        a.insert("https_redirect_port".into(), oi(c.https_redirect_port));
        a.insert("authorized_hashes".into(), c.authorized_hashes.join(","));
        a.insert("www_authenticate".into(), os(c.www_authenticate.as_ref()));
        a.insert("max_connections_per_ip".into(), oi(c.max_connections_per_ip));
        a.insert("retry_after".into(), oi(c.retry_after));
        a.insert("health_check".into(), match &c.health_check {
            None => "none".into(),
            Some(x) => format!("uri={};interval={};timeout={};healthy={};unhealthy={};expected={}", x.uri, x.interval, x.timeout, x.healthy_threshold, x.unhealthy_threshold, x.expected_status),
        });
        a.insert("udp".into(), match &c.udp {
            None => "none".into(),
            Some(u) => {
                let health = match &u.health {
                    None => "none".to_string(),
                    Some(x) => format!("mode={};tcp_port={};rise={};fall={};fail_open={};payload={};interval={};timeout={}", match x.mode { None => "default".to_string(), Some(m) => m.to_string() }, oi(x.tcp_port), oi(x.rise), oi(x.fall), ob(x.fail_open), match &x.udp_probe_payload { None => "none".to_string(), Some(p) => format!("s:{}", String::from_utf8_lossy(p)) }, oi(x.probe_interval_seconds), oi(x.probe_timeout_seconds)),
                };
                format!("affinity={};responses={};requests={};send_pp={};pp_every={};health=[{health}]", match u.affinity_key { None => "default".to_string(), Some(k) => k.to_string() }, oi(u.responses), oi(u.requests), ob(u.send_proxy_protocol), ob(u.proxy_protocol_every_datagram))
            }
        });
        if id != &c.cluster_id { o.duplicated.push(format!("cluster|{id}|stored-under-wrong-key")); }
        put(&mut o, format!("cluster|{id}"), a);
    }
    for (scheme, map) in [("http", &s.http_fronts), ("https", &s.https_fronts)] {
        for f in map.values() {
            let kind = match f.path.kind { 0 => "P", 1 => "R", 2 => "=", _ => "?" };
            let key = format!("front|{scheme}|{}|{}|{kind}{}|{}", f.address, f.hostname, f.path.value, f.method.as_deref().unwrap_or("-"));
            let mut a = Attrs::new();
            a.insert("cluster".into(), f.cluster_id.clone().unwrap_or_else(|| "<none>".into()));
            a.insert("position".into(), match f.position { RulePosition::Pre => "PRE", RulePosition::Post => "POST", RulePosition::Tree => "TREE" }.into());
            a.insert("tags".into(), f.tags.as_ref().map(kv).unwrap_or_default());
            a.insert("redirect".into(), oi(f.redirect));
            a.insert("redirect_scheme".into(), oi(f.redirect_scheme));
            a.insert("redirect_template".into(), os(f.redirect_template.as_ref()));
            a.insert("rewrite_host".into(), os(f.rewrite_host.as_ref()));
            a.insert("rewrite_path".into(), os(f.rewrite_path.as_ref()));
            a.insert("rewrite_port".into(), oi(f.rewrite_port));
            a.insert("required_auth".into(), ob(f.required_auth));
            a.insert("headers".into(), f.headers.iter().map(|x| format!("{}:{}:{}", x.position, x.key, x.val)).collect::<Vec<_>>().join("|"));
            a.insert("hsts".into(), hsts(&f.hsts));
            put(&mut o, key, a);
        }
    }
    let mut ids: Vec<&String> = s.tcp_fronts.keys().collect();
    ids.sort();
    for id in ids {
        for f in &s.tcp_fronts[id] {
            if &f.cluster_id != id { o.duplicated.push(format!("front|tcp|{id}|filed-under-wrong-cluster")); }
            put(&mut o, format!("front|tcp|{}|{}|{}", f.cluster_id, f.address, kv(&f.tags)), Attrs::new());
        }
    }
    let mut ids: Vec<&String> = s.udp_fronts.keys().collect();
    ids.sort();
    for id in ids {
        for f in &s.udp_fronts[id] {
            put(&mut o, format!("front|udp|{}|{}|{}", f.cluster_id, f.address, kv(&f.tags)), Attrs::new());
        }
    }
    let mut addrs: Vec<&SocketAddr> = s.certificates.keys().collect();
    addrs.sort();
    for addr in addrs {
        let mut v: Vec<_> = s.certificates[addr].values().collect();
        v.sort_by(|a, b| a.certificate.cmp(&b.certificate));
        for c in v {
            let mut a = Attrs::new();
            a.insert("key".into(), h(c.key.as_bytes()));
            a.insert("chain".into(), chain_h(&c.certificate_chain));
            a.insert("versions".into(), c.versions.iter().map(|v| v.to_string()).collect::<Vec<_>>().join(","));
            put(&mut o, format!("cert|{addr}|{}", h(c.certificate.as_bytes())), a);
        }
    }
    for (id, list) in &s.backends {
        for b in list {
            let mut a = Attrs::new();
            a.insert("weight".into(), match &b.load_balancing_parameters { Some(p) => p.weight.to_string(), None => "none".into() });
            a.insert("sticky_id".into(), os(b.sticky_id.as_ref()));
            a.insert("backup".into(), ob(b.backup));
            let cluster = if &b.cluster_id == id { id.clone() } else { format!("{id}(declares {})", b.cluster_id) };
            o.backends.push(ObsBackend { cluster, addr: b.address.to_string(), id: b.backend_id.clone(), attrs: a });
        }
    }
    o
}
