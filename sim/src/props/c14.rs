//! C14 — sozu respects every HTTP/2 peer limit and keeps transfers moving.
//!
//! The H2 peers (client over TLS, h2c backend) are byte-accounting peers: they keep their own ledger
//! of the windows / limits they granted sozu (actors/h2.rs). This module generates the peer SETTINGS
//! and WINDOW_UPDATE schedules, and judges ledgers, body integrity and liveness.
use std::collections::BTreeMap;

use serde_json::Value;

use crate::actors::h1::*;
use crate::actors::h2::*;
use crate::actors::h2codec::{HpackStyle, Repr};
use crate::actors::tls::TlsPlan;
use crate::actors::Pace;
use crate::framework::*;
use crate::muxscn::*;
use crate::netsim::{self, Knobs};
use crate::prng::Prng;
use crate::scenario::{boundary_size, random_chunks, BackendMode};
use crate::world::{MS, SEC};

pub struct C14;

#[derive(Clone, Copy, PartialEq)]
pub enum Focus {
    /// C01: default-ish limits, emphasis on sizes, framings, pacing
    Bodies,
    /// C14: emphasis on peer SETTINGS and WINDOW_UPDATE schedules
    Limits,
}

fn gen_wu(rng: &mut Prng, body_hint: usize, chatty_ok: bool) -> WuPolicy {
    // keep the number of WINDOW_UPDATE frames per body moderate: sozu documents a WINDOW_UPDATE flood
    // detector (GOAWAY ENHANCE_YOUR_CALM). Modes that answer every received DATA frame (eager, drip,
    // time-based) are only used when the sender on the other side of sozu writes in large quanta.
    let min_step = ((body_hint / 60).max(1024)) as u32;
    let mode = |rng: &mut Prng| match rng.below(if chatty_ok { 6 } else { 3 }) {
        0 => WuMode::Threshold(min_step + rng.below(30000) as u32),
        1 => WuMode::WhenExhausted,
        2 => WuMode::Threshold(min_step),
        3 => WuMode::Drip(min_step + rng.below(8000) as u32),
        4 => WuMode::Late(rng.below(3) * MS + 1),
        _ => WuMode::Eager,
    };
    // connection-level updates are rate-limited by sozu (documented: h2_max_window_update_stream0_per_window
    // = 100 per flood window): keep them to a few dozen per run
    let conn_step = ((body_hint / 30).clamp(1024, 60000)) as u32;
    let conn = if rng.below(2) == 0 { WuMode::WhenExhausted } else { WuMode::Threshold(conn_step) };
    WuPolicy { stream: mode(rng), conn, fallback_ns: 20 * MS + rng.below(30 * MS) }
}

fn gen_settings(rng: &mut Prng, focus: Focus, server_role: bool) -> SettingsSpec {
    let mut s = SettingsSpec::default();
    if focus == Focus::Bodies && rng.below(3) != 0 { if !server_role { s.enable_push = Some(0); } return s; }
    if rng.below(2) == 0 { s.initial_window_size = Some(*rng.pick(&[1024u32, 4096, 16383, 16384, 16385, 65535, 65536, 100_000, 1_000_000, 0x7fff_ffff])); }
    if rng.below(2) == 0 { s.max_frame_size = Some(*rng.pick(&[16384u32, 16385, 20000, 65536, 1 << 20, (1 << 24) - 1])); }
    if server_role && rng.below(2) == 0 { s.max_concurrent_streams = Some(*rng.pick(&[1u32, 2, 3, 100])); }
    if rng.below(2) == 0 { s.header_table_size = Some(*rng.pick(&[0u32, 64, 4096, 65536])); }
    if !server_role { s.enable_push = Some(0); }
    s
}

fn gen_conn(rng: &mut Prng, focus: Focus, server_role: bool, body_hint: usize, chatty_ok: bool) -> H2ConnPlan {
    let mut c = H2ConnPlan::default();
    c.settings = gen_settings(rng, focus, server_role);
    c.wu = if focus == Focus::Limits || rng.below(2) == 0 || !chatty_ok { gen_wu(rng, body_hint, chatty_ok) } else { WuPolicy { stream: WuMode::Eager, conn: WuMode::Threshold(((body_hint / 30).clamp(1024, 60000)) as u32), fallback_ns: 30 * MS } };
    if focus == Focus::Limits && rng.below(3) == 0 {
        // mid-connection change, possibly shrinking windows below in-flight data
        let mut s = SettingsSpec::default();
        s.initial_window_size = Some(*rng.pick(&[1024u32, 8192, 16384, 65535, 200_000]));
        if rng.below(2) == 0 { s.max_frame_size = Some(*rng.pick(&[16384u32, 32768, 1 << 20])); }
        if rng.below(3) == 0 { s.header_table_size = Some(*rng.pick(&[0u32, 4096])); }
        let when = match rng.below(3) { 0 => When::RecvData(rng.below(body_hint as u64 + 1)), 1 => When::RecvFrames(2 + rng.below(10)), _ => When::StreamsOpened(1 + rng.below(3) as u32) };
        c.changes.push(SettingsChange { when, settings: s });
    }
    if rng.below(4) == 0 { c.conn_window_bonus = *rng.pick(&[1000u32, 65535, 1_000_000]); }
    // per-frame updates (eager / drip / time-based) for a body of hundreds of frames put hundreds of WINDOW_UPDATE frames
    // behind the END_STREAM that sozu has already sent; sozu counts each as a "glitch" and documents a cumulative cap of
    // 100 per connection (h2_max_glitch_count): large transfers use consumption thresholds instead
    if body_hint > 300_000 { if let WuMode::Eager | WuMode::Drip(_) | WuMode::Late(_) = c.wu.stream { c.wu.stream = WuMode::Threshold(16384); } }
    // a threshold above the stream window we advertise would never be reached: the update would only come from the
    // fallback timer, tens of virtual milliseconds per window, and a large body would look starved by sozu
    let iws = c.changes.iter().filter_map(|ch| ch.settings.initial_window_size).chain(std::iter::once(c.settings.initial_window_size.unwrap_or(65535))).min().unwrap_or(65535);
    if let WuMode::Threshold(t) | WuMode::Drip(t) = c.wu.stream { if t >= iws { c.wu.stream = WuMode::WhenExhausted; } }
    // sozu documents a flood detector for stream-0 WINDOW_UPDATE frames (100 per window): megabytes through a 64 kB
    // connection window would need more than that within one window of (fast) virtual time. A well-behaved peer
    // moving that much grants the connection window once, up front.
    if body_hint > 1_000_000 { c.conn_window_bonus = (body_hint as u64 * 2).min(0x7fff_ffff - 65535 - 1_000_000) as u32; c.wu.conn = WuMode::WhenExhausted; }
    c.hpack = HpackStyle { repr: *rng.pick(&[Repr::NoIndex, Repr::NeverIndex, Repr::IncrIndex]), incr_every: rng.below(4) as u32, static_names: rng.below(2) == 0, static_full: rng.below(2) == 0, huffman: rng.below(2) == 0, dynamic_refs: rng.below(2) == 0, table_size: None };
    c.batch = 1 + rng.below(3) as u32;
    c
}

fn gen_body_plan(rng: &mut Prng, len: usize, allow_trailers: bool) -> BodyPlan {
    let mut b = if len == 0 && rng.below(2) == 0 { BodyPlan::none() } else { BodyPlan::of(len) };
    if len > 0 {
        if rng.below(2) == 0 { b.frames = random_chunks(rng, len.min(100_000)); b.frames.truncate(40); }
        if rng.below(3) == 0 { b.pad = vec![None, Some(rng.below(200) as u8), Some(0)]; }
        b.content_length = rng.below(3) != 0;
        b.end = match rng.below(8) { 0 => EndMode::EmptyData, 1 if allow_trailers => EndMode::Trailers(vec![("x-trailer".into(), "v".into())]), _ => EndMode::Auto };
    }
    b
}

/// Seeded mixed-protocol plan. `pair`: 0 = h2 client / h1 backend, 1 = h1 client / h2 backend, 2 = h2 / h2, 3 = h1 / h1.
pub fn gen_mux(seed: u64, tier: Tier, focus: Focus, label: &str) -> MuxPlan {
    let mut rng = Prng::derive(seed, &format!("{label}/mux"));
    let faulty = rng.below(3) == 0;
    let mut knobs = Knobs::default();
    knobs.buffer_size = *rng.pick(&[16393u64, 16393, 16400, 20000, 32768, 65536]);
    // pairs: 0 = h2 client / h1 backend (the common deployment), 1 = h1 client / h2c backend, 2 = h2 / h2c
    let pair = match rng.below(10) { 0..=5 => 0, 6 | 7 => 1, _ => 2 };
    let max_body = match (tier, focus) { (Tier::Quick, _) => 150_000, (Tier::Thorough, _) => 1_500_000 };
    let http_front = "10.0.0.1:80".parse().unwrap();
    let https_front = "10.0.0.1:443".parse().unwrap();
    let h2_client = pair == 0 || pair == 2;
    let h2_backend = pair == 1 || pair == 2;
    let nstreams = 1 + rng.below(5) as usize;
    let mut h1_resp = BTreeMap::new();
    let mut h2_resp = BTreeMap::new();
    let mut h1_reqs = Vec::new();
    let mut h2_ops = Vec::new();
    let mut hint = 0usize;
    for i in 0..nstreams {
        let id = 1 + i as u64;
        let req_len = if rng.below(2) == 0 { 0 } else { boundary_size(&mut rng, knobs.buffer_size as usize, max_body) };
        let resp_len = boundary_size(&mut rng, knobs.buffer_size as usize, max_body);
        hint += req_len + resp_len + 500;
        if h2_client {
            let mut r = if req_len > 0 { H2ReqSpec::post(id, "c0.test", &format!("/r/{id}"), req_len) } else { H2ReqSpec::get(id, "c0.test", &format!("/r/{id}")) };
            // trailers toward an H1 backend and padded HEADERS + CONTINUATION are separate (rare) triggers
            let allow_tr = if h2_backend { rng.below(4) == 0 } else { rng.below(12) == 0 };
            r.body = gen_body_plan(&mut rng, req_len, allow_tr);
            if rng.below(4) == 0 { r.cont_split = vec![1 + rng.below(30) as usize, rng.below(20) as usize]; }
            if rng.below(6) == 0 && (r.cont_split.is_empty() || rng.below(5) == 0) { r.headers_pad = Some(rng.below(100) as u8); }
            if rng.below(5) == 0 { r.headers.push(("x-long".into(), "v".repeat(rng.below(3000) as usize))); }
            r.delay_ns = rng.below(2) * rng.below(3 * MS);
            h2_ops.push(ClientOp::Req(r));
        } else {
            let mut r = ReqSpec::get(id, "c0.test", &format!("/r/{id}"));
            if req_len > 0 { r.method = "POST".into(); r.body = if rng.below(2) == 0 { BodySpec::Cl(req_len) } else { BodySpec::Chunked(random_chunks(&mut rng, req_len)) }; } else { r.headers.push(("Content-Length".into(), "0".into())); }
            h1_reqs.push(r);
        }
        if h2_backend {
            let mut resp = H2RespSpec::ok(resp_len);
            resp.body = gen_body_plan(&mut rng, resp_len, false);
            if resp.body.len == 0 && !resp.body.content_length { resp.body = BodyPlan::of(0); }
            // a complete answer before the request body has been read is an (uncommon) early response; keep it to body-less requests
            resp.respond_on = if req_len == 0 && rng.below(2) == 0 { RespondOn::Headers } else { RespondOn::EndStream };
            if rng.below(4) == 0 { resp.cont_split = vec![1 + rng.below(20) as usize]; }
            resp.delay_ns = rng.below(2) * rng.below(3 * MS);
            h2_resp.insert(id, resp);
        } else {
            let body = if rng.below(2) == 0 { BodySpec::Cl(resp_len) } else { BodySpec::Chunked(random_chunks(&mut rng, resp_len)) };
            h1_resp.insert(id, RespSpec::ok(body));
        }
    }
    let pace_c = Pace::random_budget(&mut rng, hint, 300_000_000);
    let pace_b = Pace::random_budget(&mut rng, hint, 300_000_000);
    let big = |q: &crate::actors::Quantum| match q { crate::actors::Quantum::All => true, crate::actors::Quantum::Fixed(n) => *n >= 2048, crate::actors::Quantum::Uniform(a, _) => *a >= 1000 };
    // the peer of a slow writer sees many small DATA frames
    let (client_chatty_ok, backend_chatty_ok) = (big(&pace_b.wq), big(&pace_c.wq));
    let backend = if h2_backend {
        let mut b = H2BackendPlan::simple("b0", "10.1.0.1:8000".parse().unwrap(), h2_resp);
        b.pace = pace_b;
        b.conn = gen_conn(&mut rng, focus, true, hint, backend_chatty_ok);
        MuxBackend::H2(b)
    } else {
        MuxBackend::H1(BackendPlan { name: "b0".into(), addr: "10.1.0.1:8000".parse().unwrap(), pace: pace_b, responses: h1_resp, default: RespSpec::ok(BodySpec::Cl(3)), close_on_accept: vec![], listen_from_ns: 0, listen_until_ns: 0 })
    };
    let mut h1_clients = Vec::new();
    let mut h2_clients = Vec::new();
    if h2_client {
        let mut c = H2ClientPlan::simple("h2c0", "192.0.2.7:40001".parse().unwrap(), https_front, Some(TlsPlan::h2("c0.test")), vec![]);
        c.script = h2_ops;
        c.pace = pace_c;
        c.conn = gen_conn(&mut rng, focus, false, hint, client_chatty_ok);
        c.max_concurrent = *rng.pick(&[1u32, 2, 8, 100]);
        c.give_up_ns = 40 * SEC;
        c.start_ns = rng.below(3) * MS;
        h2_clients.push(c);
    } else {
        h1_clients.push(ClientPlan { name: "cl0".into(), src: "192.0.2.7:40001".parse().unwrap(), dst: http_front, start_ns: rng.below(3) * MS, pace: pace_c, pipeline: false, requests: h1_reqs, abort: None, sndbuf: None, think_ns: 0, linger_ns: 0, give_up_ns: 40 * SEC, wait_board: None });
    }
    MuxPlan {
        seed,
        family: format!("{}_{}{}", if h2_client { "h2" } else { "h1" }, if h2_backend { "h2" } else { "h1" }, if faulty { "+buggify" } else { "" }),
        knobs,
        sched: netsim::default_sched(&mut rng, faulty),
        http_front,
        https_front,
        clusters: vec![MuxCluster { id: "c0".into(), host: "c0.test".into(), backend, mode: BackendMode::Listen { delay_ns: rng.below(2) * rng.below(5 * MS) } }],
        h1_clients,
        h2_clients,
        sndbufs: if rng.below(3) == 0 { Some(vec![0, 4608, 9216, 32768]) } else { None },
        settle_ns: 0,
        soft_stop_at_ns: None,
        h2_deadline_secs: None,
    }
}

/// plan-level trigger of the recorded H2 defects for request `id` (computed from the plan only)
pub fn trigger(p: &MuxPlan, id: u64) -> &'static str {
    // every defect recorded for the h2c-backend path is grouped under one trigger
    if p.clusters[0].backend.is_h2() { return "h2_backend"; }
    let mut sibling: Option<&'static str> = None;
    for c in &p.h2_clients {
        for r in c.requests() {
            // (padded HEADERS followed by CONTINUATION used to be a trigger: fixed in /repo, see known_findings "fixed:")
            // (trailers behind a body WITHOUT content-length used to be part of this trigger: fixed in /repo; what is left is
            // the Content-Length case, where the trailer line is written behind the body toward an H1 backend)
            let t = if matches!(r.body.end, EndMode::Trailers(_)) && r.body.content_length && r.body.len > 0 { Some("h2_request_trailers_to_h1_backend") } else { None };
            if let Some(t) = t {
                if r.id == id { return t; }
                // a defect hit by one stream takes the shared backend/frontend connection with it
                sibling = Some("sibling_of_h2_request_trailers_to_h1_backend");
            }
        }
    }
    if let Some(s) = sibling { return s; }
    // (an H2 request ending in an empty DATA frame toward an H1 backend used to be a trigger: fixed in /repo)
    "none"
}

pub fn plan_trigger(p: &MuxPlan) -> &'static str {
    if p.clusters[0].backend.is_h2() { return "h2_backend"; }
    for c in &p.h2_clients { for r in c.requests() { let t = trigger(p, r.id); if t != "none" && !t.starts_with("sibling") { return t; } } }
    "none"
}

/// Body / completion oracle shared with C01 (all four protocol pairs).
pub fn body_oracle(p: &MuxPlan, o: &MuxOutcome) -> Vec<Violation> {
    let mut v = Vec::new();
    if let Some(pn) = &o.panicked { v.push(Violation::new("panic", format!("worker|{}", plan_trigger(p)), pn.clone())); }
    if let Some(a) = &o.aborted { v.push(Violation::new("no_exit", format!("{a}|{}", plan_trigger(p)), format!("run aborted: {a}"))); }
    let mut judge = |id: u64, req_len: u64, resp_len: u64, resp_status: u16, obs: ClientObs, who: &str, v: &mut Vec<Violation>| {
        let trig = trigger(p, id);
        let k = |s: &str| format!("{s}|{trig}");
        let b = backend_obs(&o.backends[0], id);
        if !obs.answered {
            v.push(Violation::new("no_answer", k("missing"), format!("{who} request #{id}: no response (aborted={:?})", obs.aborted)));
        } else if obs.sim_id != Some(id) {
            v.push(Violation::new("wrong_answer", k(&format!("status={}", obs.status.unwrap_or(0))), format!("{who} request #{id}: got status {:?} sim_id={:?} body={:?}", obs.status, obs.sim_id, String::from_utf8_lossy(&obs.body_head[..obs.body_head.len().min(80)]))));
        } else {
            if obs.status != Some(resp_status) { v.push(Violation::new("wrong_answer", k("status_changed"), format!("request #{id}: status {:?} != {resp_status}", obs.status))); }
            if let Some(off) = obs.first_bad {
                let keys: Vec<u64> = (1..=12u64).flat_map(|i| [i * 2, i * 2 + 1]).collect();
                let origin = crate::actors::locate_bytes(&obs.bad_bytes, &keys, 1_600_000);
                v.push(Violation::new("body_mismatch", k("corrupted"), format!("{who} request #{id}: response body differs at offset {off} (received {}); the bytes found there ({:02x?}) belong to (body key, offset) = {origin:?} (response key of request n is 2n+1)", obs.body_len, obs.bad_bytes)));
            }
            else if obs.body_len != resp_len { v.push(Violation::new("body_mismatch", k(if obs.body_len < resp_len { "truncated" } else { "duplicated" }), format!("{who} request #{id}: response body {} bytes, backend sent {resp_len}; aborted={:?}", obs.body_len, obs.aborted))); }
            if !obs.complete { v.push(Violation::new("missing_terminator", k("response"), format!("request #{id}: response not terminated (aborted={:?})", obs.aborted))); }
            if obs.t_sent > 0 && obs.t_end > obs.t_sent + 10 * SEC { v.push(Violation::new("transfer_starved", k("response"), format!("request #{id}: completed {} ms after the request was sent", (obs.t_end - obs.t_sent) / MS))); }
        }
        if b.seen > 1 { v.push(Violation::new("body_mismatch", k("request_replayed"), format!("request #{id} reached the backend {} times", b.seen))); }
        if b.seen >= 1 {
            if !b.body_ok { v.push(Violation::new("body_mismatch", k("request_corrupted"), format!("request #{id}: request body differs at the backend"))); }
            else if b.body_len != req_len { v.push(Violation::new("body_mismatch", k(if b.body_len < req_len { "request_truncated" } else { "request_duplicated" }), format!("request #{id}: backend got {} body bytes, client sent {req_len}", b.body_len))); }
            if !b.complete { v.push(Violation::new("missing_terminator", k("request"), format!("request #{id}: request not terminated at the backend"))); }
        } else if obs.answered && obs.sim_id == Some(id) {
            v.push(Violation::new("wrong_answer", k("not_forwarded"), format!("request #{id} answered but never seen by the backend")));
        }
    };
    let resp_of = |id: u64| -> (u64, u16) {
        match &p.clusters[0].backend {
            MuxBackend::H1(b) => b.responses.get(&id).map_or((3, 200), |r| (r.body.len() as u64, r.status)),
            MuxBackend::H2(b) => b.responses.get(&id).map_or((3, 200), |r| (r.body.len as u64, r.status)),
        }
    };
    for (ci, c) in p.h1_clients.iter().enumerate() {
        for (ri, r) in c.requests.iter().enumerate() {
            let (rl, st) = resp_of(r.id);
            judge(r.id, r.body.len() as u64, rl, st, h1_client_obs(&o.h1_clients[ci], ri, r.id), &c.name, &mut v);
        }
        if let Some(e) = &o.h1_clients[ci].rec.parse_error { v.push(Violation::new("malformed_response", format!("client_parse|{}", plan_trigger(p)), format!("client {}: {e}", c.name))); }
    }
    for (ci, c) in p.h2_clients.iter().enumerate() {
        let rec = &o.h2_clients[ci];
        if let Some(e) = rec.connect_err { v.push(Violation::new("no_answer", "connect_failed", format!("h2 client could not connect: errno {e}"))); continue; }
        if let Some(t) = &rec.tls { if !t.handshake_done { v.push(Violation::new("no_answer", "tls_handshake_failed", format!("TLS handshake failed: {:?}", t.error))); continue; } }
        for r in c.requests() {
            let (rl, st) = resp_of(r.id);
            judge(r.id, r.body.len as u64, rl, st, h2_client_obs(rec, r.id), &c.name, &mut v);
        }
    }
    if let BackendRecords::H1(recs) = &o.backends[0] { for r in recs { if let Some(e) = &r.parse_error { v.push(Violation::new("backend_stream_not_strict", format!("parse_error|{}", plan_trigger(p)), format!("backend conn {}: {e}", r.idx))); } } }
    v
}

/// The ledgers kept by the H2 peers.
pub fn ledger_oracle(p: &MuxPlan, o: &MuxOutcome) -> Vec<Violation> {
    let mut v = Vec::new();
    let trig = plan_trigger(p);
    let mut take = |who: &str, rec: &H2ConnRecord, v: &mut Vec<Violation>| {
        for lv in &rec.violations {
            if lv.kind.ends_with("_pre_ack") { continue; }
            v.push(Violation::new(&lv.kind, format!("{who}|{trig}"), format!("{who} connection {}: stream {}: {}", rec.idx, lv.stream, lv.detail)));
        }
        if rec.counters.max_send_blocked_ns > 10 * SEC { v.push(Violation::new("transfer_starved", format!("{who}_send_window|{trig}"), format!("{who}: unable to send DATA for {} ms because sozu did not replenish its windows", rec.counters.max_send_blocked_ns / MS))); }
    };
    for rec in &o.h2_clients { take("client", rec, &mut v); }
    if let BackendRecords::H2(recs) = &o.backends[0] { for rec in recs { take("backend", rec, &mut v); } }
    v
}

pub fn summarize(p: &MuxPlan) -> String {
    let mut s = format!("{} buf={} ", p.family, p.knobs.buffer_size);
    for c in &p.h2_clients {
        s += &format!("[h2 client settings={:?} changes={} wu={:?}/{:?} max_concurrent={}:", c.conn.settings.params(), c.conn.changes.len(), c.conn.wu.stream, c.conn.wu.conn, c.max_concurrent);
        for r in c.requests() { s += &format!(" #{}:{}B", r.id, r.body.len); }
        s += "] ";
    }
    for c in &p.h1_clients { s += &format!("[h1 client {} reqs] ", c.requests.len()); }
    match &p.clusters[0].backend {
        MuxBackend::H2(b) => s += &format!("[h2 backend settings={:?} changes={} wu={:?}/{:?} resp={:?}]", b.conn.settings.params(), b.conn.changes.len(), b.conn.wu.stream, b.conn.wu.conn, b.responses.iter().map(|(k, r)| (*k, r.body.len)).collect::<Vec<_>>()),
        MuxBackend::H1(b) => s += &format!("[h1 backend resp={:?}]", b.responses.iter().map(|(k, r)| (*k, r.body.len())).collect::<Vec<_>>()),
    }
    s
}

pub fn shrink_mux(p: &MuxPlan) -> Vec<MuxPlan> {
    let mut out = Vec::new();
    for i in 0..p.h2_clients.len() {
        let c = &p.h2_clients[i];
        if c.script.len() > 1 { for j in 0..c.script.len() { let mut q = p.clone(); q.h2_clients[i].script.remove(j); out.push(q); } }
        if !c.pace.is_greedy() { let mut q = p.clone(); q.h2_clients[i].pace = Pace::greedy(); out.push(q); }
        if c.conn != H2ConnPlan::default() {
            let mut q = p.clone(); q.h2_clients[i].conn.changes.clear(); if q.h2_clients[i].conn != c.conn { out.push(q); }
            let mut q = p.clone(); q.h2_clients[i].conn.hpack = HpackStyle::default(); if q.h2_clients[i].conn != c.conn { out.push(q); }
            let mut q = p.clone(); q.h2_clients[i].conn.wu = WuPolicy::eager(); if q.h2_clients[i].conn != c.conn { out.push(q); }
            let mut q = p.clone(); q.h2_clients[i].conn.settings = SettingsSpec { enable_push: Some(0), ..Default::default() }; if q.h2_clients[i].conn != c.conn { out.push(q); }
        }
        for j in 0..c.script.len() {
            if let ClientOp::Req(r) = &c.script[j] {
                if r.body.len > 1 { let mut q = p.clone(); if let ClientOp::Req(r2) = &mut q.h2_clients[i].script[j] { r2.body = BodyPlan::of(r.body.len / 2); } out.push(q); }
                if r.body.len > 0 { let mut q = p.clone(); if let ClientOp::Req(r2) = &mut q.h2_clients[i].script[j] { r2.body = BodyPlan::none(); r2.method = "GET".into(); } out.push(q); }
                if !r.cont_split.is_empty() || r.headers_pad.is_some() || !r.headers.is_empty() { let mut q = p.clone(); if let ClientOp::Req(r2) = &mut q.h2_clients[i].script[j] { r2.cont_split.clear(); r2.headers_pad = None; r2.headers.clear(); } out.push(q); }
            }
        }
    }
    for i in 0..p.h1_clients.len() {
        if p.h1_clients[i].requests.len() > 1 { for j in 0..p.h1_clients[i].requests.len() { let mut q = p.clone(); q.h1_clients[i].requests.remove(j); out.push(q); } }
        if !p.h1_clients[i].pace.is_greedy() { let mut q = p.clone(); q.h1_clients[i].pace = Pace::greedy(); out.push(q); }
    }
    match &p.clusters[0].backend {
        MuxBackend::H2(b) => {
            if !b.pace.is_greedy() { let mut q = p.clone(); if let MuxBackend::H2(b2) = &mut q.clusters[0].backend { b2.pace = Pace::greedy(); } out.push(q); }
            if b.conn != H2ConnPlan::default() {
                let mut q = p.clone(); if let MuxBackend::H2(b2) = &mut q.clusters[0].backend { b2.conn.changes.clear(); } out.push(q);
                let mut q = p.clone(); if let MuxBackend::H2(b2) = &mut q.clusters[0].backend { b2.conn.wu = WuPolicy::eager(); } out.push(q);
                let mut q = p.clone(); if let MuxBackend::H2(b2) = &mut q.clusters[0].backend { b2.conn.settings = SettingsSpec::default(); } out.push(q);
                let mut q = p.clone(); if let MuxBackend::H2(b2) = &mut q.clusters[0].backend { b2.conn.hpack = HpackStyle::default(); } out.push(q);
            }
            for (id, r) in &b.responses {
                if r.body.len > 1 { let mut q = p.clone(); if let MuxBackend::H2(b2) = &mut q.clusters[0].backend { b2.responses.get_mut(id).unwrap().body = BodyPlan::of(r.body.len / 2); } out.push(q); }
            }
        }
        MuxBackend::H1(b) => {
            if !b.pace.is_greedy() { let mut q = p.clone(); if let MuxBackend::H1(b2) = &mut q.clusters[0].backend { b2.pace = Pace::greedy(); } out.push(q); }
            for (id, r) in &b.responses {
                let n = r.body.len();
                if n > 1 { let mut q = p.clone(); if let MuxBackend::H1(b2) = &mut q.clusters[0].backend { b2.responses.get_mut(id).unwrap().body = BodySpec::Cl(n / 2); } out.push(q); }
            }
        }
    }
    let mut q = p.clone();
    q.sched.ev_truncate_pm = 0; q.sched.ev_permute_pm = 0; q.sched.preempt_pm = 0; q.sched.short_write_pm = 0; q.sched.eagain_pm = 0; q.sndbufs = None;
    if serde_json::to_string(&q).unwrap() != serde_json::to_string(p).unwrap() { out.push(q); }
    if p.knobs.buffer_size != 16393 { let mut q = p.clone(); q.knobs.buffer_size = 16393; out.push(q); }
    out
}

pub fn debug_mux(p: &MuxPlan) -> String {
    let o = run_mux(p, true);
    let mut s = String::new();
    for l in &o.log { s += l; s.push('\n'); }
    s += &format!("{}\n", summarize(p));
    for rec in &o.h2_clients { s += &format!("H2 CLIENT: {}\n", summarize_record(rec)); }
    for (i, c) in o.h1_clients.iter().enumerate() { s += &format!("H1 CLIENT {i}: {:?} responses={:?}\n", c.rec, c.responses.iter().map(|m| (m.start.clone(), m.body_len, m.complete)).collect::<Vec<_>>()); }
    match &o.backends[0] {
        BackendRecords::H2(recs) => for r in recs { s += &format!("H2 BACKEND conn {}: {}\n", r.idx, summarize_record(r)); },
        BackendRecords::H1(recs) => for r in recs { s += &format!("H1 BACKEND conn {}: eof={} err={:?} requests={:?} parse_error={:?}\n", r.idx, r.eof, r.io_err, r.requests.iter().map(|m| (m.start.clone(), m.body_len, m.complete)).collect::<Vec<_>>(), r.parse_error); },
    }
    s += &format!("panicked={:?} aborted={:?} boot={:?} config_failures={:?}\n", o.panicked, o.aborted, o.boot_error, o.config_failures);
    s
}

pub fn mux_probes(o: &MuxOutcome, rep: &mut RunReport) {
    let mut add = |k: &str, n: u64| { *rep.probes.entry(k.to_string()).or_insert(0) += n; };
    let mut recs: Vec<&H2ConnRecord> = o.h2_clients.iter().collect();
    if let BackendRecords::H2(r) = &o.backends[0] { recs.extend(r.iter()); }
    for r in recs {
        add("h2_conn_window_zero_hits", r.counters.conn_window_zero_hits);
        add("h2_stream_window_zero_hits", r.counters.stream_window_zero_hits);
        add("h2_negative_window_settings_applied", r.counters.negative_window_settings_applied);
        add("h2_send_blocked_by_sozu_window", r.counters.send_blocked_conn + r.counters.send_blocked_stream);
        add("h2_window_updates_sent", r.counters.window_updates_sent);
        add("h2_streams_opened_by_sozu", r.counters.streams_opened_by_peer);
        add("h2_goaways_from_sozu", r.goaways.len() as u64);
        add("h2_rst_from_sozu", r.rst_recv.len() as u64);
        if r.counters.max_frame_seen > 16384 { add("h2_frames_over_16384_seen", 1); }
    }
}

impl Property for C14 {
    fn id(&self) -> &'static str { "C14" }
    fn runs(&self, tier: Tier) -> u64 { match tier { Tier::Quick => 8000, Tier::Thorough => 150000 } }
    fn gen_plan(&self, seed: u64, tier: Tier) -> Value { serde_json::to_value(gen_mux(seed, tier, Focus::Limits, "c14")).unwrap() }
    fn run_plan(&self, plan: &Value) -> RunReport {
        let p: MuxPlan = match serde_json::from_value(plan.clone()) { Ok(p) => p, Err(e) => return RunReport { harness_error: Some(format!("bad plan: {e}")), ..Default::default() } };
        let o = run_mux(&p, false);
        let mut violations = ledger_oracle(&p, &o);
        violations.extend(body_oracle(&p, &o));
        let mut rep = RunReport { seed: p.seed, family: p.family.clone(), violations, trace_hash: o.trace_hash, stats: o.stats.clone(), summary: summarize(&p), ..Default::default() };
        mux_probes(&o, &mut rep);
        let done = o.h2_clients.iter().map(|r| r.streams.values().filter(|s| s.recv_end).count()).sum::<usize>() + o.h1_clients.iter().map(|c| c.responses.len()).sum::<usize>();
        rep.nontrivial = done > 0;
        rep.probes.insert("responses_completed".into(), done as u64);
        if let Some(e) = o.boot_error { rep.harness_error = Some(format!("worker boot failed: {e}")); }
        if !o.config_failures.is_empty() { rep.harness_error = Some(format!("configuration refused: {:?}", o.config_failures)); }
        rep
    }
    fn shrink(&self, plan: &Value) -> Vec<Value> {
        let Ok(p) = serde_json::from_value::<MuxPlan>(plan.clone()) else { return vec![] };
        shrink_mux(&p).into_iter().map(|q| serde_json::to_value(q).unwrap()).collect()
    }
    fn debug_plan(&self, plan: &Value) -> String { debug_mux(&serde_json::from_value(plan.clone()).unwrap()) }
    fn descr(&self) -> Descr {
        Descr {
            level: "exploration",
            rule: "seeded plans over three protocol pairs (H2-over-TLS client / H1 backend, H1 client / h2c backend, H2 / h2c) with peer SETTINGS drawn from the legal ranges (initial window 1024..2^31-1, max frame 16384..2^24-1, max concurrent streams 1..100, header table 0..64k), mid-connection SETTINGS changes that shrink windows below in-flight data, WINDOW_UPDATE schedules (eager, drip, threshold, only-when-exhausted, late; stream vs connection independently; always eventually generous), HPACK styles, 1..5 concurrent streams, boundary-biased body sizes; the H2 peers are byte-accounting peers whose own ledgers (windows as granted, frame size, concurrent streams, stream ids, HPACK table) are the oracle, plus body integrity and a virtual-time liveness bound; non-trivial = at least one response completed; distinct = trace hashes",
            assumptions: vec!["AF_UNIX stands in for TCP", "release semantics", "WINDOW_UPDATE increments are kept above ~1/60 of the body (sozu documents a WINDOW_UPDATE flood detector)"],
            real: vec!["sozu_lib worker incl. mux H2 (h2.rs, converter, serializer, pkawa), rustls + ring (TLS termination)", "loona-hpack (inside sozu)"],
            stub: vec!["IP network", "clock", "entropy", "H2 client (own codec, own HPACK encoder, rustls client)", "h2c backend (own codec)", "master"],
            not_covered: vec!["stream-id space exhaustion (2^30 requests)", "initial window 0 and single-byte WINDOW_UPDATE drips (collide with the documented flood detector)"],
        }
    }
}
