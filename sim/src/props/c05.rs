//! C05 — a configuration survives every save / replay path unchanged.
//!
//! modelsim tier on `ConfigState`: along a seeded command history (cfggen) snapshots of the reachable state
//! are pushed through the four encodings in use and replayed on an empty instance:
//!   P1 `produce_initial_state()` (public wrapper of `generate_requests`) -> dispatch;
//!   P2 `write_requests_to_file` -> real file -> the `\n\0` JSON reader (`parser::parse_several_requests`
//!      driven by a copy of bin's private `load_state` loop over the real fixed `Buffer`) -> dispatch;
//!   P3 `write_initial_state_to_file` (protobuf) -> real file -> `read_initial_state_from_file` -> dispatch;
//!   P4 `sozu::command::upgrade::UpgradeData{state,..}` -> serde_json -> file -> `from_str` -> `.state`
//!      (what `CommandHub::from_upgrade_data` installs verbatim).
//! Encoding happens on one thread under one hash seed, decoding / replay on another thread under another
//! seed, so that a dependence on `HashMap` iteration order shows up and replays.
//!
//! Oracle (metamorphic, no model of the handlers needed): replay reports no error, and every map of the
//! replayed `ConfigState` equals the snapshot (explicit map-by-map comparison, `request_counts` excluded,
//! empty buckets normalised, order inside a bucket ignored).
#![allow(dead_code)]
use std::collections::{BTreeMap, BTreeSet};
use std::io::Read;
use std::path::PathBuf;

use serde_json::{json, Value};
use sozu_command_lib::buffer::fixed::Buffer;
use sozu_command_lib::parser::parse_several_requests;
use sozu_command_lib::proto::command::{InitialState, Request, WorkerRequest};
use sozu_command_lib::request::read_initial_state_from_file;
use sozu_command_lib::state::ConfigState;

use super::c07::err_name;
use super::cfggen::{self, delta_sig_fields, state_delta, GenOpts};
use crate::framework::*;
use crate::prng::{Prng, TraceHash};
use crate::world::{SchedCfg, World};

pub struct C05;

pub fn scratch_dir(tag: &str) -> PathBuf {
    static N: std::sync::atomic::AtomicU64 = std::sync::atomic::AtomicU64::new(0);
    let n = N.fetch_add(1, std::sync::atomic::Ordering::SeqCst);
    let d = verif_root().join("sim/target/tmp").join(format!("{tag}-{}-{n}", std::process::id()));
    let _ = std::fs::create_dir_all(&d);
    d
}

pub fn generate(seed: u64, tier: Tier) -> Value {
    let mut rng = Prng::derive(seed, "c05/plan");
    let mut o = GenOpts::swarm(&mut rng);
    o.symbolic_certs = true;
    let fam = match rng.below(8) {
        0 => { o.big_text_pm = 400; o.weights.insert(cfggen::Verb::AddCluster, 30); "big_records" }
        1 => { o.opt_pm = 800; "all_optionals" }
        2 => { o.opt_pm = 0; "no_optionals" }
        3 => { for v in [cfggen::Verb::AddCertificate, cfggen::Verb::ReplaceCertificate, cfggen::Verb::RemoveCertificate] { o.weights.insert(v, 25); } "certificate_heavy" }
        _ => "swarm",
    };
    let max = match tier { Tier::Quick => 40, Tier::Thorough => 150 };
    let len = *rng.pick(&[5usize, 10, 20, max]);
    let ops = cfggen::gen_history(&mut rng, len, &o);
    // snapshots: the final state always, plus up to two interior points
    let mut snaps: BTreeSet<usize> = BTreeSet::new();
    snaps.insert(len);
    for _ in 0..rng.below(3) { snaps.insert(1 + rng.below(len as u64) as usize); }
    // real files (fsync on disk) are ~20x slower than anonymous in-memory files: sample them
    let real_files = rng.chance(1, 10);
    json!({"seed": seed, "family": fam, "real_files": real_files, "enc_seed": rng.next_u64(), "dec_seed": rng.next_u64(), "snaps": snaps.into_iter().collect::<Vec<_>>(), "ops": cfggen::ops_to_value(&ops)})
}

struct Snap {
    at: usize,
    state: ConfigState,
    initial: InitialState,
    json_file: Result<(std::fs::File, usize), String>,
    pb_file: Result<(std::fs::File, usize), String>,
    upgrade_file: Result<std::fs::File, String>,
}

/// A file to write into: a real file under the scratch directory, or an anonymous in-memory file (memfd).
fn new_file(dir: &std::path::Path, name: &str, real: bool) -> Result<std::fs::File, String> {
    if real {
        std::fs::OpenOptions::new().read(true).write(true).create(true).truncate(true).open(dir.join(name)).map_err(|e| e.to_string())
    } else {
        use std::os::fd::FromRawFd;
        let fd = unsafe { libc::memfd_create(c"simk-c05".as_ptr(), libc::MFD_CLOEXEC) };
        if fd < 0 { return Err("memfd_create failed".into()); }
        Ok(unsafe { std::fs::File::from_raw_fd(fd) })
    }
}
fn rewind(mut f: std::fs::File) -> Result<std::fs::File, String> {
    use std::io::Seek;
    f.rewind().map_err(|e| e.to_string())?;
    Ok(f)
}

fn encode(ops: Vec<Request>, snaps: Vec<usize>, seed: u64, dir: PathBuf, real: bool) -> (Vec<Snap>, Vec<bool>) {
    crate::netsim::on_fresh_thread(move || {
        let mut w = World::new(seed, SchedCfg::default());
        World::install(&mut w);
        let mut state = ConfigState::new();
        let mut out = Vec::new();
        let mut acc = Vec::new();
        let config = sozu_command_lib::config::Config::default();
        for (i, r) in ops.iter().enumerate() {
            acc.push(state.dispatch(r).is_ok());
            if snaps.contains(&(i + 1)) {
                let snapshot = state.clone();
                let initial = snapshot.produce_initial_state();
                let json_file = new_file(&dir, &format!("state-{i}.json"), real).and_then(|mut f| { let n = snapshot.write_requests_to_file(&mut f).map_err(|e| e.to_string())?; Ok((rewind(f)?, n)) });
                let pb_file = new_file(&dir, &format!("initial-{i}.pb"), real).and_then(|mut f| { let n = snapshot.write_initial_state_to_file(&mut f).map_err(|e| e.to_string())?; Ok((rewind(f)?, n)) });
                let data = sozu::command::upgrade::UpgradeData { command_socket_fd: -1, config: config.clone(), next_client_id: 1, next_session_id: 2, next_task_id: 3, next_worker_id: 4, workers: vec![], state: snapshot.clone(), boot_generation: 0 };
                // as bin/src/upgrade.rs: serialize to a string, write it to a file, rewind, hand the descriptor over
                let upgrade_file = serde_json::to_string(&data).map_err(|e| format!("serialize: {e}")).and_then(|s| { use std::io::Write; let mut f = new_file(&dir, &format!("upgrade-{i}.json"), real)?; f.write_all(s.as_bytes()).map_err(|e| e.to_string())?; rewind(f) });
                out.push(Snap { at: i + 1, state: snapshot, initial, json_file, pb_file, upgrade_file });
            }
        }
        World::uninstall();
        (out, acc)
    })
}

/// Copy of the reading loop of bin's (private) `command::requests::load_state`, over the real `Buffer` and the
/// real parser; returns the parsed requests or the error message `load_state` would report.
pub fn read_state_file(file: &mut std::fs::File) -> Result<Vec<WorkerRequest>, String> {
    let mut buffer = Buffer::with_capacity(200000);
    let mut all = Vec::new();
    loop {
        let previous = buffer.available_data();
        match file.read(buffer.space()) {
            Ok(n) => { buffer.fill(n); }
            Err(e) => return Err(format!("Error reading the saved state file: {e}")),
        }
        if buffer.available_data() == 0 { return Ok(all); }
        let mut offset = 0usize;
        match parse_several_requests::<WorkerRequest>(buffer.data()) {
            Ok((rest, requests)) => {
                if !rest.is_empty() && previous == buffer.available_data() { return Err("Error consuming load state message".into()); }
                offset = buffer.data().len() - rest.len();
                all.extend(requests);
            }
            Err(e) if e.is_incomplete() => {
                if buffer.available_data() == buffer.capacity() { return Err("message too big, stopping parsing".into()); }
            }
            Err(e) => return Err(format!("saved state parse error: {e:?}")),
        }
        buffer.consume(offset);
    }
}

#[derive(Default)]
struct Findings {
    /// (class, key base) -> (paths, first detail)
    by_key: BTreeMap<(String, String), (BTreeSet<&'static str>, String)>,
    compared: BTreeMap<&'static str, u64>,
}
impl Findings {
    fn add(&mut self, class: &str, key: String, path: &'static str, detail: String) {
        let e = self.by_key.entry((class.to_string(), key)).or_insert_with(|| (BTreeSet::new(), detail));
        e.0.insert(path);
    }
}

fn replay(reqs: impl Iterator<Item = Request>, path: &'static str, snap: &Snap, f: &mut Findings, th: &mut TraceHash) -> ConfigState {
    let mut s = ConfigState::new();
    for (n, r) in reqs.enumerate() {
        if let Err(e) = s.dispatch(&r) {
            th.mix(0xE0 + n as u64);
            f.add("replay_rejected", format!("{}|{}", cfggen::verb_name(&r), err_name(&e)), path, format!("snapshot after op #{}: replayed request #{n} ({}) was rejected: {e}", snap.at, cfggen::verb_name(&r)));
        }
    }
    s
}

fn compare(orig: &ConfigState, got: &ConfigState, path: &'static str, snap: &Snap, f: &mut Findings, th: &mut TraceHash) {
    *f.compared.entry(path).or_insert(0) += 1;
    let d = state_delta(orig, got, false);
    th.mix(d.len() as u64);
    // one finding per kind of difference (keys stay stable when several causes meet in one run)
    let mut seen: BTreeSet<String> = BTreeSet::new();
    for x in &d {
        if seen.insert(x.sig_fields()) {
            f.add("roundtrip_mismatch", x.sig_fields(), path, format!("snapshot after op #{}: replayed configuration differs from the snapshot: {} ({} differences in all: {})", snap.at, x.describe(), d.len(), delta_sig_fields(&d)));
        }
    }
}

struct Out { violations: Vec<Violation>, hash: u64, probes: BTreeMap<String, u64>, nontrivial: bool, herr: Option<String> }

fn run(ops: Vec<Request>, snaps: Vec<usize>, enc_seed: u64, dec_seed: u64, real: bool) -> Out {
    let dir = scratch_dir("c05");
    let (mut snapshots, acc) = encode(ops, snaps, enc_seed, dir.clone(), real);
    let out = crate::netsim::on_fresh_thread(move || {
        let mut w = World::new(dec_seed, SchedCfg::default());
        World::install(&mut w);
        let mut th = TraceHash::new();
        let mut f = Findings::default();
        let mut probes: BTreeMap<String, u64> = BTreeMap::new();
        let mut herr = None;
        let mut nontrivial = false;
        for a in &acc { th.mix(*a as u64); }
        probes.insert("ops_accepted".into(), acc.iter().filter(|a| **a).count() as u64);
        if real { *probes.entry("runs_with_real_files".into()).or_insert(0) += 1; }
        for snap in snapshots.iter_mut() {
            let (mut jf, mut pf, mut uf) = (std::mem::replace(&mut snap.json_file, Err(String::new())), std::mem::replace(&mut snap.pb_file, Err(String::new())), std::mem::replace(&mut snap.upgrade_file, Err(String::new())));
            let snap = &*snap;
            cfggen::state_hash(&snap.state, &mut th);
            let objects = cfggen::count_objects(&snap.state);
            *probes.entry("snapshots".into()).or_insert(0) += 1;
            *probes.entry("objects_round_tripped".into()).or_insert(0) += objects as u64;
            if !snap.state.certificates.is_empty() { *probes.entry("snapshots_with_certificates".into()).or_insert(0) += 1; }
            if snap.state.tcp_fronts.len() + snap.state.udp_fronts.len() > 1 { *probes.entry("snapshots_with_several_hashmap_buckets".into()).or_insert(0) += 1; }
            th.mix(snap.initial.requests.len() as u64);
            // P1 in-memory requests
            let s1 = replay(snap.initial.requests.iter().map(|r| r.content.clone()), "requests", snap, &mut f, &mut th);
            compare(&snap.state, &s1, "requests", snap, &mut f, &mut th);
            // P2 JSON state file
            match &mut jf {
                Err(e) => f.add("encode_failed", format!("state_file|{}", e.chars().take(40).collect::<String>()), "state_file", e.clone()),
                Ok((p, n)) => {
                    let size = p.metadata().map(|m| m.len()).unwrap_or(0);
                    if size > 200_000 { *probes.entry("state_files_larger_than_reader_buffer".into()).or_insert(0) += 1; }
                    match read_state_file(p) {
                        Err(e) => {
                            // plan-side trigger: one record larger than the reader's fixed buffer
                            let biggest = snap.initial.requests.iter().map(|r| serde_json::to_string(r).map(|s| s.len()).unwrap_or(0)).max().unwrap_or(0);
                            let trig = if biggest + 2 > 200_000 { "record_larger_than_reader_buffer" } else if biggest + 2 > 100_000 { "record_larger_than_half_reader_buffer" } else { "other" };
                            f.add("decode_failed", format!("state_file|{}|{trig}", e.split(':').next().unwrap_or("").chars().take(48).collect::<String>()), "state_file", format!("snapshot after op #{}: the saved state file ({size} bytes, largest record {biggest} bytes) cannot be read back: {e}", snap.at));
                        }
                        Ok(reqs) => {
                            if reqs.len() != *n { f.add("roundtrip_mismatch", "state_file_record_count".into(), "state_file", format!("wrote {n} records, read {}", reqs.len())); }
                            th.mix(reqs.len() as u64);
                            let s2 = replay(reqs.into_iter().map(|r| r.content), "state_file", snap, &mut f, &mut th);
                            compare(&snap.state, &s2, "state_file", snap, &mut f, &mut th);
                        }
                    }
                }
            }
            // P3 protobuf bootstrap blob
            match &mut pf {
                Err(e) => f.add("encode_failed", format!("initial_state|{}", e.chars().take(40).collect::<String>()), "initial_state", e.clone()),
                Ok((p, n)) => match read_initial_state_from_file(p).map_err(|e| e.to_string()) {
                    Err(e) => f.add("decode_failed", format!("initial_state|{}", e.chars().take(40).collect::<String>()), "initial_state", e),
                    Ok(init) => {
                        if init.requests.len() != *n { f.add("roundtrip_mismatch", "initial_state_record_count".into(), "initial_state", format!("wrote {n} records, read {}", init.requests.len())); }
                        let s3 = replay(init.requests.into_iter().map(|r| r.content), "initial_state", snap, &mut f, &mut th);
                        compare(&snap.state, &s3, "initial_state", snap, &mut f, &mut th);
                    }
                },
            }
            // P4 upgrade payload
            match &mut uf {
                Err(e) => f.add("encode_failed", format!("upgrade|{}", e.chars().take(60).collect::<String>()), "upgrade", e.clone()),
                Ok(p) => match { let mut s = String::new(); p.read_to_string(&mut s).map_err(|e| e.to_string()).map(|_| s) }.and_then(|s| serde_json::from_str::<sozu::command::upgrade::UpgradeData>(&s).map_err(|e| e.to_string())) {
                    Err(e) => f.add("decode_failed", format!("upgrade|{}", e.split(" at line").next().unwrap_or("").chars().take(60).collect::<String>()), "upgrade", format!("snapshot after op #{}: upgrade payload does not deserialize: {e}", snap.at)),
                    Ok(data) => {
                        if data.next_client_id != 1 || data.next_task_id != 3 { herr = Some("upgrade payload lost its counters".to_string()); }
                        compare(&snap.state, &data.state, "upgrade", snap, &mut f, &mut th);
                    }
                },
            }
            if objects >= 3 { nontrivial = true; }
        }
        World::uninstall();
        for (p, n) in &f.compared { probes.insert(format!("path_compared/{p}"), *n); }
        let mut violations = Vec::new();
        for ((class, key), (paths, detail)) in f.by_key {
            // a failure that shows on the in-memory path is not an encoding problem: one key whatever else failed
            let p: Vec<&str> = paths.into_iter().collect();
            let suffix = if p.contains(&"requests") { "any_path".to_string() } else { format!("paths={}", p.join("+")) };
            violations.push(Violation::new(&class, format!("{key}|{suffix}"), detail));
        }
        Out { violations, hash: th.0, probes, nontrivial, herr }
    });
    let _ = std::fs::remove_dir_all(&dir);
    out
}

impl Property for C05 {
    fn id(&self) -> &'static str { "C05" }
    fn runs(&self, tier: Tier) -> u64 { match tier { Tier::Quick => 20_000, Tier::Thorough => 1_000_000 } }
    fn gen_plan(&self, seed: u64, tier: Tier) -> Value {
        // cluster tier (c05_cluster.rs): one seed in a hundred boots the real main process and real workers
        if Prng::derive(seed, "c05/cluster-tier").below(100) == 0 { return super::c05_cluster::generate(seed, tier); }
        if let Some(p) = super::hubcfg::dispatch_gen("C05", seed, tier) { return p; } // hubcfg: main-process tier
        generate(seed, tier)
    }
    fn run_plan(&self, plan: &Value) -> RunReport {
        if let Some(r) = super::hubcfg::dispatch_run(plan) { return r; } // hubcfg
        if plan["family"].as_str().unwrap_or("").starts_with("cluster_bootstrap") { return super::c05_cluster::run(plan, false).0; }
        let ops = match cfggen::ops_from_value(&plan["ops"]) { Ok(o) => o, Err(e) => return RunReport { harness_error: Some(format!("bad plan: {e}")), ..Default::default() } };
        let mut snaps: Vec<usize> = plan["snaps"].as_array().map(|a| a.iter().filter_map(|x| x.as_u64()).map(|x| x as usize).collect()).unwrap_or_default();
        // after shrinking the history may be shorter than the snapshot indices: always snapshot the end
        snaps.retain(|s| *s >= 1 && *s <= ops.len());
        if !snaps.contains(&ops.len()) { snaps.push(ops.len()); }
        let summary = format!("snaps@{:?} {}", snaps, cfggen::summarize_ops(&ops));
        // plan-level trigger of the recorded finding CFG-S2 (ReplaceCertificate stores an unvalidated certificate): keys about
        // certificates say whether the history contains a ReplaceCertificate at all, so that the finding cannot hide a
        // certificate lost on a save / replay path of a history without one
        let has_replace = ops.iter().any(|r| matches!(r.request_type, Some(sozu_command_lib::proto::command::request::RequestType::ReplaceCertificate(_))));
        let mut o = run(ops, snaps, plan["enc_seed"].as_u64().unwrap_or(0), plan["dec_seed"].as_u64().unwrap_or(1), plan["real_files"].as_bool().unwrap_or(true));
        for v in o.violations.iter_mut() {
            if v.key.to_ascii_lowercase().contains("certificate") { v.key = format!("{}|{}", v.key, if has_replace { "replace_certificate_in_history" } else { "no_replace_certificate" }); }
        }
        let mut rep = RunReport { seed: plan["seed"].as_u64().unwrap_or(0), family: plan["family"].as_str().unwrap_or("").into(), violations: o.violations, trace_hash: o.hash, summary, ..Default::default() };
        rep.nontrivial = o.nontrivial;
        rep.probes = o.probes;
        rep.harness_error = o.herr;
        rep
    }
    fn shrink(&self, plan: &Value) -> Vec<Value> {
        if let Some(c) = super::hubcfg::dispatch_shrink(plan) { return c; } // hubcfg
        if plan["family"].as_str().unwrap_or("").starts_with("cluster_bootstrap") { return super::c05_cluster::shrink(plan); }
        let mut out: Vec<Value> = Vec::new();
        // fewer snapshots first
        if let Some(s) = plan["snaps"].as_array() { if s.len() > 1 { for i in 0..s.len() { let mut p = plan.clone(); let mut t = s.clone(); t.remove(i); p["snaps"] = Value::Array(t); out.push(p); } } }
        out.extend(cfggen::shrink_ops(&plan["ops"]).into_iter().map(|ops| { let mut p = plan.clone(); p["ops"] = ops; p }));
        out
    }
    fn debug_plan(&self, plan: &Value) -> String {
        if let Some(d) = super::hubcfg::dispatch_debug(plan) { return d; } // hubcfg
        if plan["family"].as_str().unwrap_or("").starts_with("cluster_bootstrap") { return super::c05_cluster::run(plan, true).1; }
        let Ok(ops) = cfggen::ops_from_value(&plan["ops"]) else { return "bad plan".into() };
        let mut st = ConfigState::new();
        let mut s = String::new();
        for (i, r) in ops.iter().enumerate() { s += &format!("#{i} {} -> {:?}\n", cfggen::verb_name(r), st.dispatch(r).map_err(|e| e.to_string())); }
        s += &format!("final state: {st:#?}\n");
        s
    }
    fn descr(&self) -> Descr {
        Descr {
            level: "exploration",
            rule: "seeded command histories over every mutating ConfigState verb (swarm: alphabets, verb mix, optional-field density, record sizes, certificate density); 1-3 snapshots per history pushed through all four save/replay paths, encoded under one hash seed and replayed under another; a run is non-trivial when a snapshot with >=3 objects went through all paths; distinct = distinct (acceptance pattern, snapshot content, per-path outcome) hashes",
            assumptions: vec!["release semantics (debug assertions off)", "`request_counts` is a census, not configuration", "an empty bucket equals an absent one; order inside a bucket is not configuration"],
            real: vec!["cluster tier: CommandHub::run + fork_main_into_worker (parent branch) + begin_worker_process + Server::run, UpgradeWorker orchestration", "hub tier: CommandHub::run, save_state / load_state / generate_upgrade_data / from_upgrade_data", "ConfigState::{dispatch, produce_initial_state, write_requests_to_file, write_initial_state_to_file}", "parser::parse_several_requests + buffer::fixed::Buffer", "request::read_initial_state_from_file (prost)", "sozu::command::upgrade::UpgradeData serde round trip", "real files on disk (fsync) in a tenth of the runs, anonymous in-memory files (memfd) otherwise"],
            stub: vec!["bin's private load_state loop (copied around the real parser/buffer)", "CommandHub::from_upgrade_data (takes `.state` verbatim; needs fds)", "clock", "entropy"],
            not_covered: vec!["crash consistency of the state file (not claimed)"],
        }
    }
}
