//! C10 tier 3 (`cluster`) — worker upgrade orchestrated by the REAL main process.
//!
//! The real `CommandHub::run` and real workers (bootstrapped by the real `fork_main_into_worker` parent
//! branch + `begin_worker_process`, see clustersim.rs) run in one simulation. A scripted CLI client on the
//! hub's unix command socket configures the proxy through the hub (listeners, cluster, frontends, backend),
//! H1 clients and an H1 backend carry traffic, and at a seeded moment the CLI sends `UpgradeWorker(0)`:
//! `bin/src/command/upgrade.rs` then requests the listen sockets from the old worker, reads them from the
//! SCM socket, forks a new worker that boots from the *state file*, soft-stops the old worker and activates
//! the listeners on the new one. A probe client that starts only after the CLI has read the final answer
//! must be served (by the new worker, whose whole configuration came through the bootstrap blob).
use std::any::Any;
use std::net::SocketAddr;
use std::sync::{Arc, Mutex};

use prost::Message;
use serde::{Deserialize, Serialize};
use sozu_command_lib::proto::command::{
    request::RequestType, response_content::ContentType, HardStop, QueryClustersHashes, Request, Response, ResponseStatus,
};

use super::c01;
use super::c10_handover::{self, HandoverPlan};
use crate::actors::h1::*;
use crate::actors::{rd, wr, Io, Pace};
use crate::clustersim::{self, ClusterKnobs, ForceStop};
use crate::framework::*;
use crate::hubsim::frame;
use crate::netsim;
use crate::prng::Prng;
use crate::scenario::*;
use crate::sys;
use crate::world::{Actor, ConnectMode, Step, World, MS, SEC};

#[derive(Clone, Debug, Serialize, Deserialize)]
pub struct ClusterPlanC10 {
    pub base: HandoverPlan,
    pub worker_timeout: u32,
    /// a client that connects only after the CLI has read the final answer of the upgrade
    pub probe: ClientPlan,
    /// ask the hub for the workers' cluster hashes before and after the upgrade
    pub query_hashes: bool,
    /// virtual time the successor needs between fork and its first instruction (exec and start-up of a real process)
    #[serde(default)]
    pub successor_boot_delay_ns: u64,
}

pub fn generate(seed: u64, tier: Tier) -> ClusterPlanC10 {
    let mut base = c10_handover::generate(seed, tier);
    let mut rng = Prng::derive(seed, "c10/cluster");
    base.family = base.family.replace("handover", "cluster");
    // the scripted-master knobs do not exist here: the real master decides
    base.boot_delay_ns = 0;
    base.softstop_first = true;
    let id = 9000u64;
    let mut r = ReqSpec::get(id, "c0.test", "/probe/after-upgrade");
    r.headers.push(("Content-Length".into(), "0".into()));
    base.backend.responses.insert(id, RespSpec::ok(BodySpec::Cl(17 + rng.below(2000) as usize)));
    let probe = ClientPlan {
        name: "probe".into(), src: "192.0.2.200:41000".parse().unwrap(), dst: *rng.pick(&base.listeners), start_ns: rng.below(3) * MS, pace: Pace::greedy(), pipeline: false,
        requests: vec![r], abort: None, sndbuf: None, think_ns: 0, linger_ns: 0, give_up_ns: 60 * SEC, wait_board: Some("upgraded".into()),
    };
    { let query_hashes = rng.below(2) == 0; let d = *rng.pick(&[0u64, 0, 2, 20, 80]) * MS; ClusterPlanC10 { base, worker_timeout: *rng.pick(&[10u32, 10, 30]), probe, query_hashes, successor_boot_delay_ns: d } }
}

// ------------------------------------------------------------------ the CLI controller

#[derive(Clone, Debug, Default)]
pub struct CtlRecord {
    pub connect_error: Option<i32>,
    pub config_failures: Vec<String>,
    pub t_configured: u64,
    pub t_upgrade_sent: u64,
    /// (time, status, message) of every answer to UpgradeWorker
    pub upgrade_answers: Vec<(u64, i32, String)>,
    pub t_upgrade_final: u64,
    pub t_softstop_notice: u64,
    pub t_old_ack_notice: u64,
    pub hashes_before: Option<String>,
    pub hashes_after: Option<String>,
    pub stop_answers: Vec<(u64, i32, String)>,
    pub eof_at: Option<u64>,
    pub forced: bool,
    pub phase: u8,
    pub garbage: Option<String>,
}

struct Ctl {
    plan: ClusterPlanC10,
    sock_name: Vec<u8>,
    force: ForceStop,
    fd: i32,
    rec: Arc<Mutex<CtlRecord>>,
    phase: u8,
    queue: Vec<Request>,
    out: Vec<u8>,
    inbuf: Vec<u8>,
    awaiting: bool,
    finals: Vec<Response>,
    nclients: i64,
    hard_deadline: u64,
    step_deadline: u64,
}

impl Ctl {
    fn send(&mut self, r: Request) { self.out.extend_from_slice(&frame(&r)); self.awaiting = true; }
    /// returns (progressed, responses)
    fn pump(&mut self, w: &mut World) -> (bool, Vec<Response>) {
        let mut progressed = false;
        while !self.out.is_empty() {
            match wr(self.fd, &self.out) {
                Io::N(n) => { self.out.drain(..n); progressed = true; }
                Io::WouldBlock => break,
                _ => { self.out.clear(); self.rec.lock().unwrap().eof_at.get_or_insert(w.now); }
            }
        }
        let mut buf = [0u8; 16384];
        loop {
            match rd(self.fd, &mut buf) {
                Io::N(n) => { progressed = true; self.inbuf.extend_from_slice(&buf[..n]); }
                Io::WouldBlock => break,
                _ => { let mut r = self.rec.lock().unwrap(); if r.eof_at.is_none() { r.eof_at = Some(w.now); progressed = true; } break; }
            }
        }
        let mut got = Vec::new();
        loop {
            if self.inbuf.len() < 8 { break; }
            let len = u64::from_le_bytes(self.inbuf[..8].try_into().unwrap()) as usize;
            if len < 8 || len > 64 << 20 { self.rec.lock().unwrap().garbage = Some(format!("bad frame length {len}")); self.inbuf.clear(); break; }
            if self.inbuf.len() < len { break; }
            let f: Vec<u8> = self.inbuf.drain(..len).collect();
            match Response::decode(&f[8..]) {
                Ok(r) => { w.tr(0x63, r.status as u64); got.push(r); }
                Err(e) => { self.rec.lock().unwrap().garbage = Some(format!("undecodable response: {e}")); }
            }
        }
        (progressed, got)
    }
}

fn hashes_of(r: &Response) -> String {
    // worker-id -> sorted (cluster, hash): rendered through Debug of the protobuf content, which is a BTreeMap
    match r.content.as_ref().and_then(|c| c.content_type.as_ref()) {
        Some(ContentType::WorkerResponses(wr)) => {
            let mut per: Vec<String> = wr.map.iter().map(|(_, c)| format!("{:?}", c.content_type)).collect();
            per.sort();
            per.join(" | ")
        }
        other => format!("{other:?}"),
    }
}

impl Actor for Ctl {
    fn name(&self) -> String { "cli".into() }
    fn as_any(&mut self) -> &mut dyn Any { self }
    fn as_any_ref(&self) -> &dyn Any { self }
    fn class(&self) -> u8 { 2 }
    fn step(&mut self, w: &mut World) -> Step {
        if self.phase == 99 { return Step::Done; }
        if self.fd < 0 {
            let fd = match sys::socket(libc::AF_UNIX, libc::SOCK_STREAM | libc::SOCK_NONBLOCK | libc::SOCK_CLOEXEC, 0) { Ok(fd) => fd, Err(e) => { self.rec.lock().unwrap().connect_error = Some(e); self.force.fire(); self.phase = 99; return Step::Done; } };
            if let Err(e) = sys::connect_abstract(fd, &self.sock_name) { sys::close(fd); self.rec.lock().unwrap().connect_error = Some(e); self.force.fire(); self.phase = 99; return Step::Done; }
            self.fd = fd;
            self.hard_deadline = w.now + 600 * SEC;
            self.queue = c10_handover::config_requests(&self.plan.base);
            self.queue.reverse();
            return Step::Progress;
        }
        let (mut progressed, got) = self.pump(w);
        let rec_arc = self.rec.clone();
        let mut rec = rec_arc.lock().unwrap();
        rec.phase = self.phase;
        // emergency exits: the hub is gone, the run was aborted, or nothing moved for far too long
        if (rec.eof_at.is_some() && self.phase < 9) || w.aborted.is_some() || w.now > self.hard_deadline {
            if rec.eof_at.is_none() { rec.forced = true; self.force.fire(); }
            drop(rec);
            w.board_set("configured", 1); w.board_set("upgraded", 1); w.board_set("end", 1);
            if self.fd >= 0 { sys::close(self.fd); self.fd = -1; }
            self.phase = 99;
            return Step::Done;
        }
        for r in got {
            let fin = r.status != ResponseStatus::Processing as i32;
            match self.phase {
                0 => { if fin { if r.status != ResponseStatus::Ok as i32 { rec.config_failures.push(r.message.clone()); } self.awaiting = false; } }
                2 | 6 => { if fin { let h = hashes_of(&r); if self.phase == 2 { rec.hashes_before = Some(h); } else { rec.hashes_after = Some(h); } self.awaiting = false; } }
                4 => {
                    rec.upgrade_answers.push((w.now, r.status, r.message.clone()));
                    if r.message.contains("Soft stopping worker") && rec.t_softstop_notice == 0 { rec.t_softstop_notice = w.now; }
                    if r.message.contains("is processing") && rec.t_old_ack_notice == 0 { rec.t_old_ack_notice = w.now; }
                    if fin { rec.t_upgrade_final = w.now; self.awaiting = false; }
                }
                8 => { rec.stop_answers.push((w.now, r.status, r.message.clone())); if fin { self.awaiting = false; } }
                _ => {}
            }
            progressed = true;
        }
        if self.awaiting {
            if w.now > self.step_deadline && self.step_deadline > 0 {
                // no final answer within the patience of this step: carry on (the oracle reports it)
                self.awaiting = false;
            } else {
                return if progressed { Step::Progress } else { Step::Idle(self.step_deadline.max(w.now + 50 * MS)) };
            }
        }
        let patience = (self.plan.worker_timeout as u64 + 30) * SEC;
        match self.phase {
            0 => {
                if let Some(r) = self.queue.pop() { self.send(r); self.step_deadline = w.now + patience; return Step::Progress; }
                rec.t_configured = w.now;
                drop(rec);
                w.board_set("configured", 1);
                self.phase = 1;
                Step::Progress
            }
            1 => {
                let at = rec.t_configured + self.plan.base.handover_at_ns;
                if w.now < at { return Step::Idle(at); }
                self.phase = if self.plan.query_hashes { 2 } else { 3 };
                if self.plan.query_hashes { self.send(RequestType::QueryClustersHashes(QueryClustersHashes {}).into()); self.step_deadline = w.now + patience; }
                Step::Progress
            }
            2 => { self.phase = 3; Step::Progress }
            3 => {
                self.send(RequestType::UpgradeWorker(0).into());
                rec.t_upgrade_sent = w.now;
                // the second phase of the upgrade has no timeout of its own: it ends when the old worker has drained
                self.step_deadline = w.now + 200 * SEC;
                self.phase = 4;
                Step::Progress
            }
            4 => {
                drop(rec);
                w.board_set("upgraded", 1);
                self.phase = 5;
                Step::Progress
            }
            5 => {
                // wait for every traffic client and the probe
                if w.board_get("clients_done") >= self.nclients {
                    self.phase = if self.plan.query_hashes { 6 } else { 7 };
                    if self.plan.query_hashes { self.send(RequestType::QueryClustersHashes(QueryClustersHashes {}).into()); self.step_deadline = w.now + patience; }
                    return Step::Progress;
                }
                if progressed { Step::Progress } else { Step::Idle(w.now + 100 * MS) }
            }
            6 => { self.phase = 7; Step::Progress }
            7 => {
                self.send(RequestType::HardStop(HardStop {}).into());
                self.step_deadline = w.now + patience;
                self.phase = 8;
                Step::Progress
            }
            8 => { self.phase = 9; Step::Progress }
            _ => {
                // keep reading until the hub closes the connection
                if rec.eof_at.is_some() { drop(rec); w.board_set("end", 1); if self.fd >= 0 { sys::close(self.fd); self.fd = -1; } self.phase = 99; return Step::Done; }
                if progressed { Step::Progress } else { Step::Idle(w.now + 100 * MS) }
            }
        }
    }
}
impl Drop for Ctl { fn drop(&mut self) { if self.fd >= 0 { sys::close(self.fd); } } }

// ------------------------------------------------------------------ run + oracle

pub fn run(p: &ClusterPlanC10, log: bool) -> (RunReport, String) {
    let p = p.clone();
    netsim::on_fresh_thread(move || {
        let b = &p.base;
        let mut w = World::new(b.seed, b.sched.clone());
        w.log_on = log;
        w.sndbuf_choices = b.sndbufs.clone();
        let knobs = ClusterKnobs { worker: b.knobs.clone(), worker_timeout: p.worker_timeout, workers: 1, automatic_restart: false, boot_delays: vec![0, p.successor_boot_delay_ns] };
        let rec = Arc::new(Mutex::new(CtlRecord::default()));
        let mut ids: (usize, usize, Vec<usize>, usize) = (0, 0, vec![], 0);
        let nclients = b.clients.len() as i64 + 1;
        let end = {
            let (rec2, p2, ids_ref) = (rec.clone(), p.clone(), &mut ids);
            clustersim::run_cluster(&mut w, &knobs, move |w, env| {
                let b = &p2.base;
                let ctl = Ctl { plan: p2.clone(), sock_name: env.sock_name.clone(), force: env.force, fd: -1, rec: rec2, phase: 0, queue: vec![], out: vec![], inbuf: vec![], awaiting: false, finals: vec![], nclients, hard_deadline: 0, step_deadline: 0 };
                ids_ref.0 = w.add_actor(Box::new(ctl));
                w.topo.insert(b.backend.addr, ConnectMode::Listen { delay_ns: 0 });
                ids_ref.1 = w.add_actor(Box::new(H1Backend::new(b.backend.clone(), Prng::derive(b.seed, "backend"))));
                w.prime_actor(ids_ref.1);
                for c in &b.clients { ids_ref.2.push(w.add_actor(Box::new(H1Client::new(c.clone(), Prng::derive(b.seed, &format!("client/{}", c.name)))))); }
                ids_ref.3 = w.add_actor(Box::new(H1Client::new(p2.probe.clone(), Prng::derive(b.seed, "client/probe"))));
            })
        };
        World::install(&mut w);
        let (_ctl_id, bid, cids, probe_id) = ids;
        let mut rep = RunReport { seed: b.seed, family: b.family.clone(), ..Default::default() };
        let r = rec.lock().unwrap().clone();
        let mut v = Vec::new();
        // ---------------- harness-level failures
        if let Some(e) = &end.boot_error { rep.harness_error = Some(format!("cluster boot failed: {e}")); }
        if let Some(e) = r.connect_error { rep.harness_error = Some(format!("CLI could not connect to the hub: errno {e}")); }
        if !r.config_failures.is_empty() { rep.harness_error = Some(format!("configuration through the hub failed: {:?}", r.config_failures)); }
        if let Some(g) = &r.garbage { v.push(Violation::new("panic", "hub_garbage_on_cli", g.clone())); }
        // ---------------- panics, exits
        if let Some(pn) = &end.hub_panicked { v.push(Violation::new("panic", "main_process", pn.clone())); }
        for wk in &end.workers {
            if let Some(pn) = &wk.panicked { v.push(Violation::new("panic", if wk.worker_index == 0 { "old_worker" } else { "new_worker" }, pn.clone())); }
            if let Some(e) = &wk.error { v.push(Violation::new("listener_lost", if wk.worker_index == 0 { "worker_boot_failed" } else { "successor_boot_failed" }, e.clone())); }
        }
        if let Some(a) = &w.aborted { v.push(Violation::new("no_exit", a.clone(), format!("run aborted: {a} (cli phase {})", r.phase))); }
        if r.forced && w.aborted.is_none() { v.push(Violation::new("no_exit", "main_process_forced", format!("the main process had to be pushed out of run() (cli phase {})", r.phase))); }
        let upgrade_ran = r.t_upgrade_sent > 0;
        if upgrade_ran && rep.harness_error.is_none() {
            // ---------------- the verdict of the upgrade and what happened
            let fin = r.upgrade_answers.iter().filter(|a| a.1 != ResponseStatus::Processing as i32).collect::<Vec<_>>();
            if fin.len() != 1 { v.push(Violation::new("stop_ack_count", format!("upgrade_finals={}", fin.len()), format!("UpgradeWorker got {} final answers: {:?}", fin.len(), r.upgrade_answers))); }
            let ok = fin.first().map(|a| a.1 == ResponseStatus::Ok as i32).unwrap_or(false);
            if !ok { v.push(Violation::new("listener_lost", "upgrade_refused", format!("UpgradeWorker did not succeed: {:?}", r.upgrade_answers.last()))); }
            if end.workers.len() != 2 { v.push(Violation::new("listener_lost", format!("workers_forked={}", end.workers.len()), format!("expected the original worker and one successor, the main process forked {} worker(s)", end.workers.len()))); }
            if ok {
                // the old worker is gone (it answered SoftStop with its final OK only after its last session)
                if let Some(old) = end.workers.first() {
                    match old.t_exit { Some(t) if t <= end.t_hub_return => {}, _ => v.push(Violation::new("no_exit", "old_worker_still_running", "the old worker had not left its event loop when the main process stopped".to_string())) }
                }
                // the old worker accepts nothing after the CLI has been told that it acknowledged the stop
                if let (Some(old), true) = (end.workers.first(), r.t_old_ack_notice > 0) {
                    let late = w.accept_log.iter().filter(|(pr, t)| *pr == old.proc_id && *t > r.t_upgrade_final).count();
                    if late > 0 { v.push(Violation::new("accepted_after_stop_ack", "old_worker", format!("old worker accepted {late} connection(s) after the upgrade was reported finished"))); }
                }
            }
            // ---------------- workers' view before/after (the successor's configuration came through the state file)
            if let (Some(a), Some(b2)) = (&r.hashes_before, &r.hashes_after) {
                if ok && a != b2 { v.push(Violation::new("listener_lost", "cluster_hashes_differ_after_upgrade", format!("workers' cluster hashes before: {a}; after: {b2}"))); }
            }
        }
        // ---------------- (ii)+(iv): every connection attempt succeeded and every request was served completely
        let hp = HttpPlan { seed: b.seed, family: b.family.clone(), knobs: b.knobs.clone(), sched: b.sched.clone(), front: b.listeners[0], clusters: vec![ClusterPlan { id: "c0".into(), host: "c0.test".into(), backends: vec![(b.backend.clone(), BackendMode::Listen { delay_ns: 0 })] }], clients: { let mut c = b.clients.clone(); c.push(p.probe.clone()); c }, sndbufs: None, settle_ns: 0, extra_frontends: vec![] };
        let mut ho = HttpOutcome::default();
        let all_ids: Vec<usize> = cids.iter().copied().chain(std::iter::once(probe_id)).collect();
        for (i, id) in all_ids.iter().enumerate() {
            let c: &H1Client = w.actor_ref(*id);
            if let Some(e) = c.rec.connect_err { if rep.harness_error.is_none() { v.push(Violation::new("listener_lost", "connect_refused", format!("client {} could not connect to {} (errno {e}) at +{} ms", hp.clients[i].name, hp.clients[i].dst, (c.rec.t_end.saturating_sub(r.t_configured)) / MS))); } }
            ho.clients.push(ClientOutcome { rec: c.rec.clone(), responses: c.responses().clone(), partial: c.partial().cloned(), interim: c.parser.interim });
        }
        { let bk: &H1Backend = w.actor_ref(bid); ho.backends.push(vec![bk.all_records()]); }
        let t_hand = r.t_upgrade_sent;
        let t_new_active = if r.t_upgrade_final > 0 { r.t_upgrade_final } else { u64::MAX };
        let exempt = |ci: usize, ri: usize| -> bool {
            let c = &ho.clients[ci];
            if c.rec.connect_err.is_some() { return true; }
            if t_hand == 0 { return false; }
            let id = hp.clients[ci].requests[ri].id;
            let on_old = c.rec.t_connect < t_new_active;
            let seen_by_backend = ho.backends[0][0].iter().any(|bk| bk.requests.iter().chain(bk.partial.iter()).any(|q| q.sim_id == Some(id)));
            let answered = c.responses.len() > ri || c.partial.is_some();
            if on_old && !c.rec.sent_done.iter().any(|(i, _)| *i == id) && !seen_by_backend && !answered { return true; }
            match c.rec.sent_start.iter().find(|(i, _)| *i == id) {
                Some((_, t)) => on_old && *t >= t_hand && ri > 0,
                None => on_old && ri > 0,
            }
        };
        if rep.harness_error.is_none() {
            for viol in c01::oracle_filtered(&hp, &ho, &exempt) {
                let cls = if viol.class == "stall_needed_timer" { "in_flight_cut".to_string() } else { viol.class.clone() };
                v.push(Violation::new(if viol.class == "no_answer" || viol.class == "body_mismatch" || viol.class == "missing_terminator" { "in_flight_cut" } else { &cls }, format!("{}:{}", viol.class, viol.key), viol.detail));
            }
        }
        // probes
        let old_pid = end.workers.first().map(|x| x.proc_id).unwrap_or(usize::MAX);
        let by_old = w.accept_log.iter().filter(|(pr, _)| *pr == old_pid).count();
        let by_new = w.accept_log.iter().filter(|(pr, _)| *pr != old_pid).count();
        rep.probes.insert("accepted_by_old".into(), by_old as u64);
        rep.probes.insert("accepted_by_new".into(), by_new as u64);
        rep.probes.insert("upgrade_completed".into(), (r.t_upgrade_final > 0) as u64);
        rep.probes.insert("workers_forked".into(), end.workers.len() as u64);
        rep.probes.insert("connections_open_across_upgrade".into(), ho.clients.iter().filter(|c| c.rec.t_connect > 0 && c.rec.t_connect < r.t_upgrade_sent && c.rec.t_end > r.t_upgrade_sent).count() as u64);
        rep.probes.insert("connects_during_upgrade".into(), ho.clients.iter().filter(|c| c.rec.t_connect > r.t_upgrade_sent && c.rec.t_connect < r.t_upgrade_final).count() as u64);
        rep.nontrivial = r.t_upgrade_final > 0 && ho.clients.iter().any(|c| !c.responses.is_empty());
        rep.summary = format!("real main + workers; {} listeners {:?}, {} clients + probe, UpgradeWorker at +{} ms (took {} ms), worker_timeout {} s; accepted old/new {}/{}; workers forked {}", b.listeners.len(), b.listeners, b.clients.len(), b.handover_at_ns / MS, r.t_upgrade_final.saturating_sub(r.t_upgrade_sent) / MS, p.worker_timeout, by_old, by_new, end.workers.len());
        rep.violations = v;
        rep.trace_hash = w.trace.0;
        w.stats.virtual_ns = w.now.saturating_sub(1000 * SEC);
        rep.stats = w.stats.clone();
        let mut dbg = String::new();
        if log {
            for l in &w.log { dbg += l; dbg.push('\n'); }
            dbg += &format!("{r:#?}\n{end:#?}\naccept_log={:?}\n", w.accept_log);
            for (i, c) in ho.clients.iter().enumerate() { dbg += &format!("client {}: {:?} responses={:?}\n", hp.clients[i].name, c.rec, c.responses.iter().map(|m| (m.start.clone(), m.body_len, m.complete)).collect::<Vec<_>>()); }
            dbg += &format!("{}\n", serde_json::to_string_pretty(&rep.violations).unwrap());
        }
        drop(w);
        World::uninstall();
        (rep, dbg)
    })
}

pub fn shrink(p: &ClusterPlanC10) -> Vec<ClusterPlanC10> {
    let mut out: Vec<ClusterPlanC10> = c10_handover::shrink(&p.base).into_iter().map(|b| { let mut q = p.clone(); q.base = b; if !q.base.listeners.contains(&q.probe.dst) { q.probe.dst = q.base.listeners[0]; } q }).collect();
    if p.query_hashes { let mut q = p.clone(); q.query_hashes = false; out.push(q); }
    out
}

#[allow(dead_code)]
fn _unused(_: SocketAddr) {}
