//! C03 workload: grammar-based generator of HTTP/1.1 request byte streams (valid seeds + one
//! mutation operator per mutated element). Pure function of the PRNG; produces raw bytes and a label
//! (the label is plan-level information used in violation keys and probes, never an oracle input).
#![allow(dead_code)]

use crate::prng::Prng;

pub const HOST: &str = "c0.test";

#[derive(Clone, Debug)]
pub struct El {
    pub label: String,
    pub method: String,
    pub bytes: Vec<u8>,
}

struct B {
    line: Vec<u8>,
    hdrs: Vec<Vec<u8>>,
    body: Vec<u8>,
}
impl B {
    fn new(id: u64, method: &str, target: &str) -> B {
        B { line: format!("{method} {target} HTTP/1.1").into_bytes(), hdrs: vec![format!("Host: {HOST}").into_bytes(), format!("x-sim-id: {id}").into_bytes()], body: Vec::new() }
    }
    fn h(&mut self, l: &str) -> &mut B { self.hdrs.push(l.as_bytes().to_vec()); self }
    fn hb(&mut self, l: &[u8]) -> &mut B { self.hdrs.push(l.to_vec()); self }
    fn bytes(&self) -> Vec<u8> {
        let mut v = self.line.clone();
        v.extend_from_slice(b"\r\n");
        for h in &self.hdrs { v.extend_from_slice(h); v.extend_from_slice(b"\r\n"); }
        v.extend_from_slice(b"\r\n");
        v.extend_from_slice(&self.body);
        v
    }
    fn replace_host(&mut self, l: Option<&[u8]>) {
        self.hdrs.retain(|h| !h.to_ascii_lowercase().starts_with(b"host:"));
        if let Some(l) = l { self.hdrs.insert(0, l.to_vec()); }
    }
}

pub fn payload(id: u64, n: usize) -> Vec<u8> {
    (0..n).map(|i| b'a' + ((i as u64 * 7 + id) % 26) as u8).collect()
}

pub fn chunked(data: &[u8], sizes: &[usize], ext: &str) -> Vec<u8> {
    let mut out = Vec::new();
    let mut off = 0;
    for s in sizes {
        let s = (*s).min(data.len() - off);
        if s == 0 { continue; }
        out.extend_from_slice(format!("{s:x}{ext}\r\n").as_bytes());
        out.extend_from_slice(&data[off..off + s]);
        out.extend_from_slice(b"\r\n");
        off += s;
    }
    if off < data.len() {
        out.extend_from_slice(format!("{:X}\r\n", data.len() - off).as_bytes());
        out.extend_from_slice(&data[off..]);
        out.extend_from_slice(b"\r\n");
    }
    out
}

/// A complete, valid request that an attacker would like a backend to see on its own.
pub fn hidden(id: u64) -> Vec<u8> {
    format!("GET /hidden/{id} HTTP/1.1\r\nHost: {HOST}\r\nx-sim-id: {}\r\nContent-Length: 0\r\n\r\n", id + 500).into_bytes()
}

fn body_size(rng: &mut Prng) -> usize {
    match rng.below(12) {
        0 => 0,
        1..=6 => 1 + rng.below(40) as usize,
        7 | 8 => 100 + rng.below(2000) as usize,
        9 => *rng.pick(&[16384usize, 16393, 16300, 16500]),
        10 => 20000 + rng.below(30000) as usize,
        _ => 5,
    }
}

fn extras(rng: &mut Prng, b: &mut B) {
    let pool = ["Accept: */*", "User-Agent: simk/1.0", "X-Custom: a b  c", "Accept-Encoding: gzip, br", "X-Empty:", "x-lower: v", "Cache-Control: no-cache", "X-Tab:\tv\tw"];
    for _ in 0..rng.below(3) {
        let l = *rng.pick(&pool);
        b.h(l);
    }
}

/// A valid request. `lengthless`: a body-less request carries no Content-Length.
pub fn seed(rng: &mut Prng, id: u64, lengthless: bool) -> El {
    let kind = if lengthless { rng.below(3) } else { rng.below(16) };
    let path = format!("/r/{id}{}", *rng.pick(&["", "", "?q=1&r=%20x", "/a/b.c", ";p=1"]));
    let mut b;
    let label;
    match kind {
        0 | 1 | 2 => {
            let m = *rng.pick(&["GET", "GET", "HEAD", "OPTIONS", "DELETE"]);
            b = B::new(id, m, &path);
            extras(rng, &mut b);
            if !lengthless { b.h("Content-Length: 0"); }
            let mut l = if lengthless { format!("seed:{m}_lengthless") } else { format!("seed:{m}_cl0") };
            // a quarter of the length-less requests are HTTP/1.0 keep-alive requests: equally body-less
            // (RFC 9112 6.3), and equally followed by whatever the client pipelines behind them
            if lengthless && rng.below(4) == 0 {
                b.line = format!("{m} {path} HTTP/1.0").into_bytes();
                b.h("Connection: keep-alive");
                l = format!("seed:{m}_lengthless_http10");
            }
            label = l;
        }
        3..=6 => {
            let m = *rng.pick(&["POST", "PUT", "POST", "PATCH"]);
            b = B::new(id, m, &path);
            extras(rng, &mut b);
            let n = body_size(rng);
            b.h(&format!("Content-Length: {n}"));
            b.body = payload(id, n);
            label = "seed:cl_body".into();
        }
        7..=9 => {
            b = B::new(id, *rng.pick(&["POST", "PUT"]), &path);
            extras(rng, &mut b);
            b.h(*rng.pick(&["Transfer-Encoding: chunked", "Transfer-Encoding: chunked", "transfer-encoding: Chunked", "Transfer-Encoding:chunked"]));
            let n = body_size(rng);
            let data = payload(id, n);
            let mut sizes = Vec::new();
            let mut left = n;
            while left > 0 && sizes.len() < 40 { let cap = if rng.below(2) == 0 { 16 } else { 5000 }; let s = 1 + rng.below(cap) as usize; sizes.push(s.min(left)); left -= s.min(left); }
            b.body = chunked(&data, &sizes, "");
            b.body.extend_from_slice(*rng.pick(&[&b"0\r\n\r\n"[..], b"0\r\n\r\n", b"000\r\n\r\n"]));
            label = "seed:chunked".into();
        }
        10 => {
            // chunked with a trailer section
            b = B::new(id, "POST", &path);
            b.h("Transfer-Encoding: chunked").h("Trailer: X-Sum");
            let data = payload(id, 1 + rng.below(60) as usize);
            b.body = chunked(&data, &[7, 9], "");
            b.body.extend_from_slice(b"0\r\nX-Sum: 42\r\n\r\n");
            label = "seed:chunked_trailer".into();
        }
        11 => {
            // a complete request hidden in a Content-Length body: it is body, nothing else
            b = B::new(id, "POST", &path);
            let mut body = payload(id, rng.below(8) as usize);
            body.extend_from_slice(&hidden(id));
            b.h(&format!("Content-Length: {}", body.len()));
            b.body = body;
            label = "seed:cl_body_contains_request".into();
        }
        12 => {
            b = B::new(id, "POST", &path);
            b.h("Transfer-Encoding: chunked");
            let hid = hidden(id);
            b.body = chunked(&hid, &[hid.len()], "");
            b.body.extend_from_slice(b"0\r\n\r\n");
            label = "seed:chunk_contains_request".into();
        }
        13 => {
            b = B::new(id, "GET", &format!("http://{HOST}{path}"));
            b.h("Content-Length: 0");
            label = "seed:absolute_form".into();
        }
        14 => {
            b = B::new(id, "POST", &path);
            extras(rng, &mut b);
            let n = 1 + rng.below(30) as usize;
            b.h("Expect: 100-continue").h(&format!("Content-Length: {n}"));
            b.body = payload(id, n);
            label = "seed:expect_100".into();
        }
        _ => {
            b = B::new(id, "GET", &path);
            b.h("Cookie: a=1; b=2").h("Content-Length: 0");
            label = "seed:cookie".into();
        }
    }
    let method = String::from_utf8_lossy(b.line.split(|c| *c == b' ').next().unwrap()).to_string();
    El { label, method, bytes: b.bytes() }
}

pub const N_MUT: u64 = 105;

/// One mutated request. `k` selects the operator (0..N_MUT).
pub fn mutant(rng: &mut Prng, id: u64, k: u64) -> El {
    let path = format!("/r/{id}");
    let mut b = B::new(id, "POST", &path);
    let n = 1 + rng.below(24) as usize;
    let data = payload(id, n);
    let mut label: String;
    // helpers
    let cl_line = |v: &str| format!("Content-Length: {v}");
    match k {
        // ------------------------------------------------------------------ Content-Length family
        0 => { label = "cl:dup_same".into(); b.h(&cl_line(&n.to_string())).h(&cl_line(&n.to_string())); b.body = data; }
        1 => { label = "cl:dup_diff_small_first".into(); let hid = hidden(id); b.h(&cl_line("0")).h(&cl_line(&hid.len().to_string())); b.body = hid; }
        2 => { label = "cl:dup_diff_big_first".into(); let hid = hidden(id); b.h(&cl_line(&hid.len().to_string())).h(&cl_line("0")); b.body = hid; }
        3 => { label = "cl:plus".into(); b.h(&cl_line(&format!("+{n}"))); b.body = data; }
        4 => { label = "cl:plus_hidden".into(); let hid = hidden(id); b.h(&cl_line(&format!("+{}", hid.len()))); b.body = hid; }
        5 => { label = "cl:minus".into(); b.h(&cl_line(*rng.pick(&["-0", "-1", "-5"]))); b.body = data; }
        6 => { label = "cl:hex".into(); b.h(&cl_line(*rng.pick(&["0x10", "1A", "a", "0X5"]))); b.body = payload(id, 26); }
        7 => { label = "cl:space_inside".into(); b.h(&cl_line("1 0")); b.body = payload(id, 10); }
        8 => { label = "cl:ows_around".into(); b.hb(format!("Content-Length: \t {n} \t").as_bytes()); b.body = data; }
        9 => { label = "cl:comma_same".into(); b.h(&cl_line(&format!("{n}, {n}"))); b.body = data; }
        10 => { label = "cl:comma_diff".into(); let hid = hidden(id); b.h(&cl_line(&format!("0, {}", hid.len()))); b.body = hid; }
        11 => { label = "cl:leading_zeros".into(); b.h(&cl_line(&format!("000{n}"))); b.body = data; }
        12 => { label = "cl:overflow_u64".into(); b.h(&cl_line(*rng.pick(&["18446744073709551616", "99999999999999999999999999", "18446744073709551615"]))); b.body = data; }
        13 => { label = "cl:overflow_wraps_to_n".into(); b.h(&cl_line(&format!("{}", (1u128 << 64) + n as u128))); b.body = data; }
        14 => { label = "cl:empty".into(); b.h("Content-Length:"); b.body = Vec::new(); }
        15 => { label = "cl:float".into(); b.h(&cl_line(*rng.pick(&["5.0", "1e1", "5,0"]))); b.body = payload(id, 5); }
        16 => { label = "cl:name_case_and_no_space".into(); b.hb(format!("CONTENT-LENGTH:{n}").as_bytes()); b.body = data; }
        17 => { label = "cl:underscore_name".into(); let hid = hidden(id); b.h(&format!("Content_Length: {}", hid.len())).h("Content-Length: 0"); b.body = hid; }
        18 => { label = "cl:larger_than_sent".into(); b.h(&cl_line(&(n + 10).to_string())); b.body = data; }
        19 => { label = "cl:vt_in_value".into(); b.hb(format!("Content-Length: \x0b{n}").as_bytes()); b.body = data; }
        // ------------------------------------------------------------------ Transfer-Encoding family
        20..=49 => {
            let (name, lines): (&str, Vec<Vec<u8>>) = match k {
                20 => ("mixed_case", vec![b"Transfer-Encoding: cHuNkEd".to_vec()]),
                21 => ("chunked_identity", vec![b"Transfer-Encoding: chunked, identity".to_vec()]),
                22 => ("identity_chunked", vec![b"Transfer-Encoding: identity, chunked".to_vec()]),
                23 => ("xchunked", vec![b"Transfer-Encoding: xchunked".to_vec()]),
                24 => ("chunked_twice_list", vec![b"Transfer-Encoding: chunked, chunked".to_vec()]),
                25 => ("chunked_twice_lines", vec![b"Transfer-Encoding: chunked".to_vec(), b"Transfer-Encoding: chunked".to_vec()]),
                26 => ("tab_before_colon", vec![b"Transfer-Encoding\t: chunked".to_vec()]),
                27 => ("space_before_colon", vec![b"Transfer-Encoding : chunked".to_vec()]),
                28 => ("obs_fold", vec![b"Transfer-Encoding:\r\n chunked".to_vec()]),
                29 => ("obs_fold_tab", vec![b"Transfer-Encoding: x\r\n\tchunked".to_vec()]),
                30 => ("vt_in_value", vec![b"Transfer-Encoding: \x0bchunked".to_vec()]),
                31 => ("ff_in_value", vec![b"Transfer-Encoding: chunked\x0c".to_vec()]),
                32 => ("nul_in_value", vec![b"Transfer-Encoding: chunked\x00".to_vec()]),
                33 => ("nul_in_name", vec![b"Transfer-Encoding\x00: chunked".to_vec()]),
                34 => ("bare_cr_in_value", vec![b"Transfer-Encoding: chunked\rX: y".to_vec()]),
                35 => ("bare_lf_terminator", vec![b"Transfer-Encoding: chunked\nX-After: y".to_vec()]),
                36 => ("bare_lf_before", vec![b"X-Before: y\nTransfer-Encoding: chunked".to_vec()]),
                37 => ("identity", vec![b"Transfer-Encoding: identity".to_vec()]),
                38 => ("chunked_then_identity_lines", vec![b"Transfer-Encoding: chunked".to_vec(), b"Transfer-Encoding: identity".to_vec()]),
                39 => ("identity_then_chunked_lines", vec![b"Transfer-Encoding: identity".to_vec(), b"Transfer-Encoding: chunked".to_vec()]),
                40 => ("quoted", vec![b"Transfer-Encoding: \"chunked\"".to_vec()]),
                41 => ("param", vec![b"Transfer-Encoding: chunked;q=1".to_vec()]),
                42 => ("leading_tab", vec![b"Transfer-Encoding: \tchunked".to_vec()]),
                43 => ("trailing_ws", vec![b"Transfer-Encoding: chunked \t".to_vec()]),
                44 => ("gzip_chunked", vec![b"Transfer-Encoding: gzip, chunked".to_vec()]),
                45 => if rng.below(2) == 0 { ("comma_prefix", vec![b"Transfer-Encoding: ,chunked".to_vec()]) } else { ("comma_suffix", vec![(*rng.pick(&[&b"Transfer-Encoding: chunked,"[..], b"Transfer-Encoding: chunked , ", b"Transfer-Encoding: , chunked ,"])).to_vec()]) },
                46 => ("underscore_name", vec![b"Transfer_Encoding: chunked".to_vec()]),
                47 => ("empty", vec![b"Transfer-Encoding:".to_vec()]),
                48 => ("not_chunked_suffix", vec![b"Transfer-Encoding: chunked-not".to_vec()]),
                _ => ("space_in_token", vec![b"Transfer-Encoding: chun ked".to_vec()]),
            };
            let hid = hidden(id);
            let shape = rng.below(5);
            let mut te_first = rng.below(2) == 0;
            match shape {
                0 => {
                    // plain chunked body, no Content-Length
                    b.body = chunked(&data, &[n], "");
                    b.body.extend_from_slice(b"0\r\n\r\n");
                    te_first = true;
                    for l in &lines { b.hb(l); }
                    label = format!("te:{name}/plain");
                }
                1 => {
                    // chunked body + Content-Length covering the whole encoded body
                    b.body = chunked(&data, &[n], "");
                    b.body.extend_from_slice(b"0\r\n\r\n");
                    let cl = cl_line(&b.body.len().to_string());
                    if te_first { for l in &lines { b.hb(l); } b.h(&cl); } else { b.h(&cl); for l in &lines { b.hb(l); } }
                    label = format!("te:{name}/cl_covers_all");
                }
                2 => {
                    // TE.CL shape: small Content-Length, the chunk data is a complete request
                    b.body = chunked(&hid, &[hid.len()], "");
                    b.body.extend_from_slice(b"0\r\n\r\n");
                    let first_line = format!("{:x}\r\n", hid.len()).len();
                    let cl = cl_line(&first_line.to_string());
                    if te_first { for l in &lines { b.hb(l); } b.h(&cl); } else { b.h(&cl); for l in &lines { b.hb(l); } }
                    label = format!("te:{name}/te_cl_hidden");
                }
                3 => {
                    // CL.TE shape: Content-Length covers terminator + a complete request
                    b.body = b"0\r\n\r\n".to_vec();
                    b.body.extend_from_slice(&hid);
                    let cl = cl_line(&b.body.len().to_string());
                    if te_first { for l in &lines { b.hb(l); } b.h(&cl); } else { b.h(&cl); for l in &lines { b.hb(l); } }
                    label = format!("te:{name}/cl_te_hidden");
                }
                _ => {
                    // no Content-Length, chunk data is a complete request
                    b.body = chunked(&hid, &[hid.len()], "");
                    b.body.extend_from_slice(b"0\r\n\r\n");
                    for l in &lines { b.hb(l); }
                    label = format!("te:{name}/chunk_is_request");
                }
            }
            let _ = te_first;
        }
        50 => { label = "te:http10_chunked".into(); b.line = format!("POST {path} HTTP/1.0").into_bytes(); b.h("Transfer-Encoding: chunked").h("Connection: keep-alive"); b.body = chunked(&data, &[n], ""); b.body.extend_from_slice(b"0\r\n\r\n"); }
        // ------------------------------------------------------------------ chunk syntax
        51 => { label = "chunk:size_overflow_17_digits".into(); b.h("Transfer-Encoding: chunked"); b.body = format!("1000000000000000{:x}\r\n", n).into_bytes(); b.body.extend_from_slice(&data); b.body.extend_from_slice(b"\r\n0\r\n\r\n"); }
        52 => { label = "chunk:size_max".into(); b.h("Transfer-Encoding: chunked"); b.body = b"FFFFFFFFFFFFFFFF\r\n".to_vec(); b.body.extend_from_slice(&data); b.body.extend_from_slice(b"\r\n0\r\n\r\n"); }
        53 => { label = "chunk:missing_crlf_after_data".into(); b.h("Transfer-Encoding: chunked"); b.body = format!("{:x}\r\n", n).into_bytes(); b.body.extend_from_slice(&data); b.body.extend_from_slice(b"0\r\n\r\n"); }
        54 => { label = "chunk:lf_only".into(); b.h("Transfer-Encoding: chunked"); b.body = format!("{:x}\n", n).into_bytes(); b.body.extend_from_slice(&data); b.body.extend_from_slice(b"\n0\n\n"); }
        55 => { label = "chunk:ext_token".into(); b.h("Transfer-Encoding: chunked"); b.body = chunked(&data, &[n], ";name=value"); b.body.extend_from_slice(b"0\r\n\r\n"); }
        56 => { label = "chunk:ext_quoted".into(); b.h("Transfer-Encoding: chunked"); b.body = chunked(&data, &[n], ";a=\"x;y\\\"z\""); b.body.extend_from_slice(b"0;last\r\n\r\n"); }
        57 => { label = "chunk:ext_quoted_crlf".into(); b.h("Transfer-Encoding: chunked"); let hid = hidden(id); b.body = format!("{:x};a=\"\r\n", n).into_bytes(); b.body.extend_from_slice(&data); b.body.extend_from_slice(b"\r\n0\r\n\r\n"); b.body.extend_from_slice(&hid); }
        58 => { label = "chunk:size_0x_prefix".into(); b.h("Transfer-Encoding: chunked"); b.body = format!("0x{:x}\r\n", n).into_bytes(); b.body.extend_from_slice(&data); b.body.extend_from_slice(b"\r\n0\r\n\r\n"); }
        59 => { label = "chunk:size_plus".into(); b.h("Transfer-Encoding: chunked"); b.body = format!("+{:x}\r\n", n).into_bytes(); b.body.extend_from_slice(&data); b.body.extend_from_slice(b"\r\n0\r\n\r\n"); }
        60 => { label = "chunk:size_ws".into(); b.h("Transfer-Encoding: chunked"); b.body = format!("{}{:x}{}\r\n", *rng.pick(&[" ", "", "\t"]), n, *rng.pick(&[" ", "\t", " "])).into_bytes(); b.body.extend_from_slice(&data); b.body.extend_from_slice(b"\r\n0\r\n\r\n"); }
        61 => { label = "chunk:trailer_with_framing_fields".into(); b.h("Transfer-Encoding: chunked"); b.body = chunked(&data, &[n], ""); b.body.extend_from_slice(format!("0\r\nContent-Length: 7\r\nTransfer-Encoding: chunked\r\nHost: evil.test\r\nx-sim-id: {}\r\n\r\n", id + 700).as_bytes()); }
        62 => { label = "chunk:missing_final_crlf".into(); b.h("Transfer-Encoding: chunked"); b.body = chunked(&data, &[n], ""); b.body.extend_from_slice(b"0\r\n"); }
        63 => { label = "chunk:negative_size".into(); b.h("Transfer-Encoding: chunked"); b.body = b"-1\r\nab\r\n0\r\n\r\n".to_vec(); }
        64 => { label = "chunk:trailer_bad_byte".into(); b.h("Transfer-Encoding: chunked"); b.body = chunked(&data, &[n], ""); b.body.extend_from_slice(b"0\r\nX-T: a\x00b\r\n\r\n"); }
        // ------------------------------------------------------------------ target / Host
        65 => { label = "target:absolute_host_mismatch".into(); b.line = format!("POST http://{HOST}{path} HTTP/1.1").into_bytes(); b.replace_host(Some(b"Host: evil.test")); b.h(&cl_line(&n.to_string())); b.body = data; }
        66 => { label = "target:absolute_no_host".into(); b.line = format!("POST http://{HOST}{path} HTTP/1.1").into_bytes(); b.replace_host(None); b.h(&cl_line(&n.to_string())); b.body = data; }
        67 => { label = "target:absolute_userinfo".into(); b.line = format!("POST http://user:pw@{HOST}{path} HTTP/1.1").into_bytes(); b.h(&cl_line(&n.to_string())); b.body = data; }
        68 => { label = "target:absolute_unknown_host".into(); b.line = format!("POST http://evil.test{path} HTTP/1.1").into_bytes(); b.h(&cl_line(&n.to_string())); b.body = data; }
        69 => { label = "target:authority_form_get".into(); b.line = format!("GET {HOST}:80 HTTP/1.1").into_bytes(); b.h("Content-Length: 0"); }
        70 => { label = "target:asterisk_options".into(); b.line = b"OPTIONS * HTTP/1.1".to_vec(); b.h("Content-Length: 0"); }
        71 => { label = "target:asterisk_get".into(); b.line = b"GET * HTTP/1.1".to_vec(); b.h("Content-Length: 0"); }
        72 => { label = "target:no_slash".into(); b.line = b"GET r/1 HTTP/1.1".to_vec(); b.h("Content-Length: 0"); }
        73 => { label = "target:absolute_empty_path".into(); b.line = format!("POST http://{HOST} HTTP/1.1").into_bytes(); b.h(&cl_line(&n.to_string())); b.body = data; }
        74 => { label = "host:dup_same".into(); b.h(&format!("Host: {HOST}")).h(&cl_line(&n.to_string())); b.body = data; }
        75 => { label = "host:dup_diff".into(); b.h("Host: evil.test").h(&cl_line(&n.to_string())); b.body = data; }
        76 => { label = "host:dup_diff_evil_first".into(); b.replace_host(Some(b"Host: evil.test")); b.h(&format!("Host: {HOST}")).h(&cl_line(&n.to_string())); b.body = data; }
        77 => { label = "host:empty".into(); b.replace_host(Some(b"Host:")); b.h(&cl_line(&n.to_string())); b.body = data; }
        78 => { label = "host:missing".into(); b.replace_host(None); b.h(&cl_line(&n.to_string())); b.body = data; }
        79 => { label = "host:bad_value".into(); b.replace_host(Some(*rng.pick(&[&b"Host: c0.test evil.test"[..], b"Host: c0.test, evil.test", b"Host: evil@c0.test", b"Host: c0.test/x", b"Host: c0.test:99999", b"Host: c0.test:80:80"]))); b.h(&cl_line(&n.to_string())); b.body = data; }
        80 => { label = "host:port".into(); b.replace_host(Some(b"Host: c0.test:80")); b.h(&cl_line(&n.to_string())); b.body = data; }
        // ------------------------------------------------------------------ request line
        81 => { label = "line:ws_before".into(); b.line = format!(" POST {path} HTTP/1.1").into_bytes(); b.h(&cl_line(&n.to_string())); b.body = data; }
        82 => { label = "line:crlf_before".into(); b.line = format!("\r\nPOST {path} HTTP/1.1").into_bytes(); b.h(&cl_line(&n.to_string())); b.body = data; }
        83 => { label = "line:extra_sp".into(); b.line = (*rng.pick(&[format!("POST  {path} HTTP/1.1"), format!("POST {path}  HTTP/1.1"), format!("POST {path} HTTP/1.1 "), format!("POST\t{path}\tHTTP/1.1"), format!("POST {path} x HTTP/1.1")])).clone().into_bytes(); b.h(&cl_line(&n.to_string())); b.body = data; }
        84 => { label = "line:http10_cl".into(); b.line = format!("POST {path} HTTP/1.0").into_bytes(); b.h("Connection: keep-alive").h(&cl_line(&n.to_string())); b.body = data; }
        85 => { label = "line:http09".into(); b.line = format!("GET {path}").into_bytes(); b.hdrs.clear(); }
        86 => { label = "line:bad_version".into(); b.line = format!("POST {path} {}", *rng.pick(&["HTTP/2.0", "HTTP/1.2", "http/1.1", "HTTP/1.1x", "HTTP/01.1", "HTTP/1"])).into_bytes(); b.h(&cl_line(&n.to_string())); b.body = data; }
        87 => { label = "line:lower_method".into(); b.line = format!("post {path} HTTP/1.1").into_bytes(); b.h(&cl_line(&n.to_string())); b.body = data; }
        88 => { label = "line:bad_method_byte".into(); b.line = format!("{} {path} HTTP/1.1", *rng.pick(&["PO(ST", "PO\"ST", "PO/ST", "P\u{7f}ST", "PO:ST"])).into_bytes(); b.h(&cl_line(&n.to_string())); b.body = data; }
        89 => { label = "line:high_byte_method".into(); b.line = b"\xa5BAD /api HTTP/1.1".to_vec(); b.h(&cl_line(&n.to_string())); b.body = data; }
        // ------------------------------------------------------------------ header block
        90 => { label = "hdr:oversized_one".into(); let big = "x".repeat(12000 + rng.below(30000) as usize); b.h(&format!("X-Huge: {big}")).h(&cl_line(&n.to_string())); b.body = data; }
        91 => { label = "hdr:oversized_many".into(); for i in 0..(300 + rng.below(600)) { b.h(&format!("X-H{i}: {}", "v".repeat(40))); } b.h(&cl_line(&n.to_string())); b.body = data; }
        92 => { label = "hdr:bad_name_byte".into(); b.h(*rng.pick(&["X\"Q: v", "X/Y: v", "X(Y): v", "X Y: v", "X@Y: v", "X[1]: v"])).h(&cl_line(&n.to_string())); b.body = data; }
        93 => { label = "hdr:no_colon_or_empty_name".into(); b.h(*rng.pick(&["NoColonHere", ": novalue", ":"])).h(&cl_line(&n.to_string())); b.body = data; }
        94 => { label = "hdr:ctl_in_value".into(); b.hb(*rng.pick(&[&b"X-Ctl: a\x00b"[..], b"X-Ctl: a\x0bb", b"X-Ctl: a\x0cb", b"X-Ctl: a\x7fb", b"X-Ctl: a\x1bb", b"X-Ctl: a\x01"])).h(&cl_line(&n.to_string())); b.body = data; }
        95 => { label = "hdr:bare_cr_or_lf".into(); let hid = hidden(id); let mut l = b"X-Inj: a".to_vec(); l.extend_from_slice(*rng.pick(&[&b"\n"[..], b"\r", b"\n\n", b"\r\r\n"])); l.extend_from_slice(b"Content-Length: "); l.extend_from_slice(hid.len().to_string().as_bytes()); b.hb(&l); b.h("Content-Length: 0"); b.body = hid; }
        96 => { label = "hdr:obs_fold".into(); b.hb(b"X-Fold: a\r\n b").h(&cl_line(&n.to_string())); b.body = data; }
        97 => { label = "conn:close_then_more".into(); b.h("Connection: close").h(&cl_line(&n.to_string())); b.body = data; }
        98 => { label = "conn:upgrade_tricks".into(); b.h(*rng.pick(&["Connection: Upgrade, HTTP2-Settings", "Connection: upgrade", "Connection: Content-Length", "Connection: Transfer-Encoding, keep-alive", "Connection: Host"])).h(*rng.pick(&["Upgrade: h2c", "Upgrade: websocket", "HTTP2-Settings: AAMAAABkAARAAAAAAAIAAAAA"])).h(&cl_line(&n.to_string())); b.body = data; }
        // HTTP/1.0 keep-alive request with neither Content-Length nor Transfer-Encoding: no body (RFC 9112 6.3),
        // whatever is pipelined behind it is the next request, not its body
        99 => { label = "line:http10_lengthless".into(); b.line = format!("GET {path} HTTP/1.0").into_bytes(); b.h("Connection: keep-alive"); }
        100 => { label = "hdr:obs_text".into(); b.hb(b"X-Obs: caf\xe9 \xff").h(&cl_line(&n.to_string())); b.body = data; }
        101 => { label = "line:long_target".into(); b.line = format!("POST /{} HTTP/1.1", "t".repeat(9000 + rng.below(20000) as usize)).into_bytes(); b.h(&cl_line(&n.to_string())); b.body = data; }
        102 => { label = "chunk:size_leading_zeros".into(); b.h("Transfer-Encoding: chunked"); b.body = format!("000000000000{:x}\r\n", n).into_bytes(); b.body.extend_from_slice(&data); b.body.extend_from_slice(b"\r\n0000\r\n\r\n"); }
        103 => { label = "hdr:space_after_name_framing".into(); let hid = hidden(id); b.hb(format!("Content-Length : {}", hid.len()).as_bytes()); b.h("Content-Length: 0"); b.body = hid; }
        _ => { label = "conn:connect_method".into(); b.line = format!("CONNECT {HOST}:80 HTTP/1.1").into_bytes(); b.replace_host(Some(format!("Host: {HOST}:80").as_bytes())); }
    }
    if label.is_empty() { label = "mut:unnamed".into(); }
    let method = String::from_utf8_lossy(b.line.split(|c| *c == b' ').find(|s| !s.is_empty() && s != b"\r\n").unwrap_or(b"GET")).trim().to_string();
    El { label, method, bytes: b.bytes() }
}

/// Attack strings catalogued in /repo/e2e/src/tests/h1_security_tests.rs, verbatim except for an
/// added `x-sim-id` line (the frontend `localhost` is configured next to `c0.test`).
pub const N_E2E: u64 = 13;
pub fn e2e(id: u64, k: u64) -> El {
    let idl = format!("x-sim-id: {id}\r\n");
    let (label, s): (&str, Vec<u8>) = match k {
        0 => ("e2e:te_cl", format!("POST /api HTTP/1.1\r\nHost: localhost\r\n{idl}Transfer-Encoding: chunked\r\nContent-Length: 5\r\nConnection: close\r\n\r\n0\r\n\r\n").into_bytes()),
        1 => ("e2e:te_te_identity", format!("POST /api HTTP/1.1\r\nHost: localhost\r\n{idl}Transfer-Encoding: chunked\r\nTransfer-Encoding: identity\r\nConnection: close\r\n\r\n5\r\nHello\r\n0\r\n\r\n").into_bytes()),
        2 => ("e2e:te_leading_tab", format!("POST /api HTTP/1.1\r\nHost: localhost\r\n{idl}Transfer-Encoding: \tchunked\r\nConnection: close\r\n\r\n5\r\nHello\r\n0\r\n\r\n").into_bytes()),
        3 => ("e2e:double_cl", format!("POST /api HTTP/1.1\r\nHost: localhost\r\n{idl}Content-Length: 5\r\nContent-Length: 10\r\nConnection: close\r\n\r\nHelloWorld").into_bytes()),
        4 => ("e2e:oversized_header", format!("GET /api HTTP/1.1\r\nHost: localhost\r\n{idl}X-Huge: {}\r\nConnection: close\r\n\r\n", "A".repeat(70000)).into_bytes()),
        5 => ("e2e:multiple_host", format!("GET /api HTTP/1.1\r\nHost: localhost\r\nHost: evil.example.com\r\n{idl}Connection: close\r\n\r\n").into_bytes()),
        6 => ("e2e:host_port_overflow", format!("GET /api HTTP/1.1\r\nHost: localhost:65536\r\n{idl}Connection: close\r\n\r\n").into_bytes()),
        7 => ("e2e:host_port_zero", format!("GET /api HTTP/1.1\r\nHost: localhost:0\r\n{idl}Connection: close\r\n\r\n").into_bytes()),
        8 => ("e2e:invalid_utf8_method", { let mut v = b"\xFFBAD /api HTTP/1.1\r\nHost: localhost\r\n".to_vec(); v.extend_from_slice(idl.as_bytes()); v.extend_from_slice(b"Connection: close\r\n\r\n"); v }),
        9 => ("e2e:chunk_extension", format!("POST /api HTTP/1.1\r\nHost: localhost\r\n{idl}Transfer-Encoding: chunked\r\nConnection: close\r\n\r\n5;name=value\r\nHello\r\n0\r\n\r\n").into_bytes()),
        10 => ("e2e:chunk_short", format!("POST /api HTTP/1.1\r\nHost: localhost\r\n{idl}Transfer-Encoding: chunked\r\nConnection: close\r\n\r\n3\r\nHel\r\n0\r\n\r\n").into_bytes()),
        11 => ("e2e:http09", b"GET /\r\n".to_vec()),
        _ => ("e2e:connection_close", format!("GET /api HTTP/1.1\r\nHost: localhost\r\n{idl}Connection: close\r\n\r\n").into_bytes()),
    };
    let method = String::from_utf8_lossy(s.split(|c| *c == b' ').next().unwrap_or(b"GET")).to_string();
    El { label: label.into(), method, bytes: s }
}
