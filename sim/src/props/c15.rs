//! C15 — no HTTP/2 input can crash, wedge or over-commit a worker.
//!
//! Three plan families (one trigger feature per plan, carried in every violation key):
//!  * `decoder`       — sozu's frame decoder driven in-process, cross-checked against the harness codec (c15_dec.rs)
//!  * `abuse_client`  — one abusive HTTP/2 client over TLS next to well-behaved connections, then a probe (c15_gen/net/oracle.rs)
//!  * `abuse_backend` — an abusive h2c backend while an H1 or H2 client waits (same files)
//! The RFC 9113 expectation table is c15_model.rs.
#![allow(dead_code)]
use serde_json::{json, Value};

use crate::actors::h2::*;
use crate::actors::Pace;
use crate::framework::*;
use crate::muxscn::*;

#[path = "c15_dec.rs"]
pub mod c15_dec;
#[path = "c15_model.rs"]
pub mod c15_model;
#[path = "c15_net.rs"]
pub mod c15_net;
#[path = "c15_gen.rs"]
pub mod c15_gen;
#[path = "c15_oracle.rs"]
pub mod c15_oracle;

use c15_net::{Kind, NetPlan, Setup};

pub struct C15;

fn family_of(seed: u64) -> &'static str {
    match (seed >> 7) % 16 { 0..=6 => "decoder", 7..=13 => "abuse_client", _ => "abuse_backend" }
}

fn summarize(np: &NetPlan) -> String {
    let mut s = format!("{} buf={} ", np.mux.family, np.mux.knobs.buffer_size);
    if let Some(ca) = &np.client_abuse { s += &format!("[abuse {} setup={:?} settled={} followup={} rate={:?}] expect={} ", ca.feature, ca.setup, ca.settled, ca.followup, ca.rate, c15_oracle::expect_client(ca, &np.h2, np.mux.knobs.buffer_size).short()); }
    if let Some(ba) = &np.backend_abuse { s += &format!("[abuse {} expect={}] ", ba.feature, ba.expect.short()); }
    s += &format!("h2knobs={:?} clients: {}", np.h2, np.mux.h2_clients.iter().map(|c| format!("{}(h2,{} ops)", c.name, c.script.len())).chain(np.mux.h1_clients.iter().map(|c| format!("{}(h1,{} reqs)", c.name, c.requests.len()))).collect::<Vec<_>>().join(" "));
    s
}

fn run_net_plan(np: &NetPlan) -> RunReport {
    let o = c15_net::run_net(np, false);
    let violations = if np.client_abuse.is_some() { c15_oracle::oracle_client(np, &o) } else { c15_oracle::oracle_backend(np, &o) };
    let mut rep = RunReport { seed: np.mux.seed, family: np.mux.family.clone(), violations, trace_hash: o.trace_hash, stats: o.stats.clone(), summary: summarize(np), ..Default::default() };
    let mut add = |k: &str, n: u64| { *rep.probes.entry(k.to_string()).or_insert(0) += n; };
    let done = o.h2_clients.iter().map(|r| r.streams.values().filter(|s| s.recv_end && s.status == Some(200)).count()).sum::<usize>() + o.h1_clients.iter().map(|c| c.responses.len()).sum::<usize>();
    add("responses_completed", done as u64);
    let mut abuse_bytes = 0u64;
    if np.client_abuse.is_some() {
        let r = &o.h2_clients[0];
        abuse_bytes = r.abuse_sent.iter().map(|a| a.bytes).sum();
        add("abuse_frames_sent", r.abuse_sent.iter().map(|a| a.frames).sum());
        add("abuser_goaway_error", r.goaways.iter().filter(|g| g.code != 0).count().min(1) as u64);
        add("abuser_goaway_enhance_your_calm", r.goaways.iter().filter(|g| g.code == 11).count().min(1) as u64);
        add("abuser_rst_received", r.rst_recv.len() as u64);
        add("abuser_closed_by_sozu", (r.eof || r.reset || r.io_err.is_some()) as u64);
        add("abuser_followup_served", r.stream_for(c15_net::ID_FOLLOW).map_or(0, |s| (s.status == Some(200)) as u64));
        if let Some(g) = r.goaways.iter().find(|g| g.code != 0) { if r.t_close_seen > g.t { add("release_after_goaway_ms_max", 0); let d = (r.t_close_seen - g.t) / crate::world::MS; let e = rep.probes.entry("release_after_goaway_ms_max".into()).or_insert(0); if d > *e { *e = d; } } }
        let e = c15_oracle::expect_client(np.client_abuse.as_ref().unwrap(), &np.h2, np.mux.knobs.buffer_size);
        let tag = match &e { c15_model::Expect::Conn { .. } => "expect_conn_error", c15_model::Expect::Stream { .. } => "expect_stream_error", c15_model::Expect::Tolerated => "expect_tolerated", c15_model::Expect::Refused { .. } => "expect_refused", c15_model::Expect::Ends => "expect_ends", c15_model::Expect::AnyOf(_) => "expect_set", c15_model::Expect::Any => "expect_robustness_only" };
        *rep.probes.entry(tag.to_string()).or_insert(0) += 1;
    } else if let Some(BackendRecords::H2(recs)) = o.backends.first() {
        abuse_bytes = recs.iter().flat_map(|r| r.abuse_sent.iter()).map(|a| a.bytes).sum();
        *rep.probes.entry("backend_connections".to_string()).or_insert(0) += recs.len() as u64;
        *rep.probes.entry("backend_goaway_from_sozu".to_string()).or_insert(0) += recs.iter().filter(|r| !r.goaways.is_empty()).count() as u64;
    }
    *rep.probes.entry("abuse_bytes_sent".to_string()).or_insert(0) += abuse_bytes;
    rep.nontrivial = done > 0 && (abuse_bytes > 0 || matches!(np.client_abuse.as_ref().map(|c| &c.kind), Some(Kind::Silent)));
    if let Some(e) = o.boot_error { rep.harness_error = Some(format!("worker boot failed: {e}")); }
    if !o.config_failures.is_empty() { rep.harness_error = Some(format!("configuration refused: {:?}", o.config_failures)); }
    rep
}

fn shrink_net(np: &NetPlan) -> Vec<NetPlan> {
    let mut out: Vec<NetPlan> = Vec::new();
    let same = |a: &NetPlan, b: &NetPlan| serde_json::to_string(a).unwrap() == serde_json::to_string(b).unwrap();
    // drop bystanders (the probe last)
    for name in ["good2", "good1", "probe"] {
        let mut q = np.clone();
        q.mux.h2_clients.retain(|c| c.name != name);
        q.mux.h1_clients.retain(|c| c.name != name);
        if !same(&q, np) { out.push(q); }
    }
    let mut q = np.clone();
    q.mux.sched.ev_truncate_pm = 0; q.mux.sched.ev_permute_pm = 0; q.mux.sched.preempt_pm = 0; q.mux.sched.short_write_pm = 0; q.mux.sched.eagain_pm = 0; q.mux.sndbufs = None;
    if !same(&q, np) { out.push(q); }
    for i in 0..np.mux.h2_clients.len() {
        if !np.mux.h2_clients[i].pace.is_greedy() { let mut q = np.clone(); q.mux.h2_clients[i].pace = Pace::greedy(); out.push(q); }
        if np.mux.h2_clients[i].conn.batch != 1 { let mut q = np.clone(); q.mux.h2_clients[i].conn.batch = 1; out.push(q); }
        if np.mux.h2_clients[i].name == "good2" && np.mux.h2_clients[i].script.len() > 1 { for j in 0..np.mux.h2_clients[i].script.len() { let mut q = np.clone(); q.mux.h2_clients[i].script.remove(j); out.push(q); } }
    }
    for i in 0..np.mux.h1_clients.len() {
        if !np.mux.h1_clients[i].pace.is_greedy() { let mut q = np.clone(); q.mux.h1_clients[i].pace = Pace::greedy(); out.push(q); }
        if np.mux.h1_clients[i].name == "good1" && np.mux.h1_clients[i].requests.len() > 1 { for j in 0..np.mux.h1_clients[i].requests.len() { let mut q = np.clone(); q.mux.h1_clients[i].requests.remove(j); out.push(q); } }
    }
    if let Some(ca) = &np.client_abuse {
        let mut alt: Vec<c15_net::ClientAbuse> = Vec::new();
        if ca.settled { let mut c = ca.clone(); c.settled = false; alt.push(c); }
        if ca.followup { let mut c = ca.clone(); c.followup = false; alt.push(c); }
        if ca.rate != Rate::all_at_once() { let mut c = ca.clone(); c.rate = Rate::all_at_once(); alt.push(c); }
        match &ca.setup { Setup::Open { siblings } if *siblings > 0 => { let mut c = ca.clone(); c.setup = Setup::Open { siblings: siblings - 1 }; alt.push(c); } Setup::HalfClosed { siblings } if *siblings > 0 => { let mut c = ca.clone(); c.setup = Setup::HalfClosed { siblings: siblings - 1 }; alt.push(c); } _ => {} }
        let mut c = ca.clone();
        let changed = match &mut c.kind {
            Kind::PingFlood { count, .. } | Kind::SettingsFlood { count, .. } | Kind::EmptyData { count, .. } | Kind::Wu0Flood { count } | Kind::GlitchFlood { count } | Kind::RapidReset { count, .. } | Kind::ContFlood { count, .. } if *count > 1 => { *count -= (*count / 4).max(1); true }
            Kind::Frame { flags, .. } if *flags & 0xd2 != 0 => { *flags &= !0xd2; true }
            _ => false,
        };
        if changed { alt.push(c); }
        for c in alt { let mut q = np.clone(); q.client_abuse = Some(c); c15_gen::rebuild(&mut q); out.push(q); }
        if matches!(ca.kind, Kind::TooManyStreams { .. }) && np.h2.max_streams > 1 {
            for m in [np.h2.max_streams / 2, np.h2.max_streams - 1] { if m >= 1 && m != np.h2.max_streams { let mut q = np.clone(); q.h2.max_streams = m; c15_gen::rebuild(&mut q); out.push(q); } }
        }
    }
    if np.mux.knobs.buffer_size != 16393 { let mut q = np.clone(); q.mux.knobs.buffer_size = 16393; out.push(q); }
    out
}

fn debug_net(np: &NetPlan) -> String {
    let o = c15_net::run_net(np, true);
    let mut s = String::new();
    for l in &o.log { s += l; s.push('\n'); }
    s += &format!("{}\n", summarize(np));
    for (i, rec) in o.h2_clients.iter().enumerate() { s += &format!("H2 CLIENT {} abuse_sent={:?}: {}\n", np.mux.h2_clients[i].name, rec.abuse_sent, summarize_record(rec)); }
    for (i, c) in o.h1_clients.iter().enumerate() { s += &format!("H1 CLIENT {}: {:?} responses={:?}\n", np.mux.h1_clients[i].name, c.rec, c.responses.iter().map(|m| (m.start.clone(), m.body_len, m.complete)).collect::<Vec<_>>()); }
    for (bi, b) in o.backends.iter().enumerate() {
        match b {
            BackendRecords::H2(recs) => for r in recs { s += &format!("H2 BACKEND {bi} conn {} abuse_sent={:?}: {}\n", r.idx, r.abuse_sent, summarize_record(r)); },
            BackendRecords::H1(recs) => for r in recs { s += &format!("H1 BACKEND {bi} conn {}: eof={} err={:?} requests={:?} parse_error={:?}\n", r.idx, r.eof, r.io_err, r.requests.iter().map(|m| (m.start.clone(), m.body_len, m.complete)).collect::<Vec<_>>(), r.parse_error); },
        }
    }
    s += &format!("panicked={:?} aborted={:?} boot={:?} config_failures={:?} board={:?} stats: iterations={} spin_breaks={}\n", o.panicked, o.aborted, o.boot_error, o.config_failures, o.board, o.stats.epoll_waits, o.stats.spin_breaks);
    let viol = if np.client_abuse.is_some() { c15_oracle::oracle_client(np, &o) } else { c15_oracle::oracle_backend(np, &o) };
    for v in viol { s += &format!("VIOLATION {} | {} | {}\n", v.class, v.key, v.detail); }
    s
}

impl Property for C15 {
    fn id(&self) -> &'static str { "C15" }
    fn runs(&self, tier: Tier) -> u64 { match tier { Tier::Quick => 12000, Tier::Thorough => 250000 } }
    fn gen_plan(&self, seed: u64, tier: Tier) -> Value {
        match family_of(seed) {
            "decoder" => json!({"family": "decoder", "dec": c15_dec::generate(seed, tier)}),
            "abuse_client" => json!({"family": "abuse_client", "net": c15_gen::gen_client(seed, tier)}),
            _ => json!({"family": "abuse_backend", "net": c15_gen::gen_backend(seed, tier)}),
        }
    }
    fn run_plan(&self, plan: &Value) -> RunReport {
        match plan["family"].as_str().unwrap_or("") {
            "decoder" => match serde_json::from_value::<c15_dec::DecPlan>(plan["dec"].clone()) { Ok(p) => c15_dec::run(&p), Err(e) => RunReport { harness_error: Some(format!("bad plan: {e}")), ..Default::default() } },
            "abuse_client" | "abuse_backend" => match serde_json::from_value::<NetPlan>(plan["net"].clone()) { Ok(p) => run_net_plan(&p), Err(e) => RunReport { harness_error: Some(format!("bad plan: {e}")), ..Default::default() } },
            f => RunReport { harness_error: Some(format!("unknown family {f}")), ..Default::default() },
        }
    }
    fn shrink(&self, plan: &Value) -> Vec<Value> {
        let fam = plan["family"].as_str().unwrap_or("").to_string();
        match fam.as_str() {
            "decoder" => serde_json::from_value::<c15_dec::DecPlan>(plan["dec"].clone()).map(|p| c15_dec::shrink(&p).into_iter().map(|q| json!({"family": "decoder", "dec": q})).collect()).unwrap_or_default(),
            "abuse_client" | "abuse_backend" => serde_json::from_value::<NetPlan>(plan["net"].clone()).map(|p| shrink_net(&p).into_iter().map(|q| json!({"family": fam, "net": q})).collect()).unwrap_or_default(),
            _ => vec![],
        }
    }
    fn debug_plan(&self, plan: &Value) -> String {
        match plan["family"].as_str().unwrap_or("") {
            "abuse_client" | "abuse_backend" => debug_net(&serde_json::from_value::<NetPlan>(plan["net"].clone()).unwrap()),
            _ => serde_json::to_string_pretty(&self.run_plan(plan)).unwrap(),
        }
    }
    fn descr(&self) -> Descr {
        Descr {
            level: "exploration",
            rule: "three seeded plan families, one abuse feature per plan (the feature is part of every violation key). decoder (7/16 of the plans, in-process): 24-48 byte strings per plan (1-3 frames with type x flags x stream id x length x pad-length octet from boundary values, then truncation / trailing garbage / header bit flips / declared-length changes) fed to sozu_lib::protocol::mux::parser::{frame_header, frame_body}: must not panic, must consume exactly 9 + declared payload octets or return an error, error code and decoded fields must agree with the harness's own RFC 9113 codec. abuse_client (7/16, netsim, real worker over real TLS): one abusive HTTP/2 client brings its connection into a seeded state (nothing sent / preface only / SETTINGS sent / settings exchanged / open POSTs with bodies in flight / half-closed streams awaiting a delayed answer / a completed stream / inside a header block / after its own GOAWAY) and sends ONE kind of abuse: every AbuseOp kind, single frames of every type with boundary payloads on every stream class (0, open, half-closed(remote), closed, idle, even, fresh), garbage, HTTP/1 text, partial preface / partial frames then silence, declared-length mismatches, reserved-bit frames, floods (PING, SETTINGS, empty DATA, stream-0 WINDOW_UPDATE, WINDOW_UPDATE on a closed stream, CONTINUATION, rapid reset) with counts below / around / far above the listener's documented thresholds (half of those plans lower the one threshold under test), header lists below / above the advertised SETTINGS_MAX_HEADER_LIST_SIZE, more concurrent streams than the advertised limit (with and without a later HPACK reference into a refused block); random fragmentation and pacing, optional buggify; concurrently 1-2 well-behaved connections (H2 over TLS and/or H1) with position-keyed bodies on another cluster, and a fresh probe connection 80 virtual seconds later. abuse_backend (2/16): the same from an h2c backend (frames directly behind its SETTINGS, or instead of the answer to the victim's first request) while an H1 or H2 client waits. Oracles: no worker panic; the run ends by itself (max_iterations / deadlock / virtual-time aborts of the simulator = wedge); the reaction prescribed by an RFC 9113 table written from the RFC (c15_model.rs; sets of acceptable outcomes: connection error with code set and GOAWAY-then-close, stream error with code set or escalation, tolerated with acknowledgements owed and a follow-up request served on the same connection, refused, must-end); the abusive connection is closed by sozu within 30 s of silence and within 3 s of an error GOAWAY; streams above the advertised MAX_CONCURRENT_STREAMS and header lists above the advertised MAX_HEADER_LIST_SIZE never reach the backend; sibling streams, bystanders and probe are answered byte-exactly within 10 virtual seconds; no accepted or backend socket is left 25 s after the last peer went away; the victim of an abusive backend gets the right answer, 502/503/504, a reset or a close, and well-formed frames. non-trivial = abuse bytes were sent (or the plan is 'silent') and at least one response completed; decoder plans: at least one byte string reached the decoder; distinct = trace hashes",
            assumptions: vec![
                "AF_UNIX stands in for TCP; release semantics (no debug assertions, wrapping arithmetic)",
                "where several RFC 9113 rules are broken at once the error code of any of them is accepted; a stream error may always be escalated to a connection error with the same code (RFC 9113 5.4.1)",
                "flood expectations use sozu's documented thresholds (doc/configure.md): count <= N/2 must be tolerated, count >= 3N+3 in one burst must end in GOAWAY(ENHANCE_YOUR_CALM), anything between admits both; the per-block CONTINUATION cap and the pre-response RST lifetime cap are exact",
                "decoder family: PUSH_PROMISE may be rejected outright (sozu never enables push), SETTINGS with more than 64 entries and PRIORITY_UPDATE values above 1024 octets may be rejected (limits documented in parser.rs)",
                "'prompt' reaction to a connection error = within 2 virtual seconds; a later close by a timeout counts as no reaction",
                "the harness's static header blocks put :path before :authority to stay clear of the recorded kawa output-order panic; requests written by the peer engine keep the usual order",
            ],
            real: vec!["sozu_lib worker (Server::run): TLS termination (rustls + ring), mux H2 frontend and h2c backend state machines, parser, serializer, pkawa, converter, H2FloodDetector, timers, H1 backends", "sozu_lib::protocol::mux::parser called directly (decoder family)", "loona-hpack inside sozu"],
            stub: vec!["IP network", "clock", "entropy", "abusive / well-behaved H2 peers (own codec, own HPACK encoder, rustls client)", "H1 peers", "master"],
            not_covered: vec![
                "connections that sozu is draining after its own graceful GOAWAY (soft stop): only draining after an error GOAWAY and after the client's GOAWAY is exercised",
                "serializer round trip (pub(crate)); metamorphic re-segmentation of identical byte streams (only random segmentation per plan)",
                "lifetime caps that need 10^4 frames (PING / SETTINGS / RST lifetime), stream-id exhaustion",
                "abusive backends on TLS; abusive client on the cleartext listener (h2c prior knowledge is not offered by sozu's HTTP listener)",
                "frames directly behind an h2c backend's SETTINGS all fall under one recorded defect (key backend/behind_settings), so distinct defects there are masked",
            ],
        }
    }
}
