//! C16 — resources return to baseline and admission limits are never exceeded.
//! Families: H1 session-outcome mixes and connection storms (this file), per-(cluster, IP) slots under
//! runtime limit changes with H1, HTTP/2-over-TLS and TCP-listener connections (`c16_ip.rs`).
use std::collections::BTreeMap;

use serde::{Deserialize, Serialize};
use serde_json::Value;
use sozu_command_lib::proto::command::{
    filtered_metrics::Inner, request::RequestType, response_content::ContentType, QueryMetricsOptions, Request, ResponseStatus,
};

use super::c01;
use crate::actors::h1::*;
use crate::actors::master::MOp;
use crate::actors::Pace;
use crate::framework::*;
use crate::netsim::{self, Knobs};
use crate::prng::Prng;
use crate::scenario::*;
use crate::world::{MS, SEC};

#[path = "c16_ip.rs"]
pub mod c16_ip;

pub struct C16;

#[derive(Clone, Debug, Serialize, Deserialize)]
pub struct Plan {
    pub http: HttpPlan,
    pub settle_s: u64,
    pub storm: bool,
}

const GAUGES: &[&str] = &["client.connections", "slab.entries", "buffer.in_use", "http.active_requests", "accept_queue.connections", "accept_queue.backpressure", "backend.connections"];

fn metrics_query() -> Request {
    RequestType::QueryMetrics(QueryMetricsOptions { list: false, cluster_ids: vec![], backend_ids: vec![], metric_names: vec![], no_clusters: false, workers: false }).into()
}

pub fn generate(seed: u64, tier: Tier) -> Plan {
    let mut rng = Prng::derive(seed, "c16/plan");
    let faulty = rng.below(3) == 0;
    let mut knobs = Knobs::default();
    knobs.max_connections = *rng.pick(&[2usize, 3, 5, 8, 16, 64]);
    knobs.accept_queue_timeout = *rng.pick(&[2u32, 5, 60]);
    // beyond one revolution of the timer wheel (25.6 s) as well
    knobs.front_timeout = *rng.pick(&[5u32, 20, 30, 60]);
    knobs.back_timeout = *rng.pick(&[2u32, 10, 30]);
    knobs.request_timeout = *rng.pick(&[2u32, 5]);
    knobs.connect_timeout = *rng.pick(&[1u32, 3]);
    knobs.max_buffers = *rng.pick(&[1000u64, 200, 40]);
    let storm = rng.below(2) == 0;
    let cap = match tier { Tier::Quick => 24, Tier::Thorough => 60 };
    let nclients = if storm { (knobs.max_connections as u64 * (1 + rng.below(3)) + rng.below(4)).min(cap) as usize } else { 1 + rng.below(knobs.max_connections.min(8) as u64) as usize };
    let front = "10.0.0.1:80".parse().unwrap();
    let max_body = 40_000;
    let mut next_id = 1u64;
    let mut resp0 = BTreeMap::new();
    let mut respx = BTreeMap::new();
    let mut clients = Vec::new();
    let wait = (knobs.front_timeout + knobs.back_timeout + knobs.request_timeout + knobs.accept_queue_timeout + knobs.connect_timeout * 4) as u64;
    for ci in 0..nclients {
        let nreq = 1 + rng.below(3) as usize;
        let mut reqs = Vec::new();
        for _ in 0..nreq {
            let id = next_id; next_id += 1;
            let kind = rng.below(10);
            let host = match kind { 0 => "nohost.test", 1 | 2 | 3 => "cx.test", 4 => "cr.test", _ => "c0.test" };
            let mut r = ReqSpec::get(id, host, &format!("/r/{id}"));
            let body = random_body(&mut rng, knobs.buffer_size as usize, max_body, false);
            r.body = match body { BodySpec::Close(n) => BodySpec::Cl(n), b => b };
            if r.body != BodySpec::None { r.method = "POST".into(); } else { r.headers.push(("Content-Length".into(), "0".into())); }
            let mut resp = RespSpec::ok(random_body(&mut rng, knobs.buffer_size as usize, max_body, true));
            if let BodySpec::Close(n) = resp.body { resp.body = BodySpec::Cl(n); }
            if host == "cx.test" {
                let len = resp.render(id).len();
                resp.fault = match rng.below(5) { 0 => Some(RespFault::CloseAt(rng.below(len as u64) as usize)), 1 => Some(RespFault::StallAt(rng.below(len as u64) as usize)), 2 => Some(RespFault::Garbage(b"garbage\r\n\r\n".to_vec())), 3 => { resp.delay_ns = (knobs.back_timeout as u64 + 1) * SEC; None }, _ => None };
                respx.insert(id, resp);
            } else {
                resp0.insert(id, resp);
            }
            reqs.push(r);
        }
        let total: usize = reqs.iter().map(|r| r.render().len()).sum();
        let abort = match rng.below(8) {
            0 => Some(ClientAbort::CloseAtSent(1 + rng.below(total as u64) as usize)),
            1 => Some(ClientAbort::CloseAtRecv(1 + rng.below(3000) as usize)),
            2 => Some(ClientAbort::StallAtSent(1 + rng.below(total as u64) as usize)),
            3 => Some(ClientAbort::HalfCloseAfterSend),
            _ => None,
        };
        clients.push(ClientPlan {
            name: format!("cl{ci}"),
            // several clients share simulated IPs
            src: format!("192.0.2.{}:{}", 7 + ci % 5, 40001 + ci).parse().unwrap(),
            dst: front,
            start_ns: rng.below(if storm { 2 } else { 40 } * MS),
            pace: Pace::random_budget(&mut rng, 60000, 200_000_000),
            pipeline: false,
            requests: reqs,
            abort,
            sndbuf: None,
            think_ns: rng.below(2) * rng.below(20 * MS),
            // a quarter of the clients stay connected and silent after their last response: for a random time, or until
            // sozu reclaims the idle session (front_timeout) - the client itself would only leave 4 s later
            linger_ns: match rng.below(8) { 0 => rng.below((knobs.front_timeout as u64 + 2) * SEC), 1 => (knobs.front_timeout as u64 + 4) * SEC, _ => 0 },
            give_up_ns: (wait + 10) * SEC,
            wait_board: None,
        });
    }
    // the probe: a well-behaved client that starts only after quiescence
    let pid = next_id;
    let mut pr = ReqSpec::get(pid, "c0.test", "/probe");
    pr.headers.push(("Content-Length".into(), "0".into()));
    resp0.insert(pid, RespSpec::ok(BodySpec::Cl(1234)));
    clients.push(ClientPlan { name: "probe".into(), src: "192.0.2.200:50000".parse().unwrap(), dst: front, start_ns: 0, pace: Pace::greedy(), pipeline: false, requests: vec![pr], abort: None, sndbuf: None, think_ns: 0, linger_ns: 0, give_up_ns: (wait + 10) * SEC, wait_board: Some("probe_go".into()) });
    let mk = |name: &str, addr: &str, responses: BTreeMap<u64, RespSpec>, rng: &mut Prng| BackendPlan { name: name.into(), addr: addr.parse().unwrap(), pace: Pace::random_budget(rng, 100_000, 200_000_000), responses, default: RespSpec::ok(BodySpec::Cl(3)), close_on_accept: vec![], listen_from_ns: 0, listen_until_ns: 0 };
    let clusters = vec![
        ClusterPlan { id: "c0".into(), host: "c0.test".into(), backends: vec![(mk("b0", "10.1.0.1:8000", resp0, &mut rng), BackendMode::Listen { delay_ns: 0 })] },
        ClusterPlan { id: "cx".into(), host: "cx.test".into(), backends: vec![(mk("bx", "10.2.0.1:8000", respx, &mut rng), BackendMode::Listen { delay_ns: rng.below(2) * rng.below(5 * MS) })] },
        ClusterPlan { id: "cr".into(), host: "cr.test".into(), backends: vec![(mk("br", "10.3.0.1:8000", BTreeMap::new(), &mut rng), if rng.below(2) == 0 { BackendMode::Refuse { delay_ns: 0 } } else { BackendMode::Blackhole })] },
    ];
    let http = HttpPlan {
        seed, family: format!("h1_{}{}", if storm { "storm" } else { "mix" }, if faulty { "+buggify" } else { "" }), knobs: knobs.clone(), sched: netsim::default_sched(&mut rng, faulty), front, clusters, clients,
        sndbufs: if rng.below(3) == 0 { Some(vec![0, 4608, 32768]) } else { None }, settle_ns: 0, extra_frontends: vec![],
    };
    Plan { http, settle_s: wait + 5, storm }
}

fn gauges_of(o: &HttpOutcome, id: &str) -> Option<BTreeMap<String, u64>> { gauges_in(&o.responses, id) }

pub fn gauges_in(responses: &[(u64, sozu_command_lib::proto::command::WorkerResponse)], id: &str) -> Option<BTreeMap<String, u64>> {
    let r = responses.iter().map(|(_, r)| r).find(|r| r.id == id && r.status == ResponseStatus::Ok as i32)?;
    let content = r.content.as_ref()?.content_type.as_ref()?;
    let ContentType::WorkerMetrics(wm) = content else { return None };
    let mut m = BTreeMap::new();
    for (k, v) in &wm.proxy { if let Some(Inner::Gauge(g)) = v.inner { m.insert(k.clone(), g); } }
    for (cid, cm) in &wm.clusters {
        for (k, v) in &cm.cluster { if let Some(Inner::Gauge(g)) = v.inner { m.insert(format!("{cid}/{k}"), g); } }
        for b in &cm.backends { for (k, v) in &b.metrics { if let Some(Inner::Gauge(g)) = v.inner { m.insert(format!("{cid}/{}/{k}", b.backend_id), g); } } }
    }
    Some(m)
}

pub fn run(p: &Plan, log: bool) -> HttpOutcome {
    let settle = p.settle_s * SEC;
    let script: MasterScript = Box::new(move |m, reqs, nclients| {
        m.send_all(reqs);
        m.push(MOp::Barrier);
        m.push(MOp::SendId("Q0".into(), metrics_query()));
        m.push(MOp::Barrier);
        m.push(MOp::SetBoard("configured".into(), 1));
        m.push(MOp::WaitBoard("clients_done".into(), nclients - 1));
        m.push(MOp::Sleep(settle));
        m.push(MOp::Call(Box::new(|w, _| {
            let a = w.sozu_fds.values().filter(|k| **k == 'a').count() as i64;
            let c = w.sozu_fds.values().filter(|k| **k == 'c').count() as i64;
            w.board_set("leak_accepted", a);
            w.board_set("leak_connected", c);
            w.board_set("quiesced", 1);
            vec![]
        })));
        m.push(MOp::SendId("Q1".into(), metrics_query()));
        m.push(MOp::Barrier);
        m.push(MOp::SetBoard("probe_go".into(), 1));
        m.push(MOp::WaitBoard("clients_done".into(), nclients));
        m.push(MOp::Sleep(2 * SEC));
        m.push(MOp::HardStop);
    });
    run_http_script(&p.http, log, Some(script))
}

/// What the footprint oracle looks at, whatever the family.
pub struct FootprintObs<'a> {
    pub panicked: &'a Option<String>,
    pub aborted: &'a Option<String>,
    pub max_served: usize,
    pub max_connections: usize,
    pub board: &'a BTreeMap<String, i64>,
    pub responses: &'a [(u64, sozu_command_lib::proto::command::WorkerResponse)],
    pub settle_s: u64,
    /// the well-behaved client that starts after quiescence, its request id and the body length it must get
    pub probe: &'a ClientOutcome,
    pub probe_id: u64,
    pub probe_len: u64,
}

pub fn footprint(f: &FootprintObs) -> Vec<Violation> {
    let mut v = Vec::new();
    if let Some(pn) = f.panicked { v.push(Violation::new("panic", "worker", pn.clone())); }
    if let Some(a) = f.aborted { v.push(Violation::new("no_exit", a.clone(), format!("run aborted: {a}"))); }
    let maxc = f.max_connections;
    if f.max_served > maxc {
        v.push(Violation::new("over_max_connections", "served", format!("{} client connections were being served at once, max_connections = {maxc}", f.max_served)));
    }
    if f.board.get("quiesced").copied().unwrap_or(0) == 1 {
        let la = f.board.get("leak_accepted").copied().unwrap_or(0);
        let lc = f.board.get("leak_connected").copied().unwrap_or(0);
        if la > 0 { v.push(Violation::new("fd_leak", "client_socket", format!("{la} accepted client socket(s) still open {} s after the last client finished", f.settle_s))); }
        if lc > 0 { v.push(Violation::new("fd_leak", "backend_socket", format!("{lc} backend socket(s) still open {} s after the last client finished", f.settle_s))); }
    } else {
        v.push(Violation::new("no_exit", "never_quiesced", "clients never all finished".to_string()));
    }
    match (gauges_in(f.responses, "Q0"), gauges_in(f.responses, "Q1")) {
        (Some(base), Some(end)) => {
            for (k, e) in &end {
                let name = k.rsplit('/').next().unwrap_or(k);
                if !GAUGES.contains(&name) { continue; }
                let b = base.get(k).copied().unwrap_or(0);
                if *e != b {
                    v.push(Violation::new("gauge_not_baseline", name.to_string(), format!("gauge {k} = {e} at quiescence, baseline {b}")));
                }
                if *e > (1u64 << 31) { v.push(Violation::new("gauge_underflow", name.to_string(), format!("gauge {k} = {e}"))); }
            }
        }
        _ => v.push(Violation::new("no_metrics", "query_failed", "QueryMetrics did not return worker metrics".to_string())),
    }
    // accepting resumes: the probe is served
    match f.probe.responses.first() {
        Some(m) if m.sim_id == Some(f.probe_id) && m.complete && m.body_ok() && m.body_len == f.probe_len => {}
        other => v.push(Violation::new("accept_not_resumed", "probe", format!("probe after quiescence was not served: {:?} rec={:?}", other.map(|m| m.start.clone()), f.probe.rec))),
    }
    v
}

/// "idle or stuck sessions are reclaimed within their timeouts": a client that got all its answers and then stays
/// connected and silent for front_timeout + 4 s must see sozu close the connection before it leaves by itself.
fn idle_reclaim(p: &Plan, o: &HttpOutcome) -> Vec<Violation> {
    let mut v = Vec::new();
    let ft = p.http.knobs.front_timeout as u64;
    for (ci, c) in p.http.clients.iter().enumerate() {
        if c.linger_ns < (ft + 3) * SEC || c.abort.is_some() { continue; }
        let Some(oc) = o.clients.get(ci) else { continue };
        let served = oc.rec.connect_err.is_none() && oc.responses.len() == c.requests.len() && oc.responses.iter().all(|m| m.complete) && oc.partial.is_none() && oc.rec.parse_error.is_none();
        if !served { continue; }
        if oc.rec.t_close_seen == 0 {
            v.push(Violation::new("idle_session_not_reclaimed", format!("front_timeout={}", if ft * 10 > 256 { "beyond_one_wheel_revolution" } else { "within_one_wheel_revolution" }), format!("client {} stayed idle for {} s after its last response (front_timeout {} s) and sozu never closed the connection", c.name, c.linger_ns / SEC, ft)));
        }
    }
    v
}

pub fn oracle(p: &Plan, o: &HttpOutcome) -> Vec<Violation> {
    let mut v = idle_reclaim(p, o);
    v.extend(footprint_of(p, o));
    v
}

fn footprint_of(p: &Plan, o: &HttpOutcome) -> Vec<Violation> {
    footprint(&FootprintObs {
        panicked: &o.panicked, aborted: &o.aborted, max_served: o.max_served, max_connections: p.http.knobs.max_connections, board: &o.board, responses: &o.responses, settle_s: p.settle_s,
        probe: o.clients.last().unwrap(), probe_id: p.http.clients.last().unwrap().requests[0].id, probe_len: 1234,
    })
}

// ------------------------------------------------------------------------------- per-IP family

fn run_ip_plan(plan: &Value) -> RunReport {
    let p: c16_ip::IpPlan = match serde_json::from_value(plan.clone()) { Ok(p) => p, Err(e) => return RunReport { harness_error: Some(format!("bad plan: {e}")), ..Default::default() } };
    // Process-wide one-time initialisations (the TLS stack's first use of the entropy source, among others)
    // happen inside whichever simulation comes first and shift its seeded entropy stream: the first run of a
    // process could differ from a repetition of the same plan. One discarded run of a fixed plan that uses every
    // protocol of the family puts every process in the same state before the first run that counts.
    static WARM: std::sync::atomic::AtomicBool = std::sync::atomic::AtomicBool::new(false);
    if !WARM.swap(true, std::sync::atomic::Ordering::SeqCst) { let _ = c16_ip::run(&c16_ip::warmup_plan(), false); }
    let o = c16_ip::run(&p, false);
    let fresh = o.probes.iter().find(|x| x.0.is_none()).expect("fresh-IP probe");
    let fresh_id = 9_000_000 + (o.probes.len() as u64 - 1);
    let mut violations = footprint(&FootprintObs {
        panicked: &o.panicked, aborted: &o.aborted, max_served: o.max_served, max_connections: p.knobs.max_connections, board: &o.board, responses: &o.responses, settle_s: p.settle_s,
        probe: &fresh.2, probe_id: fresh_id, probe_len: 3,
    });
    // footprint findings of a run with a WebSocket tunnel are keyed apart (the tunnel has its own teardown path)
    let ws_upgraded = o.h1.values().filter(|c| c.responses.iter().chain(c.partial.iter()).any(|m| m.status() == 101)).count() as u64;
    let plan_has_ws = p.conns.iter().any(|c| matches!(c, c16_ip::Conn::H1(c) if c.requests.iter().any(|r| r.headers.iter().any(|(n, _)| n == "Upgrade"))));
    if plan_has_ws { for x in violations.iter_mut() { if matches!(x.class.as_str(), "gauge_not_baseline" | "gauge_underflow" | "fd_leak") { x.key = format!("{}|websocket_upgrade", x.key); } } }
    // a worker panic ends the run: what follows from it (no metrics, no probe) is not reported on top of it
    if let Some(msg) = &o.panicked {
        // digits collapse to N so that the key names the failure, not the offsets
        let mut norm = String::new();
        let mut in_number = false;
        for c in msg.chars() {
            if c.is_ascii_digit() { if !in_number { norm.push('N'); } in_number = true; } else { in_number = false; norm.push(if c.is_ascii_alphanumeric() { c } else { '_' }); }
        }
        violations = vec![Violation::new("panic", format!("worker:{}", norm.chars().take(80).collect::<String>()), msg.clone())];
    }
    let (jv, st) = c16_ip::judge(&p, &o);
    if o.panicked.is_none() {
        violations.extend(jv);
        violations.extend(c16_ip::probe_oracle(&p, &o, c16_ip::last_trigger(&p, &o)));
    }
    // one report per (class, key)
    let mut seen = std::collections::BTreeSet::new();
    violations.retain(|x| seen.insert((x.class.clone(), x.key.clone())));
    let mut rep = RunReport { seed: p.seed, family: p.family.clone(), violations, trace_hash: o.trace_hash, stats: o.stats.clone(), ..Default::default() };
    // the verdict-relevant observations are part of the fingerprint
    let mut th = crate::prng::TraceHash(rep.trace_hash, 0);
    for x in [st.admitted, st.rejected, st.unknown, st.must_admit, st.must_reject, st.either] { th.mix(x); }
    rep.trace_hash = th.0;
    rep.summary = format!("{}; gate decisions: admitted={} rejected={} unknown={}", c16_ip::summarize(&p), st.admitted, st.rejected, st.unknown);
    rep.nontrivial = st.admitted > 0;
    let pr = &mut rep.probes;
    pr.insert("ip_admitted".into(), st.admitted);
    pr.insert("ip_rejected".into(), st.rejected);
    pr.insert("ip_outcome_unknown".into(), st.unknown);
    pr.insert("ip_model_must_admit".into(), st.must_admit);
    pr.insert("ip_model_must_reject".into(), st.must_reject);
    pr.insert("ip_model_either".into(), st.either);
    pr.insert("ip_own_slot_reuse".into(), st.own_slot_reuse);
    pr.insert("ip_cluster_absent_unspecified".into(), st.unspecified);
    for (_, c) in &p.cmds {
        let k = match c { c16_ip::Cmd::SetLimit(0) => "ip_cmd_set_zero", c16_ip::Cmd::SetLimit(_) => "ip_cmd_set_nonzero", c16_ip::Cmd::Remove(_) => "ip_cmd_remove_cluster", c16_ip::Cmd::Add { .. } => "ip_cmd_readd_cluster" };
        *pr.entry(k.into()).or_insert(0) += 1;
    }
    for c in &p.conns { *pr.entry(format!("ip_conns_{}", c.proto())).or_insert(0) += 1; }
    pr.insert("ip_ws_upgraded".into(), ws_upgraded);
    pr.insert("ip_h2_handshake_failed".into(), o.h2.values().filter(|r| r.tls.as_ref().map_or(true, |t| !t.handshake_done)).count() as u64);
    pr.insert("ip_closed_by_sozu".into(), o.h1.values().filter(|c| c.rec.eof).count() as u64 + o.h2.values().filter(|r| r.eof).count() as u64);
    pr.insert("ip_served_reached_max_connections".into(), (o.max_served >= p.knobs.max_connections) as u64);
    pr.insert("ip_probes_admitted".into(), o.probes.iter().filter(|x| x.2.responses.first().map_or(false, |m| m.status() != 429)).count() as u64);
    if let Some(e) = o.boot_error { rep.harness_error = Some(format!("worker boot failed: {e}")); }
    let failed: Vec<String> = o.responses.iter().filter(|(_, r)| r.status == ResponseStatus::Failure as i32).map(|(_, r)| format!("{}: {}", r.id, r.message)).collect();
    if !failed.is_empty() && rep.harness_error.is_none() { rep.harness_error = Some(format!("worker refused a command of the plan: {}", failed.join("; "))); }
    rep
}

impl Property for C16 {
    fn id(&self) -> &'static str { "C16" }
    fn runs(&self, tier: Tier) -> u64 { match tier { Tier::Quick => 3000, Tier::Thorough => 60000 } }
    fn gen_plan(&self, seed: u64, tier: Tier) -> Value {
        // roughly one plan in three belongs to the per-IP family
        if Prng::derive(seed, "c16/family").below(3) == 0 { return serde_json::to_value(c16_ip::generate(seed, tier)).unwrap(); }
        serde_json::to_value(generate(seed, tier)).unwrap()
    }
    fn run_plan(&self, plan: &Value) -> RunReport {
        if plan.get("ip_family").is_some() { return run_ip_plan(plan); }
        let p: Plan = match serde_json::from_value(plan.clone()) { Ok(p) => p, Err(e) => return RunReport { harness_error: Some(format!("bad plan: {e}")), ..Default::default() } };
        let o = run(&p, false);
        let violations = oracle(&p, &o);
        let mut rep = RunReport { seed: p.http.seed, family: p.http.family.clone(), violations, trace_hash: o.trace_hash, stats: o.stats.clone(), ..Default::default() };
        rep.summary = format!("max_connections={} clients={} storm={} accept_queue_timeout={}s front={}s back={}s; outcomes: {}", p.http.knobs.max_connections, p.http.clients.len() - 1, p.storm, p.http.knobs.accept_queue_timeout, p.http.knobs.front_timeout, p.http.knobs.back_timeout,
            o.clients.iter().map(|c| if c.rec.connect_err.is_some() { "refused" } else if c.rec.gave_up { "gave_up" } else if c.rec.aborted { "aborted" } else if c.rec.eof { "closed_by_sozu" } else { "done" }).collect::<Vec<_>>().join(","));
        rep.nontrivial = o.clients.iter().any(|c| !c.responses.is_empty());
        rep.probes.insert("max_served_equals_limit".into(), (o.max_served == p.http.knobs.max_connections) as u64);
        rep.probes.insert("queued_beyond_limit".into(), (o.max_open_accepted > p.http.knobs.max_connections) as u64);
        rep.probes.insert("clients_closed_by_sozu".into(), o.clients.iter().filter(|c| c.rec.eof).count() as u64);
        rep.probes.insert("clients_gave_up".into(), o.clients.iter().filter(|c| c.rec.gave_up).count() as u64);
        let ft = p.http.knobs.front_timeout as u64;
        let idle: Vec<usize> = p.http.clients.iter().enumerate().filter(|(_, c)| c.linger_ns >= (ft + 3) * SEC && c.abort.is_none()).map(|(i, _)| i).collect();
        rep.probes.insert("idle_clients_reclaimed_by_front_timeout".into(), idle.iter().filter(|i| o.clients.get(**i).map(|c| c.rec.t_close_seen > 0 && c.responses.len() == p.http.clients[**i].requests.len()).unwrap_or(false)).count() as u64);
        if ft * 10 > 256 { rep.probes.insert("idle_clients_front_timeout_beyond_one_wheel_revolution".into(), idle.len() as u64); }
        rep.probes.insert("proxy_answers".into(), o.clients.iter().flat_map(|c| c.responses.iter()).filter(|m| m.sim_id.is_none()).count() as u64);
        if let Some(e) = o.boot_error { rep.harness_error = Some(format!("worker boot failed: {e}")); }
        rep
    }
    fn shrink(&self, plan: &Value) -> Vec<Value> {
        if plan.get("ip_family").is_some() {
            let Ok(p) = serde_json::from_value::<c16_ip::IpPlan>(plan.clone()) else { return vec![] };
            return c16_ip::shrink(&p).into_iter().map(|q| serde_json::to_value(q).unwrap()).collect();
        }
        let Ok(p) = serde_json::from_value::<Plan>(plan.clone()) else { return vec![] };
        let mut out = Vec::new();
        for h in c01::shrink_http(&p.http) {
            if h.clients.last().map(|c| c.name.as_str()) != Some("probe") { continue; }
            if h.clusters.len() != 3 { continue; }
            let mut q = p.clone(); q.http = h; out.push(serde_json::to_value(q).unwrap());
        }
        out
    }
    fn debug_plan(&self, plan: &Value) -> String {
        if plan.get("ip_family").is_some() { return c16_ip::debug(&serde_json::from_value(plan.clone()).unwrap()); }
        let p: Plan = serde_json::from_value(plan.clone()).unwrap();
        let o = run(&p, true);
        let mut s = String::new();
        for l in &o.log { s += l; s.push('\n'); }
        s += &format!("board={:?} max_served={} max_open_accepted={}\nQ0={:?}\nQ1={:?}\n", o.board, o.max_served, o.max_open_accepted, gauges_of(&o, "Q0"), gauges_of(&o, "Q1"));
        for (i, c) in o.clients.iter().enumerate() { s += &format!("client {i} {}: {:?} responses={:?}\n", p.http.clients[i].name, c.rec, c.responses.iter().map(|m| m.start.clone()).collect::<Vec<_>>()); }
        s
    }
    fn descr(&self) -> Descr {
        Descr {
            level: "exploration",
            rule: "three plan families, one real worker each. (h1_mix, h1_storm) seeded mixes of H1 session outcomes (complete, client abort at a byte offset, client stall, half-close, backend close/stall/garbage/slow, refused or black-holed backends, unknown host) with max_connections 2..64 and connection storms up to 3x the limit. (per_ip, one plan in three) 2-4 client IPs with 3..12 (thorough: 20) mostly long-lived connections - keep-alive H1, HTTP/2 over real TLS with several streams, TCP-listener sessions relayed to the same backends, WebSocket upgrades, cleartext sent to the HTTPS listener (failed handshake) - towards 1-2 clusters routed by path on one host name, global max_connections_per_ip 0/1/2/3/5 from the worker configuration, cluster-level overrides and retry_after values, backends that refuse, black-hole, close or stall mid-response, client aborts/resets/half-closes/idle time-outs, max_connections 3..6 with or without evict_on_queue_full in one plan in five, and 0..5 master commands at seeded virtual times while connections are open: SetMaxConnectionsPerIp to a higher / lower / same / zero / back-to-non-zero value, RemoveCluster, AddCluster again with another override. Oracles: (footprint, all families) sockets the worker is serving at once (accepted, touched, not closed - counted by the hooks) never exceed max_connections; after all peers left and virtual time passed every timeout no accepted/connected socket remains, the gauges client.connections/slab.entries/buffer.in_use/http.active_requests/accept_queue.*/backend.connections read through QueryMetrics equal their pre-traffic baseline, and a fresh probe client is served. (per-IP slot model, written from the property and doc/rate-limit-design.md) every request is a gate decision taken between its first byte sent and the first byte of its answer (or its arrival at a backend); a connection holds one slot per cluster from its first admitted request to that cluster until the worker closes its socket (bounds on that instant are observed at the socket layer between loop iterations); the limit in force is the cluster override, else the global value, each version valid from somewhere between command sent and acknowledged; for each decision the model computes the connections of the same IP that certainly / possibly hold a slot and the limits possibly in force, hence the set of acceptable answers: admission with `certain holders >= every possible limit` is per_ip_limit_exceeded; a 429 (TCP: close without a byte, request never relayed) with `possible holders < every possible limit`, or while disabled, is per_ip_false_reject - reported as per_ip_slot_leak when only connections that are already over explain it and as per_ip_double_slot when only counting requests instead of connections explains it or when the refused connection itself already holds the slot; a 429 carries the configured Retry-After (cluster override, else global, none for 0) and its request never reaches a backend; after quiescence the global limit is set to 1 and one new connection per (IP, cluster) must be admitted (else per_ip_slot_leak). Keys of the per-IP classes: the last master command sent before the judged request (limit_raised, limit_lowered, limit_disabled, limit_reenabled, same_value, cluster_removed, cluster_readded, none). Non-trivial = at least one response delivered (per-IP: one admitted request); distinct = trace hashes (per-IP: mixed with the model's decision counts)",
            assumptions: vec!["AF_UNIX stands in for TCP", "release semantics", "the per-IP limit is an admission limit: connections admitted before a lowering are not expected to be closed", "after SetMaxConnectionsPerIp(0) both readings are accepted for connections opened before it: they still count, or the documented clean slate", "requests decided while their cluster is removed are not judged (they still count as possible slot holders)"],
            real: vec!["sozu_lib::server::Server::run incl. SessionManager (check_limits, per-(cluster, IP) track/untrack/clear, eviction), accept queue, timers, zombie checker, metrics local drain, QueryMetrics", "mux router gate and 429 answer with Retry-After, TCP gate (lib/src/tcp.rs)", "SetMaxConnectionsPerIp / AddCluster / RemoveCluster handling in the worker", "HTTPS listener with rustls and the HTTP/2 mux (clients speak real TLS), TCP listener, WebSocket upgrade to the pipe state"],
            stub: vec!["IP network", "clock", "entropy", "clients", "backends", "master"],
            not_covered: vec!["connection storms with HTTP/2, TLS, TCP or WebSocket sessions beyond the per-IP plans that run with max_connections 3..6 (the storm family proper stays H1-only)", "per-IP key taken from a PROXY-protocol header", "custom 429 answer templates", "how soon an idle or stuck session is reclaimed (only that nothing is left after every timeout has passed)", "HTTP/2 (h2c) backends in the per-IP family", "several workers (the limit is per worker by design)", "gauge-underflow log line (only values > 2^31 are flagged)"],
        }
    }
}
