//! C02, HTTP/2 frontend family: several streams of one H2 client connection (over TLS) are relayed to
//! H1 backend connections; the backend cuts or stalls the response of ONE victim stream at a byte
//! offset while the client reads slowly (so that sozu has half-written frames in flight).
//!
//! Oracle: the victim ends in exactly one of {complete byte-exact relay (only if the fault offset is
//! past the end), proxy answer 502/503/504 when nothing of the response was relayed, explicit abort
//! (RST_STREAM / GOAWAY / connection close) after a byte-exact prefix}; never a complete-looking short
//! body; and "a failure of one request never corrupts or stalls other requests on the same connection":
//! every sibling stream completes byte-exactly and the client's frame ledger stays clean.
use std::collections::BTreeMap;

use serde::{Deserialize, Serialize};

use super::c14;
use crate::actors::h1::{BackendPlan, BodySpec, RespFault, RespSpec};
use crate::actors::h2::{Cancel, ClientOp, H2ClientPlan, H2ConnPlan, H2ReqSpec, SettingsSpec, WuMode, WuPolicy};
use crate::actors::tls::TlsPlan;
use crate::actors::Pace;
use crate::framework::*;
use crate::muxscn::{h2_client_obs, BackendRecords, MuxBackend, MuxCluster, MuxOutcome, MuxPlan};
use crate::netsim::{self, Knobs};
use crate::prng::Prng;
use crate::scenario::{boundary_size, random_chunks, BackendMode};
use crate::world::{MS, SEC};

#[derive(Clone, Debug, Serialize, Deserialize, PartialEq)]
pub enum MuxCause {
    CloseAt(usize),
    StallAt(usize),
    /// the client resets the victim stream (RST_STREAM CANCEL) once it has received this many body
    /// bytes, while the backend is still sending; later requests on the connection must be unaffected
    ClientCancel(usize),
}

#[derive(Clone, Debug, Serialize, Deserialize)]
pub struct MuxFaultPlan {
    pub mux: MuxPlan,
    pub victim: u64,
    pub mcause: MuxCause,
    pub head_len: usize,
    pub resp_len: usize,
    pub deadline_ns: u64,
}

pub fn generate(seed: u64, tier: Tier) -> MuxFaultPlan {
    let mut rng = Prng::derive(seed, "c02/mux");
    let faulty = rng.below(3) == 0;
    let mut knobs = Knobs::default();
    knobs.buffer_size = *rng.pick(&[16393u64, 16393, 20000, 32768]);
    knobs.back_timeout = *rng.pick(&[2u32, 5]);
    knobs.front_timeout = *rng.pick(&[20u32, 60]);
    let max_body = match tier { Tier::Quick => 120_000, Tier::Thorough => 600_000 };
    let nstreams = 2 + rng.below(3) as usize;
    let victim = 1 + rng.below(nstreams as u64);
    let cancel_family = rng.below(4) == 0;
    let mut h1_resp = BTreeMap::new();
    let mut ops = Vec::new();
    let mut hint = 0usize;
    let (mut head_len, mut resp_len, mut mcause) = (0, 0, MuxCause::CloseAt(0));
    for i in 0..nstreams {
        let id = 1 + i as u64;
        let mut r = H2ReqSpec::get(id, "c0.test", &format!("/r/{id}"));
        let len = boundary_size(&mut rng, knobs.buffer_size as usize, max_body).max(if id == victim { if cancel_family { 60_000 } else { 2000 } } else { 0 });
        if id == victim && cancel_family { r.cancel = Some(Cancel { after_sent_body: None, after_recv_body: Some(1 + rng.below(len as u64 / 2)), code: 8 }); }
        ops.push(ClientOp::Req(r));
        let body = if rng.below(2) == 0 { BodySpec::Cl(len) } else { BodySpec::Chunked(random_chunks(&mut rng, len)) };
        let mut resp = RespSpec::ok(body);
        hint += len + 500;
        if id == victim {
            let rendered = resp.render(id);
            head_len = rendered.windows(4).position(|w| w == b"\r\n\r\n").map(|p| p + 4).unwrap_or(rendered.len());
            resp_len = rendered.len();
            let k = match rng.below(6) {
                0 => 0,
                1 => 1 + rng.below(head_len as u64 - 1) as usize,
                // mid body, leaving a good part unsent so that the cut is observable
                _ => head_len + rng.below((resp_len - head_len) as u64 * 3 / 4 + 1) as usize,
            };
            if cancel_family {
                mcause = MuxCause::ClientCancel(0);
            } else {
                mcause = if rng.below(4) == 0 { MuxCause::StallAt(k) } else { MuxCause::CloseAt(k) };
                resp.fault = Some(match &mcause { MuxCause::CloseAt(k) => RespFault::CloseAt(*k), MuxCause::StallAt(k) => RespFault::StallAt(*k), MuxCause::ClientCancel(_) => unreachable!() });
            }
        }
        h1_resp.insert(id, resp);
    }
    // a late sibling (half of the stall plans): opened half a back_timeout after the others, answered by its own backend
    // connection after three quarters of a back_timeout - so it is waiting for its backend, well inside its own
    // deadline, at the instant the victim's back_timeout fires. It must get its whole answer.
    let mut extra = 0u64;
    if matches!(mcause, MuxCause::StallAt(_)) && rng.below(2) == 0 {
        let id = nstreams as u64 + 2;
        let bt = knobs.back_timeout as u64;
        ops.push(ClientOp::Sleep(bt * SEC / 2));
        ops.push(ClientOp::Req(H2ReqSpec::get(id, "c0.test", &format!("/r/{id}"))));
        let len = 1 + rng.below(20_000) as usize;
        let mut resp = RespSpec::ok(BodySpec::Cl(len));
        resp.delay_ns = bt * SEC * 3 / 4;
        h1_resp.insert(id, resp);
        hint += len + 500;
        extra = 1;
    }
    let _ = extra;
    // a follow-up request once every stream opened so far is over (completed, reset or cancelled): the
    // connection, and the backend connections sozu keeps, must still be usable
    {
        let id = nstreams as u64 + 1;
        ops.push(ClientOp::WaitStreams);
        ops.push(ClientOp::Req(H2ReqSpec::get(id, "c0.test", &format!("/r/{id}"))));
        let len = 1 + rng.below(3000) as usize;
        h1_resp.insert(id, RespSpec::ok(BodySpec::Cl(len)));
        hint += len + 500;
    }
    // slow reader: sozu's writes toward the client block in the middle of frames
    let pace_c = Pace::random_budget(&mut rng, hint, 400_000_000);
    let pace_b = Pace::random_budget(&mut rng, hint, 200_000_000);
    let backend = MuxBackend::H1(BackendPlan { name: "b0".into(), addr: "10.1.0.1:8000".parse().unwrap(), pace: pace_b, responses: h1_resp, default: RespSpec::ok(BodySpec::Cl(3)), close_on_accept: vec![], listen_from_ns: 0, listen_until_ns: 0 });
    let https_front = "10.0.0.1:443".parse().unwrap();
    let mut c = H2ClientPlan::simple("h2c0", "192.0.2.7:40001".parse().unwrap(), https_front, Some(TlsPlan::h2("c0.test")), vec![]);
    c.script = ops;
    c.pace = pace_c;
    let mut conn = H2ConnPlan::default();
    let mut s = SettingsSpec::default();
    s.enable_push = Some(0);
    if rng.below(2) == 0 { s.initial_window_size = Some(*rng.pick(&[16384u32, 65535, 100_000, 1_000_000])); }
    if rng.below(3) == 0 { s.max_frame_size = Some(*rng.pick(&[16384u32, 32768, 65536])); }
    conn.settings = s;
    let step = ((hint / 40).clamp(2048, 60000)) as u32;
    conn.wu = WuPolicy { stream: if rng.below(2) == 0 { WuMode::Threshold(step) } else { WuMode::WhenExhausted }, conn: WuMode::Threshold(step), fallback_ns: 20 * MS + rng.below(20 * MS) };
    c.conn = conn;
    c.max_concurrent = 100;
    let deadline = 6 * SEC + (knobs.front_timeout as u64 + knobs.back_timeout as u64) * SEC;
    c.give_up_ns = deadline + 20 * SEC;
    c.start_ns = rng.below(3) * MS;
    let name = match &mcause { MuxCause::CloseAt(k) => if *k == 0 { "close_before_answer" } else if *k < head_len { "close_mid_head" } else { "close_mid_body" }, MuxCause::StallAt(k) => if *k < head_len { "stall_before_answer" } else { "stall_mid_body" }, MuxCause::ClientCancel(_) => "client_cancel" };
    let mux = MuxPlan {
        seed,
        family: format!("h2h1_{name}{}", if faulty { "+buggify" } else { "" }),
        knobs,
        sched: netsim::default_sched(&mut rng, faulty),
        http_front: "10.0.0.1:80".parse().unwrap(),
        https_front,
        clusters: vec![MuxCluster { id: "c0".into(), host: "c0.test".into(), backend, mode: BackendMode::Listen { delay_ns: 0 } }],
        h1_clients: vec![],
        h2_clients: vec![c],
        sndbufs: if rng.below(2) == 0 { Some(vec![0, 4608, 9216, 32768]) } else { None },
        settle_ns: 0,
        soft_stop_at_ns: None,
        h2_deadline_secs: None,
    };
    MuxFaultPlan { mux, victim, mcause, head_len, resp_len, deadline_ns: deadline }
}

fn cname(p: &MuxFaultPlan) -> &'static str {
    match &p.mcause { MuxCause::CloseAt(k) => if *k == 0 { "close_before_answer" } else if *k < p.head_len { "close_mid_head" } else { "close_mid_body" }, MuxCause::StallAt(k) => if *k < p.head_len { "stall_before_answer" } else { "stall_mid_body" }, MuxCause::ClientCancel(_) => "client_cancel" }
}

pub fn oracle(p: &MuxFaultPlan, o: &MuxOutcome) -> Vec<Violation> {
    let mut v = Vec::new();
    let key = |sym: &str| format!("{sym}|h2front;cause={}", cname(p));
    if let Some(pn) = &o.panicked {
        // key = the panic message with numbers blanked, and the plan-level trigger of the recorded kawa defect
        // (C13-P1 / C03-F9: out-of-order slices in a request head + partial writes toward the backend): the
        // plan injects short writes / EAGAIN. Everything else in such a run is a consequence of the crash.
        let mut k = String::new();
        let mut last_digit = false;
        for c in pn.chars().take(90) { if c.is_ascii_digit() { if !last_digit { k.push('N'); } last_digit = true; } else { k.push(if c == ' ' { '_' } else { c }); last_digit = false; } }
        let trig = if p.mux.sched.short_write_pm > 0 || p.mux.sched.eagain_pm > 0 { "h2_request_head_to_h1_backend_with_injected_short_writes" } else { "none" };
        v.push(Violation::new("panic", format!("worker:{k}|{trig}"), pn.clone()));
        return v;
    }
    if let Some(a) = &o.aborted { v.push(Violation::new("no_exit", key(a), format!("run aborted: {a}"))); }
    let rec = &o.h2_clients[0];
    if let Some(e) = rec.connect_err { v.push(Violation::new("no_answer", key("connect_failed"), format!("h2 client could not connect: errno {e}"))); return v; }
    if let Some(t) = &rec.tls { if !t.handshake_done { v.push(Violation::new("no_answer", key("tls_handshake_failed"), format!("TLS handshake failed: {:?}", t.error))); return v; } }
    let resp_body_len = |id: u64| -> u64 { match &p.mux.clusters[0].backend { MuxBackend::H1(b) => b.responses[&id].body.len() as u64, _ => 0 } };
    let conn_gone = rec.eof || rec.reset || rec.io_err.is_some() || !rec.goaways.is_empty();
    // what the peer's own frame decoder and ledger saw: a desynchronised frame stream shows up here
    for lv in &rec.violations { v.push(Violation::new("frame_stream_broken", key(&lv.kind), format!("client ledger: {lv:?}"))); }
    for c in &p.mux.h2_clients {
        for r in c.requests() {
            let obs = h2_client_obs(rec, r.id);
            let want_len = resp_body_len(r.id);
            if r.id != p.victim {
                // siblings: unaffected. A stream sozu never processed (above the last_stream_id of a
                // graceful GOAWAY, or never sent because the GOAWAY came first) is explicitly retryable
                // elsewhere and neither corrupted nor stalled.
                let refused = rec.requests_not_sent.contains(&r.id) || rec.stream_for(r.id).map_or(true, |s| s.refused_by_goaway);
                if refused && !rec.goaways.is_empty() { continue; }
                // RST_STREAM(REFUSED_STREAM) promises that nothing was processed (RFC 9113 §8.7): the
                // request is retryable, provided the promise is true
                if rec.stream_for(r.id).map_or(false, |s| s.recv_rst == Some(7) && s.status.is_none()) {
                    let seen = crate::muxscn::backend_obs(&o.backends[0], r.id).seen;
                    if seen > 0 { v.push(Violation::new("sibling_harmed", key("refused_but_forwarded"), format!("sibling #{}: RST_STREAM(REFUSED_STREAM) although the request reached the backend {seen} time(s)", r.id))); }
                    continue;
                }
                if !obs.answered { v.push(Violation::new("sibling_harmed", key("no_answer"), format!("sibling #{}: no response (aborted={:?}, connection gone={conn_gone})", r.id, obs.aborted))); continue; }
                if obs.sim_id != Some(r.id) || obs.status != Some(200) { v.push(Violation::new("sibling_harmed", key(&format!("status={}", obs.status.unwrap_or(0))), format!("sibling #{}: status {:?} sim_id {:?}", r.id, obs.status, obs.sim_id))); continue; }
                if let Some(off) = obs.first_bad { v.push(Violation::new("sibling_harmed", key("corrupted"), format!("sibling #{}: body differs at offset {off}: {:02x?}", r.id, &obs.bad_bytes[..obs.bad_bytes.len().min(32)]))); }
                else if !obs.complete || obs.body_len != want_len { v.push(Violation::new("sibling_harmed", key(if obs.complete { "wrong_length" } else { "unterminated" }), format!("sibling #{}: {} of {want_len} body bytes, complete={}, aborted={:?}", r.id, obs.body_len, obs.complete, obs.aborted))); }
                if obs.t_sent > 0 && obs.t_end > obs.t_sent + p.deadline_ns { v.push(Violation::new("sibling_harmed", key("late"), format!("sibling #{}: finished {} ms after it was sent", r.id, (obs.t_end - obs.t_sent) / MS))); }
                continue;
            }
            // the victim
            if let MuxCause::ClientCancel(_) = &p.mcause {
                // the client gave the stream up itself: what it received before that must be a byte-exact prefix
                if obs.answered && obs.sim_id.is_some() && obs.sim_id != Some(r.id) { v.push(Violation::new("wrong_answer", key("foreign_response"), format!("victim #{}: response of request {:?}", r.id, obs.sim_id))); }
                if let Some(off) = obs.first_bad { v.push(Violation::new("body_mismatch", key("corrupted_before_cancel"), format!("victim #{}: delivered bytes differ at {off}", r.id))); }
                continue;
            }
            let k = match &p.mcause { MuxCause::CloseAt(k) | MuxCause::StallAt(k) => *k, MuxCause::ClientCancel(_) => 0 };
            let want = if matches!(p.mcause, MuxCause::CloseAt(_)) { vec![502u16, 503] } else { vec![504u16] };
            let explicit_abort = obs.aborted.is_some() || conn_gone;
            if rec.gave_up && !obs.complete && !explicit_abort {
                v.push(Violation::new("no_answer", key("silence_past_deadline"), format!("victim #{}: neither answer nor abort {} ms after connect; status={:?} body={}", r.id, c.give_up_ns / MS, obs.status, obs.body_len)));
                continue;
            }
            if obs.answered && obs.sim_id == Some(r.id) {
                // relayed head reached the client
                if k < p.head_len { v.push(Violation::new("wrong_status", key("got=relayed"), format!("victim #{}: relayed response head although the backend sent only {k} of {} head bytes", r.id, p.head_len))); }
                if let Some(off) = obs.first_bad { v.push(Violation::new("body_mismatch", key("corrupted_before_abort"), format!("victim #{}: delivered bytes differ at {off}", r.id))); }
                if obs.complete { v.push(Violation::new("short_body_presented_complete", key("end_stream"), format!("victim #{}: backend cut its response at byte {k} of {}, the client saw END_STREAM after {} of {want_len} body bytes", r.id, p.resp_len, obs.body_len))); }
                else if !explicit_abort { v.push(Violation::new("no_answer", key("no_abort"), format!("victim #{}: response started, never finished, never aborted", r.id))); }
                if obs.body_len > want_len { v.push(Violation::new("body_mismatch", key("more_than_backend_sent"), format!("victim #{}: {} body bytes of {want_len}", r.id, obs.body_len))); }
            } else if obs.answered {
                let s = obs.status.unwrap_or(0);
                if !want.contains(&s) { v.push(Violation::new("wrong_status", key(&format!("got={s}")), format!("victim #{}: proxy answer {s}, allowed {want:?} or an abort", r.id))); }
                else if !obs.complete && !explicit_abort { v.push(Violation::new("malformed_answer", key("unterminated_default_answer"), format!("victim #{}: proxy answer {s} not terminated", r.id))); }
            } else if !explicit_abort {
                v.push(Violation::new("no_answer", key("no_abort"), format!("victim #{}: no answer, no abort", r.id)));
            }
            if obs.t_sent > 0 && obs.t_end > obs.t_sent + p.deadline_ns { v.push(Violation::new("late_answer", key("deadline"), format!("victim #{}: terminal observation {} ms after the request", r.id, (obs.t_end - obs.t_sent) / MS))); }
        }
    }
    if let BackendRecords::H1(recs) = &o.backends[0] { for r in recs { if let Some(e) = &r.parse_error { v.push(Violation::new("backend_stream_not_strict", key("parse_error"), format!("backend conn {}: {e}", r.idx))); } } }
    v
}

pub fn summarize(p: &MuxFaultPlan) -> String {
    format!("{} victim=#{} {:?} (head {} of {} bytes), {} streams, buf={}", p.mux.family, p.victim, p.mcause, p.head_len, p.resp_len, p.mux.h2_clients[0].requests().len(), p.mux.knobs.buffer_size)
}

pub fn shrink(p: &MuxFaultPlan) -> Vec<MuxFaultPlan> {
    let mut out = Vec::new();
    for m in c14::shrink_mux(&p.mux) {
        // keep the victim stream and its planned response
        let has_victim = m.h2_clients.get(0).map_or(false, |c| c.requests().iter().any(|r| r.id == p.victim));
        let same_resp = match (&m.clusters[0].backend, &p.mux.clusters[0].backend) { (MuxBackend::H1(a), MuxBackend::H1(b)) => serde_json::to_string(&a.responses.get(&p.victim)).unwrap() == serde_json::to_string(&b.responses.get(&p.victim)).unwrap(), _ => false };
        if !has_victim || !same_resp || m.h2_clients[0].requests().len() < 2 { continue; }
        let mut q = p.clone();
        q.mux = m;
        out.push(q);
    }
    out
}
