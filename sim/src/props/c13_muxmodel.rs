//! C13 mux family, reference model. Written from the property statement, RFC 9110 (5.3 field order,
//! 5.5 field values, 6.5 trailers, 7.6.1 connection-specific fields), RFC 9113 (8.2.1 field validity,
//! 8.2.2 connection-specific fields, 8.2.3 cookie splitting, 8.3 pseudo-header fields), RFC 6797 (one
//! Strict-Transport-Security field) and doc/configure.md — no sozu code is called.
//!
//! Per field name the *sequence of values* at the receiver is decided from what the sender sent:
//!
//!  * ordinary end-to-end field: exactly the sender's values (octet for octet, minus optional
//!    whitespace around an HTTP/1.1 field line), in the sender's order; also accepted: all values of one
//!    name combined into one line with ", " (RFC 9110 5.3), except for Set-Cookie;
//!  * Host / `:authority`, method, target, `:scheme`: unchanged;
//!  * `content-length`: unchanged when sent; when not sent, absent or the true length; `transfer-encoding`
//!    only toward an HTTP/1.1 peer and only `chunked`;
//!  * `cookie`: the sender's cookie pairs in order, minus sozu's sticky cookie (gone when the cluster is
//!    sticky, either way when not), split over any number of fields (RFC 9113 8.2.3);
//!  * connection-specific fields (Connection, Keep-Alive, Proxy-Connection, Transfer-Encoding, Upgrade, every
//!    field named by a Connection option, TE other than `trailers`): never toward an HTTP/2 peer; toward
//!    an HTTP/1.1 peer `Connection` only as the proxy's own keep-alive/close;
//!  * request identity fields: `c13_model::check_identity` (shared with the HTTP/1.1 family);
//!  * request trailers: forwarded intact or dropped as a whole; identity fields never;
//!  * response: the backend's fields plus exactly one correlation header equal to the request's, the
//!    sticky Set-Cookie when the cluster is sticky and the request did not carry the serving backend's id,
//!    one Strict-Transport-Security on an HTTPS frontend with an HSTS policy (the backend's own if it sent one);
//!  * nothing else, and nothing that belongs to another request.
use std::collections::BTreeSet;

use super::super::c13_model::{self as model, cookie_name, cookie_pairs, diff, lc, trim, Foreign, ReqCtx};
use super::super::{sticky_id, CReq, CResp};
use super::{h2_req_cl, h2_resp_cl, h2_sent_fields, MReq, MuxFam};
use crate::framework::Violation;

pub struct BackObs {
    pub h2: bool,
    pub method: String,
    pub path: String,
    pub authority: Option<String>,
    pub scheme: Option<String>,
    /// regular fields in wire order
    pub fields: Vec<(String, String)>,
    pub trailers: Vec<(String, String)>,
    pub complete: bool,
    /// what the HTTP/2 peer's own decoder noted about the field block (actors/h2.rs header_issues)
    pub issues: Vec<String>,
    pub conn: usize,
    pub reused_conn: bool,
}

#[derive(Default)]
pub struct ClientSeen {
    pub h2: bool,
    pub answered: bool,
    pub status: Option<u16>,
    pub sim_id: Option<u64>,
    pub fields: Vec<(String, String)>,
    pub body_len: u64,
    pub body_ok: bool,
    pub complete: bool,
    pub issues: Vec<String>,
    pub aborted: Option<String>,
}
impl ClientSeen {
    /// what the client saw when it did not get the backend's response
    pub fn outcome(&self) -> String {
        if self.answered { format!("status={}", self.status.unwrap_or(0)) } else if let Some(a) = &self.aborted { a.clone() } else { "status=none".into() }
    }
}

const CONN_SPECIFIC: &[&str] = &["connection", "keep-alive", "proxy-connection", "transfer-encoding", "upgrade"];
const IDENTITY: &[&str] = &["x-forwarded-for", "forwarded", "x-real-ip", "x-forwarded-proto", "x-forwarded-port", "x-request-id"];

pub fn short(l: &[(String, String)]) -> Vec<(String, String)> { l.iter().map(|h| (h.0.clone(), if h.1.len() > 60 { format!("{}..({} bytes)", h.1.chars().take(40).collect::<String>(), h.1.len()) } else { h.1.clone() })).collect() }
fn cut(v: &[String]) -> Vec<String> { v.iter().map(|x| if x.len() > 60 { format!("{}..({} bytes)", x.chars().take(40).collect::<String>(), x.len()) } else { x.clone() }).collect() }

/// regular fields of a request as the client sends them: (name as sent, value without optional whitespace)
pub fn sent_request(p: &MuxFam, r: &CReq) -> Vec<(String, String)> {
    if p.h2_client() { h2_sent_fields(r.id, &r.headers.iter().map(|h| (h.0.clone(), h.1.clone())).collect::<Vec<_>>(), h2_req_cl(r)) }
    else { r.headers.iter().map(|h| (h.0.clone(), trim(&h.1).to_string())).collect() }
}
pub fn sent_response(p: &MuxFam, id: u64, r: &CResp) -> Vec<(String, String)> {
    if p.h2_backend() { h2_sent_fields(id, &r.headers, h2_resp_cl(r)) } else { r.headers.iter().map(|h| (h.0.clone(), trim(&h.1).to_string())).collect() }
}

/// distinguishing feature of one field value (for violation keys)
pub fn value_feature(v: &str, ows: u8) -> &'static str {
    if v.contains('\t') { "value=htab" }
    else if v.bytes().any(|b| b >= 0x80) { "value=obs_text" }
    else if v.is_empty() { "value=empty" }
    else if v.len() > 900 { "value=long" }
    else if ows != 0 { "value=ows" }
    else if v.contains(',') || v.contains(';') || v.contains('"') { "value=structured" }
    else if v.contains("  ") { "value=inner_spaces" }
    else { "value=plain" }
}
fn ows_of(r: &CReq, name: &str, val: &str) -> u8 { r.headers.iter().find(|h| h.0 == name && trim(&h.1) == val).map_or(0, |h| h.2) }

fn feature_of_list(l: &[(String, String)], names_by_conn: bool, trailers: bool) -> String {
    let has = |n: &str| l.iter().any(|h| lc(&h.0) == n);
    let any = |f: &dyn Fn(&str) -> bool| l.iter().any(|h| f(&h.1));
    let f = if trailers { "trailers" }
        else if any(&|v| v.bytes().any(|b| b >= 0x80)) { "value=obs_text" }
        else if any(&|v| v.contains('\t')) { "value=htab" }
        else if any(&|v| v.len() > 900) { "value=long" }
        else if l.iter().any(|h| h.1.is_empty()) { "value=empty" }
        else if names_by_conn || CONN_SPECIFIC.iter().any(|n| *n != "transfer-encoding" && has(n)) || has("te") { "connection_specific" }
        else if has("cookie") || has("set-cookie") { "cookie" }
        else if IDENTITY.iter().any(|n| has(n)) { "identity_fields" }
        else { "plain" };
    f.to_string()
}
pub fn request_feature(p: &MuxFam, r: &CReq) -> String { feature_of_list(&sent_request(p, r), false, !r.trailers.is_empty()) }
pub fn response_feature(p: &MuxFam, r: &CResp) -> String { feature_of_list(&sent_response(p, 0, r), false, false) }

/// Fidelity of the values of one ordinary field name. `s`: (value, whitespace variant) as sent, `g`: as received.
#[allow(clippy::too_many_arguments)]
fn fidelity(dir: &str, pair: &str, name: &str, s: &[(String, u8)], g: &[String], allow_join: bool, v: &mut Vec<Violation>, probe: &mut dyn FnMut(&str, u64)) {
    let sv: Vec<&str> = s.iter().map(|x| x.0.as_str()).collect();
    let gv: Vec<&str> = g.iter().map(|x| x.as_str()).collect();
    if sv == gv { probe("fields_intact", sv.len() as u64); return; }
    if allow_join && sv.len() > 1 && gv.len() == 1 && (gv[0] == sv.join(", ") || gv[0] == sv.join(",")) { probe("obs:same_name_fields_combined", 1); return; }
    let key = |f: &str| format!("{dir}|{pair}|{f}");
    let what = format!("field {name:?}: receiver got {:?}, sender sent {:?}", cut(g), cut(&s.iter().map(|x| x.0.clone()).collect::<Vec<_>>()));
    let mut g_used = vec![false; g.len()];
    let mut missing: Vec<usize> = Vec::new();
    for (i, x) in sv.iter().enumerate() {
        match (0..gv.len()).find(|j| !g_used[*j] && gv[*j] == *x) { Some(j) => g_used[j] = true, None => missing.push(i) }
    }
    let extra: Vec<usize> = (0..gv.len()).filter(|j| !g_used[*j]).collect();
    if missing.is_empty() && extra.is_empty() {
        v.push(Violation::new("header_altered", format!("{dir}|{pair}|dup_order"), format!("same-name fields reordered: {what}")));
        return;
    }
    let n_alt = missing.len().min(extra.len());
    for k in 0..n_alt {
        let (i, j) = (missing[k], extra[k]);
        // a value that differs only in whitespace at its edges lost / kept optional whitespace
        let f = if trim(gv[j]) == sv[i] && gv[j] != sv[i] { "value=ows" } else { value_feature(sv[i], s[i].1) };
        v.push(Violation::new("header_altered", key(f), format!("value {:?} arrived as {:?}; {what}", cut(&[sv[i].to_string()]), cut(&[gv[j].to_string()]))));
    }
    for i in &missing[n_alt..] { v.push(Violation::new("header_lost", key(value_feature(sv[*i], s[*i].1)), format!("value {:?} missing; {what}", cut(&[sv[*i].to_string()])))); }
    for j in &extra[n_alt..] {
        if let Some(i) = sv.iter().position(|x| *x == gv[*j]) { v.push(Violation::new("header_duplicated", key(value_feature(sv[i], s[i].1)), format!("value {:?} arrived more often than sent; {what}", cut(&[gv[*j].to_string()])))); }
        else { v.push(Violation::new("foreign_header", format!("{dir}|{pair}|extra_value_under_sent_name"), format!("value {:?} was never sent; {what}", cut(&[gv[*j].to_string()])))); }
    }
}

fn vals<'a>(l: &'a [(String, String)], n: &str) -> Vec<&'a str> { l.iter().filter(|h| h.0 == n).map(|h| h.1.as_str()).collect() }

/// notes of the HTTP/2 peer about the block sozu wrote (uppercase names, pseudo-header faults, invalid octets);
/// connection-specific fields are judged by the model itself
fn h2_issues(dir: &str, pair: &str, issues: &[String], v: &mut Vec<Violation>) {
    for i in issues {
        if i.starts_with("connection-specific field") || i.starts_with("te other than trailers") { continue; }
        if i.starts_with("uppercase field name") { v.push(Violation::new("connection_specific_crossed_into_h2", format!("{dir}|{pair}|uppercase_name"), format!("HTTP/2 peer: {i}"))); continue; }
        let norm: String = i.split(' ').take(4).collect::<Vec<_>>().join("_").chars().filter(|c| c.is_ascii_alphanumeric() || *c == '_' || *c == ':').collect();
        v.push(Violation::new("h2_header_block_invalid", format!("{dir}|{pair}|{norm}"), format!("HTTP/2 peer: {i}")));
    }
}

fn isolation(dir: &str, start: &str, got: &[(String, String)], trailers: &[(String, String)], foreign: &[Foreign], reused: bool, v: &mut Vec<Violation>) {
    let mut hay = String::from(start);
    for h in got.iter().chain(trailers.iter()) { hay.push('\n'); hay += &h.0; hay.push(':'); hay += &h.1; }
    for f in foreign {
        if hay.contains(&f.needle) {
            let line: String = hay.lines().find(|l| l.contains(&f.needle)).unwrap_or("").chars().take(200).collect();
            v.push(Violation::new("cross_client_leak", format!("{dir}:{}|other_request_same_client{}", f.what, if reused && dir == "request" { ",backend_conn_reused" } else { "" }), format!("{:?} (belongs to another request of this client) found in {line:?}", f.needle)));
        }
    }
}

pub fn check_request(p: &MuxFam, r: &CReq, sent_raw: &[(String, String)], b: &BackObs, ctx: &ReqCtx, probe: &mut dyn FnMut(&str, u64)) -> Vec<Violation> {
    let mut v: Vec<Violation> = Vec::new();
    let pair = p.pair.as_str();
    let dir = "request";
    let o = ctx.opts;
    let corr = lc(o.corr());
    let sent: Vec<(String, String)> = sent_raw.iter().map(|h| (lc(&h.0), h.1.clone())).collect();
    // an HTTP/1.1 receiver parsed lines: optional whitespace is not part of the value; an HTTP/2 receiver got exact octets
    let got: Vec<(String, String)> = b.fields.iter().map(|h| (lc(&h.0), if b.h2 { h.1.clone() } else { trim(&h.1).to_string() })).collect();
    probe("request_fields_compared", got.len() as u64);
    if b.h2 { h2_issues(dir, pair, &b.issues, &mut v); }

    // ---- method, target, authority, scheme
    if b.method != r.method || b.path != r.path { v.push(Violation::new("header_altered", "request-line|target_or_method_changed", format!("backend got {} {}, client sent {} {}", b.method, b.path, r.method, r.path))); }
    let host_sent: Vec<&str> = if p.h2_client() { vec!["c0.test"] } else { vals(&sent, "host") };
    let host_got = vals(&got, "host");
    if b.h2 {
        if b.authority.as_deref() != host_sent.first().copied() || !(host_got.is_empty() || host_got == host_sent) { v.push(Violation::new("header_altered", format!("{dir}|{pair}|host"), format!("backend got :authority {:?} and host {host_got:?}, client sent {host_sent:?}", b.authority))); }
        let want_scheme = if p.h2_client() { "https" } else { "http" };
        if b.scheme.as_deref() != Some(want_scheme) { v.push(Violation::new("header_altered", format!("{dir}|{pair}|:scheme"), format!("backend got :scheme {:?}, the client's request was made over {want_scheme}", b.scheme))); }
    } else if host_got != host_sent { v.push(Violation::new("header_altered", format!("{dir}|{pair}|host"), format!("backend got Host {host_got:?}, client sent {host_sent:?}"))); }

    // ---- per field name
    let conn_named: BTreeSet<String> = vals(&sent, "connection").iter().flat_map(|x| x.split(',')).map(|t| lc(trim(t))).filter(|t| !t.is_empty()).collect();
    let names: BTreeSet<String> = sent.iter().chain(got.iter()).map(|h| h.0.clone()).collect();
    let body_len = r.body.to_string();
    for n in &names {
        let s = vals(&sent, n);
        let g = vals(&got, n);
        if n == "host" { continue; }
        if n == "content-length" {
            let ok = if s.is_empty() { g.is_empty() || g == vec![body_len.as_str()] } else { g == vec![s[0]] };
            if !ok { v.push(Violation::new("header_altered", format!("{dir}|{pair}|content-length"), format!("backend got content-length {g:?}, client sent {s:?} with a body of {} bytes", r.body))); }
            if !g.is_empty() && !vals(&got, "transfer-encoding").is_empty() { v.push(Violation::new("header_altered", format!("{dir}|{pair}|framing_conflict"), "backend got both Content-Length and Transfer-Encoding".to_string())); }
            if s.is_empty() && !g.is_empty() { probe("obs:content_length_added", 1); }
            continue;
        }
        if n == "transfer-encoding" && !b.h2 {
            if !(g.is_empty() || (g.len() == 1 && g[0].eq_ignore_ascii_case("chunked"))) { v.push(Violation::new("header_altered", format!("{dir}|{pair}|transfer-encoding"), format!("backend got Transfer-Encoding {g:?}, client sent {s:?}"))); }
            continue;
        }
        if n == "cookie" {
            let sticky_name = o.sticky_name();
            let want_all = cookie_pairs(&s);
            let want_elided: Vec<String> = want_all.iter().filter(|c| cookie_name(c) != sticky_name).cloned().collect();
            let gotp = cookie_pairs(&g);
            let has_sticky = want_all.len() != want_elided.len();
            let trig = if s.len() > 1 { "several_cookie_fields" } else if has_sticky { "sticky_cookie_present" } else { "plain" };
            let ok = gotp == want_elided || (!ctx.sticky && gotp == want_all);
            if !ok {
                if ctx.sticky && has_sticky && gotp.iter().any(|c| cookie_name(c) == sticky_name) {
                    v.push(Violation::new("header_altered", format!("{dir}|{pair}|cookie,sticky_cookie_not_elided,{trig}"), format!("backend got cookies {gotp:?}: the sticky cookie {sticky_name:?} was not elided (client sent {want_all:?})")));
                } else {
                    let d = diff(&want_elided, &gotp);
                    v.push(Violation::new(d.class(), format!("{dir}|{pair}|cookie,{},{trig}", d.word()), format!("backend got cookie pairs {gotp:?}, expected {want_elided:?} (client sent {s:?})")));
                }
            } else {
                probe("cookies_intact", 1);
                if has_sticky && gotp == want_elided { probe("sticky_cookie_elided", 1); }
                if s.len() > 1 && g.len() == 1 { probe("obs:cookie_fields_joined", 1); }
                if g.len() > s.len() { probe("obs:cookie_split_into_more_fields", 1); }
            }
            // an HTTP/2 receiver must not get optional whitespace at the edges of a cookie field (RFC 9113 8.2.1)
            if b.h2 && g.iter().any(|x| trim(x) != *x) { v.push(Violation::new("header_altered", format!("{dir}|{pair}|cookie,value=ows"), format!("cookie field with whitespace at its edges toward an HTTP/2 peer: {g:?}"))); }
            continue;
        }
        if IDENTITY.contains(&n.as_str()) || *n == corr { continue; }
        if n == "te" {
            // RFC 9113 8.2.2: the only TE an HTTP/2 message may carry is "trailers"
            let sent_trailers = s.iter().flat_map(|x| x.split(',')).any(|t| lc(trim(t)) == "trailers");
            let ok = g.is_empty() || (sent_trailers && g.len() == 1 && g[0].eq_ignore_ascii_case("trailers")) || (!b.h2 && !p.h2_client() && g == s);
            if !ok {
                if b.h2 { v.push(Violation::new("connection_specific_crossed_into_h2", format!("{dir}|{pair}|te"), format!("backend got te {g:?} over HTTP/2, client sent {s:?}"))); }
                else { v.push(Violation::new("header_altered", format!("{dir}|{pair}|te"), format!("backend got TE {g:?}, client sent {s:?}"))); }
            } else if !g.is_empty() { probe("te_trailers_forwarded", 1); } else if !s.is_empty() { probe("connection_specific_field_removed", 1); }
            continue;
        }
        if CONN_SPECIFIC.contains(&n.as_str()) || conn_named.contains(n) {
            let which = if CONN_SPECIFIC.contains(&n.as_str()) { n.as_str() } else { "field_named_by_connection" };
            if b.h2 {
                if !g.is_empty() { v.push(Violation::new("connection_specific_crossed_into_h2", format!("{dir}|{pair}|{which}"), format!("connection-specific field {n:?} reached the HTTP/2 backend with {g:?} (client sent Connection: {:?})", vals(&sent, "connection")))); }
                else { probe("connection_specific_field_removed", 1); }
            } else if n == "connection" {
                // toward an HTTP/1.1 backend only the proxy's own options
                if let Some(t) = g.iter().flat_map(|x| x.split(',')).map(|t| lc(trim(t))).find(|t| t != "keep-alive" && t != "close" && !t.is_empty()) { v.push(Violation::new("conn_header_forwarded", "connection|client_connection_option_forwarded", format!("backend got Connection {g:?} with the option {t:?}"))); }
            } else if !g.is_empty() {
                v.push(Violation::new(if s.is_empty() { "foreign_header" } else { "conn_header_forwarded" }, format!("{dir}|{pair}|{which}"), format!("connection-specific field {n:?} at the HTTP/1.1 backend: {g:?}, client sent {s:?}")));
            }
            continue;
        }
        if s.is_empty() {
            v.push(Violation::new("foreign_header", format!("{dir}|{pair}|undocumented_addition:{n}"), format!("backend got {n}: {:?} which the client did not send and no documentation announces", cut(&g.iter().map(|x| x.to_string()).collect::<Vec<_>>()))));
            continue;
        }
        let sl: Vec<(String, u8)> = sent_raw.iter().filter(|h| lc(&h.0) == *n).map(|h| (h.1.clone(), if p.h2_client() { 0 } else { ows_of(r, &h.0, &h.1) })).collect();
        let gl: Vec<String> = g.iter().map(|x| x.to_string()).collect();
        fidelity(dir, pair, n, &sl, &gl, true, &mut v, probe);
    }

    // ---- proxy metadata: shared with the HTTP/1.1 family
    let triples = |l: &[(String, String)]| -> Vec<(String, String, String)> { l.iter().map(|h| (h.0.clone(), h.0.clone(), trim(&h.1).to_string())).collect() };
    let mut sent3 = triples(&sent);
    if p.h2_client() { sent3.push(("host".into(), "host".into(), "c0.test".into())); }
    v.extend(model::check_identity(&sent3, &triples(&got), ctx, &mut *probe));

    // ---- trailers
    if b.complete && !r.trailers.is_empty() {
        let st: Vec<(String, String)> = r.trailers.iter().map(|t| (lc(&t.0), trim(&t.1).to_string())).collect();
        let gt: Vec<(String, String)> = b.trailers.iter().map(|t| (lc(trim(&t.0)), trim(&t.1).to_string())).collect();
        let is_id = |n: &str| n == "x-forwarded-for" || n == "forwarded" || n == "x-request-id" || n == corr || (n == "x-real-ip" && o.elide_x_real_ip);
        let how = if p.h2_client() { "h2_trailer" } else { "chunked_trailer" };
        for (n, val) in &gt {
            if is_id(n) {
                let which = if *n == corr { "correlation" } else { n.as_str() };
                v.push(Violation::new("spoofed_trusted_position", format!("{which}|{how}{}", if n == "x-real-ip" { ",elide_x_real_ip" } else { "" }), format!("client-supplied trailer {n}: {val:?} reached the {} backend unedited; a recipient that merges trailers (RFC 9110 6.5.1) reads it after the proxy's own value", if b.h2 { "HTTP/2" } else { "HTTP/1.1" })));
            }
        }
        let so: Vec<(String, String)> = st.iter().filter(|t| !is_id(&t.0)).cloned().collect();
        let go: Vec<(String, String)> = gt.iter().filter(|t| !is_id(&t.0)).cloned().collect();
        if st.iter().any(|t| is_id(&t.0)) && !gt.iter().any(|t| is_id(&t.0)) { probe("identity_trailers_kept_from_backend", 1); }
        // trailer fields may be discarded in transit (RFC 9110 6.5.1): any sub-sequence of what was sent, nothing else
        if !so.is_empty() && go.is_empty() { probe("obs:request_trailers_dropped", 1); }
        else if model::is_subseq(&go, &so) { if go.len() < so.len() { probe("obs:some_request_trailers_dropped", 1); } else if !so.is_empty() { probe("request_trailers_forwarded", 1); } }
        else {
            let d = diff(&so, &go);
            v.push(Violation::new("header_altered", format!("{dir}|{pair}|trailer,{}", d.word()), format!("trailer fields at the backend {go:?}, client sent {so:?}")));
        }
    }
    isolation(dir, &format!("{} {}", b.method, b.path), &got, &b.trailers, ctx.foreign, b.reused_conn, &mut v);
    v
}

pub fn check_response(p: &MuxFam, x: &MReq, cs: &ClientSeen, foreign: &[Foreign], req_corr: &[String], probe: &mut dyn FnMut(&str, u64)) -> Vec<Violation> {
    let mut v: Vec<Violation> = Vec::new();
    let pair = p.pair.as_str();
    let dir = "response";
    let o = &p.opts;
    let corr = lc(o.corr());
    let spec = &x.resp;
    let sent_raw = sent_response(p, x.req.id, spec);
    let sent: Vec<(String, String)> = sent_raw.iter().map(|h| (lc(&h.0), h.1.clone())).collect();
    let got: Vec<(String, String)> = cs.fields.iter().map(|h| (lc(&h.0), if cs.h2 { h.1.clone() } else { trim(&h.1).to_string() })).collect();
    probe("response_fields_compared", got.len() as u64);
    if cs.h2 { h2_issues(dir, pair, &cs.issues, &mut v); }
    if cs.status != Some(spec.status) { v.push(Violation::new("response_header_diff", "status|changed", format!("status {} became {:?}", spec.status, cs.status))); }
    let want_len = if spec.status == 204 || spec.status == 304 { 0 } else { spec.body as u64 };
    if !cs.body_ok || cs.body_len != want_len || !cs.complete { v.push(Violation::new("response_body_diff", format!("{}|{pair}", if !cs.complete { "unterminated" } else if !cs.body_ok { "corrupted" } else { "length" }), format!("response body: {} bytes ok={} complete={}, backend sent {want_len}", cs.body_len, cs.body_ok, cs.complete))); }
    let conn_named: BTreeSet<String> = vals(&sent, "connection").iter().flat_map(|x| x.split(',')).map(|t| lc(trim(t))).filter(|t| !t.is_empty()).collect();
    let names: BTreeSet<String> = sent.iter().chain(got.iter()).map(|h| h.0.clone()).collect();
    let sticky = o.sticky.first().copied().unwrap_or(false);
    for n in &names {
        let s = vals(&sent, n);
        let g = vals(&got, n);
        if *n == corr {
            if g.len() != 1 || g[0].is_empty() { v.push(Violation::new("id_header_count", format!("correlation-response|count={}", model::cnt(g.len())), format!("client got {} {} fields {g:?}", g.len(), o.corr()))); }
            else if req_corr.last().map(|x| x.as_str()) != Some(g[0]) { v.push(Violation::new("id_header_count", "correlation|request_response_mismatch".to_string(), format!("correlation id on the response {:?} differs from the one the backend received {req_corr:?}", g[0]))); }
            else { probe("correlation_response_matches_request", 1); }
            continue;
        }
        if n == "content-length" {
            let body = want_len.to_string();
            let ok = if g.is_empty() { s.is_empty() || cs.h2 || !vals(&got, "transfer-encoding").is_empty() } else if s.is_empty() { g == vec![body.as_str()] } else { g == vec![s[0]] };
            if !ok { v.push(Violation::new("response_header_diff", format!("{dir}|{pair}|content-length"), format!("content-length: client got {g:?}, backend sent {s:?} with {want_len} body bytes"))); }
            if s.is_empty() != g.is_empty() { probe("obs:response_reframed", 1); }
            continue;
        }
        if n == "transfer-encoding" && !cs.h2 {
            if !(g.is_empty() || (g.len() == 1 && g[0].eq_ignore_ascii_case("chunked") && vals(&got, "content-length").is_empty())) { v.push(Violation::new("response_header_diff", format!("{dir}|{pair}|transfer-encoding"), format!("Transfer-Encoding: client got {g:?} (Content-Length {:?}), backend sent {s:?}", vals(&got, "content-length")))); }
            continue;
        }
        if n == "te" || CONN_SPECIFIC.contains(&n.as_str()) || conn_named.contains(n) {
            let which = if n == "te" || CONN_SPECIFIC.contains(&n.as_str()) { n.as_str() } else { "field_named_by_connection" };
            if cs.h2 {
                if !g.is_empty() { v.push(Violation::new("connection_specific_crossed_into_h2", format!("{dir}|{pair}|{which}"), format!("connection-specific field {n:?} reached the HTTP/2 client with {g:?} (backend sent Connection: {:?})", vals(&sent, "connection")))); }
                else { probe("connection_specific_response_field_removed", 1); }
            } else if n == "connection" {
                if let Some(t) = g.iter().flat_map(|x| x.split(',')).map(|t| lc(trim(t))).find(|t| t != "keep-alive" && t != "close" && !t.is_empty()) { v.push(Violation::new("response_header_diff", format!("{dir}|{pair}|connection"), format!("client got Connection {g:?} with the option {t:?}"))); }
            } else if !g.is_empty() && g != s {
                v.push(Violation::new("foreign_header", format!("{dir}|{pair}|{which}"), format!("connection-specific field {n:?} at the HTTP/1.1 client: {g:?}, backend sent {s:?}")));
            }
            continue;
        }
        if n == "set-cookie" {
            let name = o.sticky_name();
            let sv: Vec<String> = s.iter().map(|x| x.to_string()).collect();
            let gv: Vec<String> = g.iter().map(|x| x.to_string()).collect();
            // the backend's cookies must all be there, in order; what is left over is the proxy's
            let mut extras: Vec<String> = Vec::new();
            let mut i = 0;
            for y in &gv { if i < sv.len() && sv[i] == *y { i += 1; } else { extras.push(y.clone()); } }
            if i != sv.len() {
                let sl: Vec<(String, u8)> = sv.iter().map(|x| (x.clone(), 0)).collect();
                let before = v.len();
                fidelity(dir, pair, n, &sl, &gv.iter().filter(|y| !y.starts_with(&format!("{name}="))).cloned().collect::<Vec<_>>(), false, &mut v, probe);
                if v.len() == before { v.push(Violation::new("header_altered", format!("{dir}|{pair}|set-cookie_order"), format!("Set-Cookie: client got {gv:?}, backend sent {sv:?}"))); }
                continue;
            }
            let serving = sticky_id(0, 0);
            let found: Vec<String> = cookie_pairs(&x.req.headers.iter().filter(|h| lc(&h.0) == "cookie").map(|h| h.1.as_str()).collect::<Vec<_>>()).into_iter().filter(|c| cookie_name(c) == name).map(|c| c.split_once('=').map_or(String::new(), |y| y.1.to_string())).collect();
            let needed = sticky && found.last().map(|s| s.as_str()) != Some(serving.as_str());
            let want_pair = format!("{name}={serving}");
            let trig = if found.is_empty() { "no_sticky_cookie_sent" } else if needed { "other_sticky_cookie_sent" } else { "valid_sticky_cookie_sent" };
            let wrong = extras.len() > 1 || extras.iter().any(|y| trim(y.split(';').next().unwrap_or("")) != want_pair);
            if !sticky {
                if !extras.is_empty() { v.push(Violation::new("foreign_header", format!("{dir}|{pair}|set-cookie,sticky_session_off"), format!("Set-Cookie {extras:?} added although the cluster is not sticky"))); }
            } else if wrong {
                v.push(Violation::new("response_header_diff", format!("{dir}|{pair}|set-cookie,sticky_wrong_value"), format!("sticky cluster: proxy Set-Cookie {extras:?}, but the serving backend is {want_pair:?} (request carried {found:?})")));
            } else if needed && extras.is_empty() {
                v.push(Violation::new("response_header_diff", format!("{dir}|{pair}|set-cookie,sticky_missing,{trig}"), format!("sticky cluster: no Set-Cookie for {want_pair:?} although the request carried {found:?}")));
            } else if !needed && !extras.is_empty() {
                v.push(Violation::new("response_header_diff", format!("{dir}|{pair}|set-cookie,sticky_redundant,{trig}"), format!("sticky cluster: Set-Cookie {extras:?} although the request already carried {found:?}")));
            } else if needed { probe("sticky_set_cookie_added", 1); } else { probe("sticky_set_cookie_not_needed", 1); }
            if !sv.is_empty() { probe("set_cookie_fields_intact", sv.len() as u64); }
            continue;
        }
        if n == "strict-transport-security" && p.hsts.is_some() && p.h2_client() {
            let h = p.hsts.as_ref().unwrap();
            if !s.is_empty() {
                // RFC 6797 6.1 / doc: the backend's own policy is preserved, nothing is added
                if g != s {
                    let before = v.len();
                    fidelity(dir, pair, n, &s.iter().map(|x| (x.to_string(), 0)).collect::<Vec<_>>(), &g.iter().map(|x| x.to_string()).collect::<Vec<_>>(), false, &mut v, probe);
                    for y in v[before..].iter_mut() { y.detail = format!("backend's own Strict-Transport-Security not preserved (frontend policy {h:?}): {}", y.detail); }
                } else { probe("hsts_backend_policy_preserved", 1); }
            } else {
                let norm = |x: &str| x.split(';').map(|t| lc(trim(t))).filter(|t| !t.is_empty()).collect::<Vec<_>>();
                let mut want = vec![format!("max-age={}", h.max_age)];
                if h.include_subdomains { want.push("includesubdomains".into()); }
                if g.len() != 1 || norm(g[0]) != want { v.push(Violation::new("response_header_diff", format!("{dir}|{pair}|hsts,wrong_policy"), format!("Strict-Transport-Security: client got {g:?}, frontend policy is {h:?}"))); } else { probe("hsts_added", 1); }
            }
            continue;
        }
        if s.is_empty() {
            v.push(Violation::new("foreign_header", format!("{dir}|{pair}|undocumented_addition:{n}"), format!("client got {n}: {:?} which the backend did not send and no documentation announces", cut(&g.iter().map(|x| x.to_string()).collect::<Vec<_>>()))));
            continue;
        }
        let sl: Vec<(String, u8)> = sent_raw.iter().filter(|h| lc(&h.0) == *n).map(|h| (h.1.clone(), 0)).collect();
        let gl: Vec<String> = g.iter().map(|x| x.to_string()).collect();
        fidelity(dir, pair, n, &sl, &gl, true, &mut v, probe);
    }
    // a configured HSTS policy and a backend that sent none: the field must have been added (2xx; other classes: documentation silent)
    if let (Some(h), true) = (&p.hsts, p.h2_client()) {
        if !names.contains("strict-transport-security") && (200..300).contains(&spec.status) { v.push(Violation::new("header_lost", format!("{dir}|{pair}|hsts,not_added"), format!("frontend HSTS policy {h:?}: no Strict-Transport-Security on the {} response", spec.status))); }
    }
    if !names.contains(&corr) { v.push(Violation::new("id_header_count", "correlation-response|count=0".to_string(), format!("client got no {} field", o.corr()))); }
    isolation(dir, "", &got, &[], foreign, false, &mut v);
    v
}
