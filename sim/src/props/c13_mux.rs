//! C13, mux family: the same property over the three protocol pairs that have an HTTP/2 side
//! (HTTP/1.1 client -> h2c backend, HTTP/2-over-TLS client -> HTTP/1.1 backend, HTTP/2 client -> h2c
//! backend), in both directions (request fields at the backend, response fields at the client).
//!
//! Plan: one client connection with 1-3 requests; every request and every response carries a seeded
//! list of end-to-end fields drawn from a small alphabet (custom names, duplicates whose order matters,
//! values with an inner HTAB, optional whitespace around the value (HTTP/1.1 senders), empty value,
//! 1-4 kB value, `,` `;` `"`, obs-text as valid UTF-8 (HTTP/2 senders only)), spoof attempts (client-sent
//! X-Forwarded-For / Forwarded / X-Real-IP / X-Forwarded-Proto / -Port / X-Request-Id / correlation
//! header, sticky cookie), connection-specific fields from HTTP/1.1 senders, request trailers carrying
//! identity fields, cookies split over several `cookie` fields; listener knobs on BOTH listeners.
//!
//! Oracle: `c13_muxmodel` (fidelity, connection-specific fields, trailers, documented response
//! additions; written from the property statement, RFC 9110 and RFC 9113 8.2) plus
//! `c13_model::check_identity` (truthfulness of the proxy metadata, shared with the HTTP/1.1 family so
//! that the same defect carries the same class/key on every pair).
use std::collections::BTreeMap;
use std::net::SocketAddr;

use serde::{Deserialize, Serialize};
use sozu_command_lib::proto::command::{request::RequestType, HstsConfig, Request};

use super::c13_model::{self as model, Truth};
use super::{render_req, render_resp, sticky_id, CReq, CResp, Hdr, Opts, DEFAULT_CORR};
use crate::actors::h1::*;
use crate::actors::h2::*;
use crate::actors::h2codec::{HpackStyle, Repr};
use crate::actors::tls::TlsPlan;
use crate::actors::Pace;
use crate::framework::*;
use crate::muxscn::*;
use crate::netsim::{self, Knobs};
use crate::prng::{Prng, TraceHash};
use crate::scenario::{random_chunks, BackendMode};
use crate::world::{MS, SEC};

#[path = "c13_muxmodel.rs"]
pub mod c13_muxmodel;
use c13_muxmodel as mm;

pub const PAIRS: &[&str] = &["h1_h2c", "h2_h1", "h2_h2c"];

#[derive(Clone, Debug, Serialize, Deserialize, PartialEq)]
pub struct Hsts {
    pub max_age: u32,
    pub include_subdomains: bool,
}

#[derive(Clone, Debug, Serialize, Deserialize)]
pub struct MReq {
    /// HTTP/1.1 client: `headers` is the complete section in wire order (Host, x-sim-id, framing).
    /// HTTP/2 client: `headers` are the fields after the pseudo-header fields and `x-sim-id`
    /// (`content-length` is appended when `chunks` is None), `cluster` is unused, names are lower-case.
    pub req: CReq,
    /// HTTP/1.1 backend: complete section in wire order. h2c backend: the fields after `:status` and
    /// `x-sim-id` (`content-length` appended when `chunks` is None).
    pub resp: CResp,
}

#[derive(Clone, Debug, Serialize, Deserialize)]
pub struct MuxFam {
    /// topology, pacing, scheduling; the requests / responses of the peers are filled by `build`
    pub mux: MuxPlan,
    /// "h1_h2c" | "h2_h1" | "h2_h2c"
    pub pair: String,
    /// listener knobs (applied to the HTTP and the HTTPS listener), `sticky[0]`; `expect_proxy` / `edits` unused
    pub opts: Opts,
    /// HSTS policy of the HTTPS frontend
    pub hsts: Option<Hsts>,
    pub reqs: Vec<MReq>,
}
impl MuxFam {
    pub fn h2_client(&self) -> bool { self.pair != "h1_h2c" }
    pub fn h2_backend(&self) -> bool { self.pair != "h2_h1" }
    pub fn client_addr(&self) -> SocketAddr { if self.h2_client() { self.mux.h2_clients[0].src } else { self.mux.h1_clients[0].src } }
    pub fn listener(&self) -> SocketAddr { if self.h2_client() { self.mux.https_front } else { self.mux.http_front } }
}

// ------------------------------------------------------------------------------------ build / run

/// the complete regular field list an HTTP/2 peer sends for `extra` (what `header_list` of the actors produces)
pub fn h2_sent_fields(id: u64, extra: &[(String, String)], content_length: Option<usize>) -> Vec<(String, String)> {
    let mut v = vec![("x-sim-id".to_string(), id.to_string())];
    v.extend(extra.iter().cloned());
    if let Some(n) = content_length { v.push(("content-length".into(), n.to_string())); }
    v
}

fn h2_body(len: usize, cl: bool, trailers: &[(String, String)]) -> BodyPlan {
    let mut b = if len == 0 && !cl && trailers.is_empty() { BodyPlan::none() } else { BodyPlan::of(len) };
    b.content_length = cl;
    if !trailers.is_empty() { b.end = EndMode::Trailers(trailers.to_vec()); }
    b
}

pub fn build(p: &MuxFam) -> MuxPlan {
    let mut m = p.mux.clone();
    if p.h2_client() {
        m.h2_clients[0].script = p.reqs.iter().map(|x| {
            let r = &x.req;
            let mut s = H2ReqSpec::get(r.id, "c0.test", &r.path);
            s.method = r.method.clone();
            s.headers = r.headers.iter().map(|h| (h.0.clone(), h.1.clone())).collect();
            s.body = h2_body(r.body, r.chunks.is_none() && (r.body > 0 || r.method != "GET"), &r.trailers);
            ClientOp::Req(s)
        }).collect();
    } else {
        m.h1_clients[0].requests = p.reqs.iter().map(|x| {
            let r = &x.req;
            ReqSpec { id: r.id, method: r.method.clone(), host: "c0.test".into(), path: r.path.clone(), headers: vec![], body: BodySpec::None, raw: Some(render_req(r)) }
        }).collect();
    }
    match &mut m.clusters[0].backend {
        MuxBackend::H2(b) => {
            for x in &p.reqs {
                let mut s = H2RespSpec::ok(x.resp.body);
                s.status = x.resp.status;
                s.headers = x.resp.headers.clone();
                let bodyless = x.resp.status == 204 || x.resp.status == 304;
                s.body = if bodyless { BodyPlan::none() } else { h2_body(x.resp.body, x.resp.chunks.is_none(), &[]) };
                s.respond_on = RespondOn::EndStream;
                b.responses.insert(x.req.id, s);
            }
        }
        MuxBackend::H1(b) => {
            for x in &p.reqs {
                let mut s = RespSpec::ok(BodySpec::None);
                s.status = x.resp.status;
                s.raw = Some(render_resp(x.req.id, &x.resp));
                b.responses.insert(x.req.id, s);
            }
        }
    }
    m
}

/// does an HTTP/2 client request of this plan carry a content-length field
pub fn h2_req_cl(r: &CReq) -> Option<usize> { if r.chunks.is_none() && (r.body > 0 || r.method != "GET") { Some(r.body) } else { None } }
pub fn h2_resp_cl(r: &CResp) -> Option<usize> { if r.status == 204 || r.status == 304 || r.chunks.is_some() { None } else { Some(r.body) } }

fn configure(reqs: Vec<Request>, o: &Opts, hsts: &Option<Hsts>) -> Vec<Request> {
    reqs.into_iter().map(|r| {
        let rt = match r.request_type {
            Some(RequestType::AddHttpListener(mut l)) => {
                l.elide_x_real_ip = Some(o.elide_x_real_ip);
                l.send_x_real_ip = Some(o.send_x_real_ip);
                if let Some(n) = &o.sozu_id_header { l.sozu_id_header = Some(n.clone()); }
                if let Some(n) = &o.sticky_name { l.sticky_name = n.clone(); }
                if let Some(a) = o.public_address { l.public_address = Some(a.into()); }
                Some(RequestType::AddHttpListener(l))
            }
            Some(RequestType::AddHttpsListener(mut l)) => {
                l.elide_x_real_ip = Some(o.elide_x_real_ip);
                l.send_x_real_ip = Some(o.send_x_real_ip);
                if let Some(n) = &o.sozu_id_header { l.sozu_id_header = Some(n.clone()); }
                if let Some(n) = &o.sticky_name { l.sticky_name = n.clone(); }
                if let Some(a) = o.public_address { l.public_address = Some(a.into()); }
                Some(RequestType::AddHttpsListener(l))
            }
            Some(RequestType::AddCluster(mut c)) => {
                c.sticky_session = o.sticky.first().copied().unwrap_or(false);
                Some(RequestType::AddCluster(c))
            }
            Some(RequestType::AddBackend(mut b)) => {
                b.sticky_id = Some(sticky_id(0, 0));
                Some(RequestType::AddBackend(b))
            }
            Some(RequestType::AddHttpsFrontend(mut f)) => {
                if let Some(h) = hsts { f.hsts = Some(HstsConfig { enabled: Some(true), max_age: Some(h.max_age), include_subdomains: Some(h.include_subdomains), preload: None, force_replace_backend: None }); }
                Some(RequestType::AddHttpsFrontend(f))
            }
            other => other,
        };
        Request { request_type: rt }
    }).collect()
}

pub fn run(p: &MuxFam, log: bool) -> (MuxPlan, MuxOutcome) {
    let m = build(p);
    let out = run_mux_configured(&m, log, p.opts.clone(), p.hsts.clone());
    (m, out)
}

/// `muxscn::run_mux` with the configuration requests rewritten by `configure` before they are sent (muxscn.rs has no
/// hook for that; soft stop and the settle phase of `run_mux` are not needed here). Same actors, same seeds.
fn run_mux_configured(plan: &MuxPlan, log: bool, opts: Opts, hsts: Option<Hsts>) -> MuxOutcome {
    use crate::actors::master::{MOp, Master};
    use crate::world::{ConnectMode, World};
    use sozu_command_lib::{scm_socket::Listeners, state::ConfigState};
    let plan = plan.clone();
    netsim::on_fresh_thread(move || {
        let mut w = World::new(plan.seed, plan.sched.clone());
        World::install(&mut w);
        w.log_on = log;
        w.sndbuf_choices = plan.sndbufs.clone();
        let reqs = configure(config_requests(&plan), &opts, &hsts);
        let nclients = (plan.h1_clients.len() + plan.h2_clients.len()) as i64;
        let mut h1_ids = Vec::new();
        let mut h2_ids = Vec::new();
        let mut b_ids: Vec<(bool, usize)> = Vec::new();
        let (end, mid) = netsim::run_worker(&mut w, plan.knobs.server_config(), ConfigState::new(), Listeners::default(), |w, m: &mut Master| {
            m.send_all(reqs);
            m.push(MOp::Barrier);
            m.push(MOp::SetBoard("configured".into(), 1));
            m.push(MOp::WaitBoard("clients_done".into(), nclients));
            m.push(MOp::HardStop);
            for c in &plan.clusters {
                let addr = c.backend.addr();
                match &c.mode {
                    BackendMode::Listen { delay_ns } => { w.topo.insert(addr, ConnectMode::Listen { delay_ns: *delay_ns }); }
                    BackendMode::Refuse { delay_ns } => { w.topo.insert(addr, ConnectMode::Refuse { delay_ns: *delay_ns }); }
                    BackendMode::Blackhole => { w.topo.insert(addr, ConnectMode::Blackhole); }
                }
                match &c.backend {
                    MuxBackend::H1(b) => b_ids.push((false, w.add_actor(Box::new(H1Backend::new(b.clone(), Prng::derive(plan.seed, &format!("backend/{}", b.name))))))),
                    MuxBackend::H2(b) => b_ids.push((true, w.add_actor(Box::new(H2Backend::new(b.clone(), Prng::derive(plan.seed, &format!("backend/{}", b.name))))))),
                }
            }
            for c in &plan.h1_clients { h1_ids.push(w.add_actor(Box::new(H1Client::new(c.clone(), Prng::derive(plan.seed, &format!("client/{}", c.name)))))); }
            for c in &plan.h2_clients { h2_ids.push(w.add_actor(Box::new(H2Client::new(c.clone(), Prng::derive(plan.seed, &format!("client/{}", c.name)))))); }
        });
        let mut out = MuxOutcome { panicked: end.panicked, aborted: end.aborted, boot_error: end.boot_error, ..Default::default() };
        {
            let m: &Master = w.actor_ref(mid);
            for (_, r) in &m.data.responses {
                if r.status == sozu_command_lib::proto::command::ResponseStatus::Failure as i32 { out.config_failures.push(format!("{}: {}", r.id, r.message)); }
            }
            out.master_eof = m.data.eof;
        }
        for id in &h1_ids { let c: &H1Client = w.actor_ref(*id); out.h1_clients.push(crate::scenario::ClientOutcome { rec: c.rec.clone(), responses: c.responses().clone(), partial: c.partial().cloned(), interim: c.parser.interim }); }
        for id in &h2_ids { let c: &H2Client = w.actor_ref(*id); out.h2_clients.push(c.record()); }
        for (is_h2, id) in &b_ids {
            if *is_h2 { let b: &H2Backend = w.actor_ref(*id); out.backends.push(BackendRecords::H2(b.all_records())); }
            else { let b: &H1Backend = w.actor_ref(*id); out.backends.push(BackendRecords::H1(b.all_records())); }
        }
        out.stats = w.stats.clone();
        out.trace_hash = w.trace.0;
        out.t_end = w.now;
        out.board = w.board.clone();
        out.max_served = w.max_served;
        out.log = std::mem::take(&mut w.log);
        out
    })
}

// ------------------------------------------------------------------------------------ generator

const SPOOF4: &[&str] = &["6.6.6.1", "6.6.6.2", "6.6.6.3", "6.6.6.4"];
const SPOOF6: &[&str] = &["2001:db8:bad::1", "2001:db8:bad::2"];
fn spoof_ip(rng: &mut Prng) -> String { if rng.below(3) == 0 { rng.pick(SPOOF6).to_string() } else { rng.pick(SPOOF4).to_string() } }

/// value alphabet; `marker` makes every value unique in the plan. `h2_sender`: obs-text allowed.
fn value(rng: &mut Prng, marker: &str, kinds: &[u8], h2_sender: bool, long_budget: &mut usize) -> String {
    match *rng.pick(kinds) {
        0 => format!("{marker}\tb"),
        1 => format!("{marker}\t\t{}\tz", "w x"),
        2 => String::new(),
        3 if *long_budget > 0 => { *long_budget -= 1; format!("{marker}{}", "y".repeat(1000 + rng.below(3000) as usize)) }
        4 => format!("{marker}, {marker}b"),
        5 => format!("\"{marker}\";x=1"),
        6 => format!("{marker}; a=\"b,c\""),
        7 if h2_sender => format!("{marker}-r\u{e9}sum\u{e9}"),
        8 if h2_sender => format!("\u{65e5}\u{672c}{marker}"),
        9 => format!("{marker} b  c"),
        _ => marker.to_string(),
    }
}
fn name_variant(rng: &mut Prng, base: &str, h1_sender: bool) -> String {
    if !h1_sender { return base.to_string(); }
    match rng.below(4) {
        0 => base.to_ascii_uppercase(),
        1 => base.split('-').map(|w| { let mut c = w.chars(); c.next().map(|f| f.to_ascii_uppercase().to_string() + c.as_str()).unwrap_or_default() }).collect::<Vec<_>>().join("-"),
        _ => base.to_string(),
    }
}
fn ows(rng: &mut Prng, h1_sender: bool) -> u8 { if h1_sender && rng.below(4) == 0 { 1 + rng.below(5) as u8 } else { 0 } }

#[allow(clippy::too_many_arguments)]
fn gen_request(rng: &mut Prng, id: u64, p_h2_client: bool, h2_backend: bool, o: &Opts, cats: &[u8], kinds: &[u8], last: bool) -> CReq {
    let h1 = !p_h2_client;
    let mut k = 0u32;
    let mut hs: Vec<Hdr> = Vec::new();
    let mut long_budget = 1usize;
    let mk = |k: &mut u32| { *k += 1; format!("q{id}-{k}") };
    let n_items = 1 + rng.below(5) as usize;
    for _ in 0..n_items {
        match *rng.pick(cats) {
            0 => {
                let n = *rng.pick(&["x-e2e-a", "x-e2e-b", "accept", "x-tag"]);
                let m = mk(&mut k);
                hs.push((name_variant(rng, n, h1), value(rng, &m, kinds, p_h2_client, &mut long_budget), ows(rng, h1)));
            }
            1 => {
                let n = *rng.pick(&["x-e2e-a", "x-e2e-b", "accept"]);
                for _ in 0..2 + rng.below(2) {
                    let m = mk(&mut k);
                    hs.push((name_variant(rng, n, h1), value(rng, &m, kinds, p_h2_client, &mut long_budget), ows(rng, h1)));
                    if rng.below(3) == 0 { let m = mk(&mut k); hs.push((name_variant(rng, "x-mid", h1), m, 0)); }
                }
            }
            2 => {
                if hs.iter().any(|h| h.0.eq_ignore_ascii_case("cookie")) { continue; }
                let mut crumbs: Vec<String> = Vec::new();
                for _ in 0..1 + rng.below(4) { k += 1; crumbs.push(format!("{}=q{id}-{k}", rng.pick(&["a", "b", "sess", "A"]))); }
                if rng.below(2) == 0 {
                    let val = if rng.below(3) == 0 { "bogus".to_string() } else { sticky_id(0, 0) };
                    let pos = rng.below(crumbs.len() as u64 + 1) as usize;
                    crumbs.insert(pos, format!("{}={}", o.sticky_name(), val));
                }
                // split over 1..3 cookie fields (RFC 9113 8.2.3 lets HTTP/2 senders split at will; HTTP/1.1 clients send two lines at most)
                let nfields = if crumbs.len() >= 2 && rng.below(2) == 0 { 2 + (p_h2_client && crumbs.len() >= 3 && rng.below(2) == 0) as usize } else { 1 };
                let mut cuts: Vec<usize> = Vec::new();
                while cuts.len() + 1 < nfields { let c = 1 + rng.below(crumbs.len() as u64 - 1) as usize; if !cuts.contains(&c) { cuts.push(c); } }
                cuts.sort();
                cuts.push(crumbs.len());
                let mut from = 0;
                for c in cuts {
                    hs.push((name_variant(rng, "cookie", h1), crumbs[from..c].join("; "), 0));
                    if rng.below(3) == 0 && c != crumbs.len() { let m = mk(&mut k); hs.push((name_variant(rng, "x-mid", h1), m, 0)); }
                    from = c;
                }
            }
            3 => {
                for _ in 0..1 + rng.below(2) {
                    let v = if rng.below(2) == 0 { spoof_ip(rng) } else { format!("{}, {}", spoof_ip(rng), spoof_ip(rng)) };
                    hs.push((name_variant(rng, "x-forwarded-for", h1), v, ows(rng, h1)));
                }
            }
            4 => {
                for _ in 0..1 + rng.below(2) {
                    let ip = spoof_ip(rng);
                    let node = if ip.contains(':') { format!("\"[{ip}]:99\"") } else if rng.below(2) == 0 { ip.clone() } else { format!("\"{ip}:99\"") };
                    let v = match rng.below(3) { 0 => format!("for={node}"), 1 => format!("for={node};proto=https;by=6.6.6.4"), _ => format!("for=6.6.6.3, for={node};by=\"[2001:db8:bad::2]\"") };
                    hs.push((name_variant(rng, "forwarded", h1), v, ows(rng, h1)));
                }
            }
            5 => {
                if rng.below(2) == 0 && !hs.iter().any(|h| h.0.eq_ignore_ascii_case("x-forwarded-proto")) { hs.push((name_variant(rng, "x-forwarded-proto", h1), rng.pick(&["https", "http", "HTTPS"]).to_string(), ows(rng, h1))); }
                if rng.below(2) == 0 && !hs.iter().any(|h| h.0.eq_ignore_ascii_case("x-forwarded-port")) { hs.push((name_variant(rng, "x-forwarded-port", h1), rng.pick(&["443", "8443", "80"]).to_string(), ows(rng, h1))); }
            }
            6 => { for _ in 0..1 + rng.below(2) { hs.push((name_variant(rng, "x-real-ip", h1), spoof_ip(rng), ows(rng, h1))); } }
            7 => { for _ in 0..1 + (rng.below(4) == 0) as u64 { k += 1; hs.push((name_variant(rng, "x-request-id", h1), format!("rid-q{id}-{k}"), ows(rng, h1))); } }
            8 => {
                k += 1;
                let n = if h1 { name_variant(rng, o.corr(), true) } else { o.corr().to_ascii_lowercase() };
                hs.push((n, format!("01SPOOFq{id}-{k}"), ows(rng, h1)));
                if o.sozu_id_header.is_some() && !o.corr().eq_ignore_ascii_case(DEFAULT_CORR) && rng.below(2) == 0 { k += 1; hs.push((if h1 { DEFAULT_CORR.to_string() } else { DEFAULT_CORR.to_ascii_lowercase() }, format!("01OLDNAMEq{id}-{k}"), 0)); }
            }
            10 => {
                // an HTTP/2 field value with CR / LF / NUL: malformed (RFC 9113 8.2.1), must never be forwarded; toward an
                // HTTP/1.1 backend it would inject a field line
                if !p_h2_client || hs.iter().any(|h| h.0 == "x-inj") { continue; }
                let m = mk(&mut k);
                hs.push(("x-inj".into(), match rng.below(4) { 0 => format!("{m}\r\nx-injected: 6.6.6.1"), 1 => format!("{m}\nx-injected: 6.6.6.1"), 2 => format!("{m}\rx"), _ => format!("{m}\0x") }, 0));
            }
            _ => {
                if p_h2_client {
                    // the only connection-related field an HTTP/2 request may carry (RFC 9113 8.2.2)
                    if !hs.iter().any(|h| h.0 == "te") { hs.push(("te".into(), "trailers".into(), 0)); }
                    continue;
                }
                if hs.iter().any(|h| h.0.eq_ignore_ascii_case("connection")) { continue; }
                match rng.below(8) {
                    0 => hs.push(("Connection".into(), "keep-alive".into(), ows(rng, h1))),
                    1 => { hs.push(("Connection".into(), "keep-alive".into(), 0)); hs.push((name_variant(rng, "keep-alive", true), "timeout=5, max=100".into(), ows(rng, h1))); }
                    2 => hs.push((name_variant(rng, "proxy-connection", true), "keep-alive".into(), ows(rng, h1))),
                    3 => hs.push((name_variant(rng, "upgrade", true), "foo/2".into(), ows(rng, h1))),
                    4 => { hs.push((name_variant(rng, "te", true), "trailers".into(), 0)); hs.push(("Connection".into(), "TE".into(), 0)); }
                    5 => { hs.push((name_variant(rng, "te", true), rng.pick(&["gzip", "trailers, deflate;q=0.5"]).to_string(), 0)); hs.push(("Connection".into(), "TE".into(), 0)); }
                    6 => {
                        k += 1;
                        hs.push((name_variant(rng, "x-hop", true), format!("q{id}-{k}"), 0));
                        hs.push(("Connection".into(), rng.pick(&["X-Hop", "keep-alive, x-hop", "x-hop, x-nonexistent"]).to_string(), ows(rng, h1)));
                    }
                    _ => { if last { hs.push((name_variant(rng, "connection", true), rng.pick(&["close", "Close"]).to_string(), ows(rng, h1))); } }
                }
            }
        }
    }
    if rng.below(3) != 0 { rng.shuffle(&mut hs); }
    // bodies stay tiny: the recorded defects of the h2c backend path concern flow control of large bodies
    // request trailers: HTTP/1.1 trailers toward an h2c backend are C13-F11 (takes the backend connection with it): kept a
    // minority. (HTTP/2 trailers behind a body without content-length toward an HTTP/1.1 backend were C14 H2F-1, fixed in /repo;
    // the trigger below stays in case it comes back)
    let want_trailers = rng.below(match (p_h2_client, h2_backend) { (true, false) => 6, (false, true) => 12, _ => 4 }) == 0;
    let body = if want_trailers { 1 + rng.below(200) as usize } else { match rng.below(6) { 0 => 1 + rng.below(300) as usize, _ => 0 } };
    // a deliberately malformed request is body-less: frames of a body still in flight after sozu reset the stream
    // are another property's subject (C15)
    let malformed = hs.iter().any(|h| h.0 == "x-inj");
    let (want_trailers, body) = if malformed { (false, 0) } else { (want_trailers, body) };
    let chunked = want_trailers || (body > 0 && rng.below(3) == 0);
    let method = if body > 0 || chunked { rng.pick(&["POST", "PUT"]).to_string() } else { rng.pick(&["GET", "GET", "GET", "DELETE"]).to_string() };
    let mut trailers: Vec<(String, String)> = Vec::new();
    if want_trailers {
        for _ in 0..1 + rng.below(3) {
            k += 1;
            let t = match rng.below(7) {
                0 => ("x-real-ip".to_string(), spoof_ip(rng)),
                1 => ("x-forwarded-for".to_string(), spoof_ip(rng)),
                2 => (o.corr().to_ascii_lowercase(), format!("01TRAILERq{id}-{k}")),
                3 => ("x-request-id".to_string(), format!("rid-t-q{id}-{k}")),
                4 => ("forwarded".to_string(), format!("for={}", rng.pick(SPOOF4))),
                _ => ("x-checksum".to_string(), format!("q{id}-{k}")),
            };
            if !trailers.iter().any(|(n, _)| *n == t.0) { trailers.push(if h1 { (name_variant(rng, &t.0, true), t.1) } else { t }); }
        }
    }
    // an HTTP/2 request may declare its content-length and still end with a trailer section: half of the HTTP/2 requests with
    // trailers do (`chunks: None` = content-length present, see `build`)
    // (toward an h2c backend only: content-length + trailers toward an HTTP/1.1 backend is the recorded H2F-1 family)
    let cl_with_trailers = want_trailers && !h1 && h2_backend && rng.below(2) == 0;
    let chunks = if chunked && !cl_with_trailers { Some(if h1 { random_chunks(rng, body) } else { vec![body] }) } else { None };
    if h1 {
        let framing: Hdr = if chunked { ("Transfer-Encoding".into(), "chunked".into(), 0) } else { ("Content-Length".into(), body.to_string(), 0) };
        // a body-less GET may go without framing fields (RFC 9112 6.3)
        if chunked || body > 0 || method != "GET" || rng.below(2) == 0 { let pos = rng.below(hs.len() as u64 + 1) as usize; hs.insert(pos, framing); }
        let pos = rng.below(hs.len() as u64 + 1) as usize;
        hs.insert(pos, ("x-sim-id".into(), id.to_string(), 0));
        // Host first: a Host field after other fields under back-pressure is the recorded worker panic C13-P1 of the HTTP/1.1 family
        hs.insert(0, (if rng.below(6) == 0 { "host".to_string() } else { "Host".to_string() }, "c0.test".to_string(), 0));
    }
    CReq { id, method, path: format!("/r/{id}?x=q{id}-0"), cluster: 0, headers: hs, body, chunks, trailers }
}

fn gen_response(rng: &mut Prng, id: u64, h2_backend: bool, cats: &[u8], kinds: &[u8]) -> CResp {
    let h1 = !h2_backend;
    // a 204 from an h2c backend stalls the next request of an HTTP/1.1 keep-alive client (C13-F12): rare there
    let status = if h2_backend { *rng.pick(&[200u16, 200, 200, 200, 200, 200, 200, 200, 200, 201, 201, 404, 404, 500, 500, 204]) } else { *rng.pick(&[200u16, 200, 200, 200, 201, 404, 500, 204]) };
    let mut hs: Vec<(String, String)> = Vec::new();
    let mut k = 0u32;
    let mut long_budget = 1usize;
    let mk = |k: &mut u32| { *k += 1; format!("r{id}-{k}") };
    for _ in 0..1 + rng.below(5) {
        match *rng.pick(cats) {
            0 | 5 => {
                let n = *rng.pick(&["x-resp-a", "x-resp-b", "server", "x-tag"]);
                let m = mk(&mut k);
                hs.push((name_variant(rng, n, h1), value(rng, &m, kinds, h2_backend, &mut long_budget)));
            }
            1 | 6 => {
                let n = *rng.pick(&["x-resp-a", "x-resp-b", "vary"]);
                for _ in 0..2 + rng.below(2) {
                    let m = mk(&mut k);
                    hs.push((name_variant(rng, n, h1), value(rng, &m, kinds, h2_backend, &mut long_budget)));
                    if rng.below(3) == 0 { let m = mk(&mut k); hs.push((name_variant(rng, "x-mid", h1), m)); }
                }
            }
            2 | 7 => {
                for i in 0..2 + rng.below(2) {
                    let m = mk(&mut k);
                    hs.push((name_variant(rng, "set-cookie", h1), match i { 0 => format!("a={m}; Path=/; HttpOnly"), 1 => format!("b={m}"), _ => format!("a={m}; Expires=Wed, 21 Oct 2037 07:28:00 GMT") }));
                }
            }
            3 => hs.push((name_variant(rng, "strict-transport-security", h1), "max-age=5".into())),
            4 => { let m = mk(&mut k); hs.push((name_variant(rng, "x-request-id", h1), m)); }
            8 => { hs.push((name_variant(rng, "cache-control", h1), "no-cache, private".into())); hs.push((name_variant(rng, "content-type", h1), "text/plain; charset=utf-8".into())); }
            _ => {
                if h2_backend || hs.iter().any(|h| h.0.eq_ignore_ascii_case("connection")) { continue; }
                match rng.below(5) {
                    0 => { hs.push(("Connection".into(), "keep-alive".into())); hs.push((name_variant(rng, "keep-alive", true), "timeout=5".into())); }
                    1 => { let m = mk(&mut k); hs.push((name_variant(rng, "x-rhop", true), m)); hs.push(("Connection".into(), rng.pick(&["X-Rhop", "keep-alive, x-rhop"]).to_string())); }
                    2 => hs.push((name_variant(rng, "proxy-connection", true), "keep-alive".into())),
                    3 => hs.push((name_variant(rng, "upgrade", true), "foo/2".into())),
                    _ => hs.push((name_variant(rng, "keep-alive", true), "timeout=7".into())),
                }
            }
        }
    }
    if h1 {
        // optional whitespace around the value of an HTTP/1.1 field line (not part of the value, RFC 9110 5.5)
        for h in hs.iter_mut() { if !h.1.is_empty() && rng.below(6) == 0 { h.1 = match rng.below(4) { 0 => format!(" {}", h.1), 1 => format!("\t{}", h.1), 2 => format!("{} ", h.1), _ => format!("{}\t", h.1) }; } }
    }
    if rng.below(3) != 0 { rng.shuffle(&mut hs); }
    let mut body = match rng.below(4) { 0 => 0, _ => 1 + rng.below(300) as usize };
    let mut chunks = None;
    if status == 204 {
        body = 0;
    } else if rng.below(3) == 0 {
        chunks = Some(if h1 { random_chunks(rng, body) } else { vec![body] });
        if h1 { let pos = rng.below(hs.len() as u64 + 1) as usize; hs.insert(pos, ("Transfer-Encoding".into(), "chunked".into())); }
    } else if h1 {
        let pos = rng.below(hs.len() as u64 + 1) as usize;
        hs.insert(pos, ("Content-Length".into(), body.to_string()));
    }
    if h1 { let pos = rng.below(hs.len() as u64 + 1) as usize; hs.insert(pos, ("x-sim-id".into(), id.to_string())); }
    CResp { status, headers: hs, body, chunks }
}

/// bodies are tiny and slow peers deliver them in many small DATA frames: answering each with a WINDOW_UPDATE
/// would trip sozu's documented WINDOW_UPDATE flood detector (GOAWAY ENHANCE_YOUR_CALM); credit is returned in bulk
fn quiet_wu() -> WuPolicy { WuPolicy { stream: WuMode::Threshold(16384), conn: WuMode::Threshold(16384), fallback_ns: 50 * MS } }

pub fn generate(seed: u64, _tier: Tier) -> MuxFam {
    let mut rng = Prng::derive(seed, "c13/mux");
    let faulty = rng.below(3) == 0;
    let mut knobs = Knobs::default();
    knobs.buffer_size = *rng.pick(&[16393u64, 16393, 32768]);
    let pair = match rng.below(10) { 0..=3 => "h2_h1", 4..=6 => "h1_h2c", _ => "h2_h2c" };
    let (h2_client, h2_backend) = (pair != "h1_h2c", pair != "h2_h1");
    // injected short writes / EAGAIN toward an h2c backend corrupt sozu's outgoing frame stream (recorded under C15-E and
    // the H2B group of C14: control frames and stream frames share buffers on the backend-facing connection); header
    // fidelity cannot be judged on a broken frame stream, so those plans keep the schedule faults off
    let faulty = faulty && !h2_backend;
    let http_front: SocketAddr = "10.0.0.1:80".parse().unwrap();
    let https_front: SocketAddr = "10.0.0.1:443".parse().unwrap();
    let mut o = Opts::default();
    o.elide_x_real_ip = rng.below(2) == 0;
    o.send_x_real_ip = rng.below(2) == 0;
    if rng.below(3) == 0 { o.sozu_id_header = Some(rng.pick(&["X-Edge-Id", "x-request-trace", "Sozu-Id"]).to_string()); }
    if rng.below(3) == 0 { o.sticky_name = Some(rng.pick(&["SID", "sticky-c"]).to_string()); }
    if rng.below(3) == 0 { o.public_address = Some(rng.pick(&["203.0.113.10:443", "[2001:db8:a::10]:8443"]).parse().unwrap()); }
    o.sticky = vec![rng.below(2) == 0];
    o.edits = vec![vec![]];
    let hsts = if h2_client && rng.below(3) == 0 { Some(Hsts { max_age: *rng.pick(&[0u32, 86400, 31536000]), include_subdomains: rng.below(2) == 0 }) } else { None };
    // swarm: categories and value kinds enabled for this plan
    let mut cats: Vec<u8> = (0..10u8).filter(|_| rng.below(2) == 0).collect();
    while cats.len() < 2 { cats.push(rng.below(10) as u8); }
    if h2_client && rng.below(8) == 0 { cats.push(10); }
    let mut kinds: Vec<u8> = (0..12u8).filter(|_| rng.below(2) == 0).collect();
    while kinds.len() < 2 { kinds.push(rng.below(12) as u8); }
    let nreq = 1 + rng.below(3) as usize;
    let mut reqs = Vec::new();
    let mut hint = 0usize;
    for i in 0..nreq {
        let id = 1 + i as u64;
        let req = gen_request(&mut rng, id, h2_client, h2_backend, &o, &cats, &kinds, i + 1 == nreq);
        let resp = gen_response(&mut rng, id, h2_backend, &cats, &kinds);
        hint += req.body + resp.body + 6000;
        reqs.push(MReq { req, resp });
    }
    let v6 = rng.below(3) == 0;
    let src: SocketAddr = if v6 { "[2001:db8:0:2::11]:50002" } else { "192.0.2.7:40001" }.parse().unwrap();
    let pace_c = Pace::random_budget(&mut rng, hint, 300_000_000);
    let pace_b = Pace::random_budget(&mut rng, hint, 300_000_000);
    let hpack = |rng: &mut Prng| HpackStyle { repr: *rng.pick(&[Repr::NoIndex, Repr::NeverIndex, Repr::IncrIndex]), incr_every: rng.below(4) as u32, static_names: rng.below(2) == 0, static_full: rng.below(2) == 0, huffman: rng.below(2) == 0, dynamic_refs: rng.below(2) == 0, table_size: None };
    let backend = if h2_backend {
        let mut b = H2BackendPlan::simple("b0", "10.1.0.1:8000".parse().unwrap(), BTreeMap::new());
        // a slow h2c backend (SETTINGS arriving in pieces) runs into the recorded defects of the h2c backend path (C14 H2B)
        b.pace = if rng.below(3) == 0 { pace_b } else { Pace::greedy() };
        b.conn.hpack = hpack(&mut rng);
        b.conn.wu = quiet_wu();
        MuxBackend::H2(b)
    } else {
        MuxBackend::H1(BackendPlan { name: "b0".into(), addr: "10.1.0.1:8000".parse().unwrap(), pace: pace_b, responses: BTreeMap::new(), default: RespSpec::ok(BodySpec::Cl(3)), close_on_accept: vec![], listen_from_ns: 0, listen_until_ns: 0 })
    };
    let mut h1_clients = Vec::new();
    let mut h2_clients = Vec::new();
    if h2_client {
        let mut c = H2ClientPlan::simple("h2c0", src, https_front, Some(TlsPlan::h2("c0.test")), vec![]);
        c.pace = pace_c;
        c.conn.settings.enable_push = Some(0);
        c.conn.hpack = hpack(&mut rng);
        c.conn.wu = quiet_wu();
        c.max_concurrent = *rng.pick(&[1u32, 8]);
        c.give_up_ns = 40 * SEC;
        c.start_ns = rng.below(3) * MS;
        h2_clients.push(c);
    } else {
        h1_clients.push(ClientPlan { name: "cl0".into(), src, dst: http_front, start_ns: rng.below(3) * MS, pace: pace_c, pipeline: false, requests: vec![], abort: None, sndbuf: None, think_ns: rng.below(2) * rng.below(2 * MS), linger_ns: 0, give_up_ns: 40 * SEC, wait_board: None });
    }
    let mux = MuxPlan {
        seed,
        family: format!("mux_{pair}{}{}", if o.sticky[0] { "+sticky" } else { "" }, if faulty { "+buggify" } else { "" }),
        knobs,
        sched: netsim::default_sched(&mut rng, faulty),
        http_front,
        https_front,
        clusters: vec![MuxCluster { id: "c0".into(), host: "c0.test".into(), backend, mode: BackendMode::Listen { delay_ns: rng.below(2) * rng.below(3 * MS) } }],
        h1_clients,
        h2_clients,
        sndbufs: if rng.below(3) == 0 { Some(vec![0, 4608, 9216, 32768]) } else { None },
        settle_ns: 0,
        soft_stop_at_ns: None,
        h2_deadline_secs: None,
    };
    MuxFam { mux, pair: pair.to_string(), opts: o, hsts, reqs }
}

// ------------------------------------------------------------------------------------ oracle glue

fn truth_of(p: &MuxFam) -> Truth {
    Truth { peer: p.client_addr(), by: vec![p.opts.public_address.unwrap_or(p.listener())], proto: if p.h2_client() { "https" } else { "http" } }
}

fn others(p: &MuxFam, id: u64) -> Vec<model::Foreign> {
    let mut v = Vec::new();
    for x in &p.reqs {
        if x.req.id == id { continue; }
        v.push(model::Foreign { needle: format!("q{}-", x.req.id), what: "request_marker", same_client: true });
        v.push(model::Foreign { needle: format!("r{}-", x.req.id), what: "response_marker", same_client: true });
    }
    v
}

/// what the backend saw of request `id`: (times seen, the first observation)
fn backend_seen(o: &MuxOutcome, id: u64) -> (u32, Option<mm::BackObs>) {
    let mut n = 0;
    let mut obs = None;
    match &o.backends[0] {
        BackendRecords::H1(recs) => {
            for r in recs { for q in r.requests.iter().chain(r.partial.iter()) { if q.sim_id == Some(id) {
                n += 1;
                if n > 1 { continue; }
                let mut parts = q.start.splitn(3, ' ');
                let (method, target) = (parts.next().unwrap_or("").to_string(), parts.next().unwrap_or("").to_string());
                obs = Some(mm::BackObs { h2: false, method, path: target, authority: None, scheme: None, fields: q.headers.clone(), trailers: q.trailers.clone(), complete: q.complete, issues: vec![], conn: r.idx, reused_conn: r.requests.len() > 1 });
            } } }
        }
        BackendRecords::H2(recs) => {
            for r in recs { for s in r.streams.values() { if s.sim_id == Some(id) {
                n += 1;
                if n > 1 { continue; }
                let ps = |n: &str| s.headers.iter().find(|h| h.0 == n).map(|h| h.1.clone());
                obs = Some(mm::BackObs { h2: true, method: ps(":method").unwrap_or_default(), path: ps(":path").unwrap_or_default(), authority: ps(":authority"), scheme: ps(":scheme"), fields: s.headers.iter().filter(|h| !h.0.starts_with(':')).cloned().collect(), trailers: s.trailers.clone(), complete: s.recv_end, issues: s.header_issues.clone(), conn: r.idx, reused_conn: r.streams.len() > 1 });
            } } }
        }
    }
    (n, obs)
}

/// what the client saw for request number `ri` (`id`)
fn client_seen(p: &MuxFam, o: &MuxOutcome, ri: usize, id: u64) -> mm::ClientSeen {
    if p.h2_client() {
        let rec = &o.h2_clients[0];
        match rec.stream_for(id) {
            None => mm::ClientSeen::default(),
            Some(s) => mm::ClientSeen {
                answered: s.status.is_some(), status: s.status, sim_id: s.sim_id, fields: s.headers.iter().filter(|h| !h.0.starts_with(':')).cloned().collect(),
                body_len: s.body_len, body_ok: s.body_ok(), complete: s.recv_end, issues: s.header_issues.clone(),
                aborted: s.recv_rst.map(|c| format!("rst={c}")).or(if s.refused_by_goaway { Some("goaway".into()) } else { None }), h2: true,
            },
        }
    } else {
        let oc = &o.h1_clients[0];
        match oc.responses.get(ri).or(if oc.responses.len() == ri { oc.partial.as_ref() } else { None }) {
            None => mm::ClientSeen::default(),
            Some(m) => mm::ClientSeen { answered: true, status: Some(m.status()), sim_id: m.sim_id, fields: m.headers.clone(), body_len: m.body_len, body_ok: m.body_ok(), complete: m.complete, issues: vec![], aborted: if m.complete { None } else { Some("eof".into()) }, h2: false },
        }
    }
}

/// Plan-level trigger (computed from the plan only) of the defects that break a request as a whole or the
/// connection it travels on; every violation of a request that carries a trigger is keyed `<pair>|<trigger>`:
///  * HTTP/2 request trailers toward an HTTP/1.1 backend (C14 H2F-1), and the sibling streams of such a request;
///  * HTTP/1.1 chunked trailers toward an h2c backend (C13-F11: the trailer block is HPACK-encoded but not framed
///    when the trailer section arrives in pieces, the encoder state then differs from the backend's), and every
///    later request on that connection;
///  * requests that follow a 204 from an h2c backend on an HTTP/1.1 keep-alive connection (C13-F12).
pub fn trigger(p: &MuxFam, ri: usize) -> &'static str {
    let r = &p.reqs[ri].req;
    match p.pair.as_str() {
        "h2_h1" => {
            if !r.trailers.is_empty() { return "h2_request_trailers_to_h1_backend"; }
            if p.reqs.iter().any(|x| !x.req.trailers.is_empty()) { return "sibling_of_h2_request_trailers_to_h1_backend"; }
        }
        "h1_h2c" => {
            if p.reqs[..ri].iter().any(|x| !x.req.trailers.is_empty()) { return "after_h1_chunked_trailers_to_h2c_backend"; }
            if p.reqs[..ri].iter().any(|x| x.resp.status == 204 || x.resp.status == 304) { return "after_bodyless_response_from_h2c_backend"; }
            if !r.trailers.is_empty() { return "h1_chunked_trailers_to_h2c_backend"; }
        }
        _ => {}
    }
    "none"
}

/// classes that say "this exchange failed as a whole" (not about one field)
const WHOLE: &[&str] = &["request_not_forwarded", "response_not_relayed", "request_replayed", "response_body_diff"];

fn rekey(mut y: Violation, p: &MuxFam, trig: &str) -> Violation {
    let whole = WHOLE.contains(&y.class.as_str());
    // an exchange with an h2c backend that fails as a whole: the recorded defects of the h2c backend path (C14 H2B: streams
    // attached while the backend's SETTINGS are awaited, frame header read in pieces, flow control); C13-F11 only harms
    // the trailer section of its own request and the requests after it
    if whole && p.h2_backend() && !trig.starts_with("after_") { y.key = format!("{}|h2_backend", p.pair); return y; }
    if trig == "none" { return y; }
    let trailer_part = !trig.starts_with("after_") && !trig.starts_with("sibling_") && y.key.contains("trailer") && y.class != "spoofed_trusted_position";
    if whole || trailer_part { y.key = format!("{}|{trig}", p.pair); }
    y
}

pub fn oracle(p: &MuxFam, o: &MuxOutcome, probes: &mut BTreeMap<String, u64>) -> Vec<Violation> {
    let mut v = Vec::new();
    let mut probe = |k: &str, n: u64| { *probes.entry(k.to_string()).or_insert(0) += n; };
    let pair = p.pair.as_str();
    if let Some(pn) = &o.panicked {
        let norm: String = pn.chars().map(|c| if c.is_ascii_digit() { 'N' } else if c == ' ' { '_' } else { c }).collect::<String>().replace("NNNNNNNNNN", "N").replace("NNNNN", "N");
        v.push(Violation::new("panic", format!("{}|{pair}", norm.chars().take(60).collect::<String>()), format!("worker panicked: {pn}")));
    }
    if let Some(a) = &o.aborted { v.push(Violation::new("no_exit", format!("{a}|{pair}"), format!("run aborted: {a}"))); }
    let worker_died = o.panicked.is_some() || o.aborted.is_some();
    if p.h2_client() {
        let rec = &o.h2_clients[0];
        if let Some(e) = rec.connect_err { v.push(Violation::new("request_not_forwarded", format!("connect_failed|{pair}"), format!("h2 client could not connect: errno {e}"))); return v; }
        if let Some(t) = &rec.tls { if !t.handshake_done { v.push(Violation::new("request_not_forwarded", format!("tls_handshake_failed|{pair}"), format!("TLS handshake failed: {:?}", t.error))); return v; } }
    }
    let truth = truth_of(p);
    let sticky = p.opts.sticky.first().copied().unwrap_or(false);
    let mut ids: Vec<(usize, u64, Option<String>, Option<String>)> = Vec::new();
    let mut dead = false;
    for (ri, x) in p.reqs.iter().enumerate() {
        let r = &x.req;
        let trig = trigger(p, ri);
        let mut local: Vec<Violation> = Vec::new();
        let foreign = others(p, r.id);
        let (n_seen, bobs) = backend_seen(o, r.id);
        let cs = client_seen(p, o, ri, r.id);
        let relayed = cs.answered && cs.sim_id == Some(r.id);
        // a request the HTTP/2 client never sent (GOAWAY came first) is retryable elsewhere; what made sozu send the GOAWAY
        // is judged on the stream that failed
        if p.h2_client() && o.h2_clients[0].requests_not_sent.contains(&r.id) { probe("request_not_sent_after_goaway", 1); continue; }
        let sent = mm::sent_request(p, r);
        let feat = mm::request_feature(p, r);
        if sent.iter().any(|h| h.1.bytes().any(|c| c == b'\r' || c == b'\n' || c == 0)) {
            // deliberately malformed: the only acceptable outcome is a refusal of this one stream
            let kind = if sent.iter().any(|h| h.1.contains("\r\n")) { "crlf" } else if sent.iter().any(|h| h.1.contains('\n')) { "lf" } else if sent.iter().any(|h| h.1.contains('\r')) { "cr" } else { "nul" };
            if let Some(b) = &bobs {
                let injected = b.fields.iter().any(|h| h.0.eq_ignore_ascii_case("x-injected"));
                v.push(Violation::new("malformed_request_forwarded", format!("request|{pair}|{kind}_in_h2_value{}", if injected { ",field_line_injected" } else { "" }), format!("request #{} with {kind} in a field value reached the backend: {:?}", r.id, mm::short(&b.fields))));
            } else if cs.aborted.is_some() || cs.status.map_or(false, |c| (400..500).contains(&c)) { probe("malformed_request_refused", 1); }
            else if !worker_died { v.push(Violation::new("request_not_forwarded", format!("{}|{pair}|malformed_request_unanswered", cs.outcome()), format!("request #{} with {kind} in a field value: neither forwarded nor refused", r.id))); }
            continue;
        }
        let Some(b) = bobs else {
            if dead || worker_died { probe("collateral_after_refused_request", 1); continue; }
            if trig != "none" { probe("triggered_request_not_forwarded", 1); }
            if !p.h2_client() { dead = true; }
            v.push(rekey(Violation::new("request_not_forwarded", format!("{}|{pair}|{feat}", cs.outcome()), format!("request #{} ({pair}): valid request never reached the backend; client saw {}; sent fields {:?}", r.id, cs.outcome(), mm::short(&sent))), p, trig));
            continue;
        };
        if n_seen > 1 {
            // (after C13-F11 a later request of the plan can decode at the backend with this request's x-sim-id)
            let d1 = pair == "h1_h2c" && p.reqs.iter().any(|y| !y.req.trailers.is_empty());
            let y = Violation::new("request_replayed", format!("x{n_seen}|{pair}|{feat}"), format!("request #{} reached the backend {n_seen} times", r.id));
            if d1 { v.push(Violation { key: format!("{pair}|after_h1_chunked_trailers_to_h2c_backend"), ..y }); } else { local.push(y); }
        }
        probe("requests_checked", 1);
        probe(&format!("requests_checked_{pair}"), 1);
        if b.reused_conn { probe("requests_on_shared_backend_conn", 1); }
        let resp_corr: Option<Vec<String>> = if relayed { Some(cs.fields.iter().filter(|h| h.0.eq_ignore_ascii_case(p.opts.corr())).map(|h| h.1.clone()).collect()) } else { None };
        let ctx = model::ReqCtx { truth: &truth, opts: &p.opts, sticky, edits: &[], foreign: &foreign, resp_corr: resp_corr.as_deref(), reused_conn: b.reused_conn, shared_conn: false };
        {
            let sent_corr: Vec<&str> = sent.iter().filter(|h| h.0.eq_ignore_ascii_case(p.opts.corr())).map(|h| h.1.as_str()).collect();
            let corr = b.fields.iter().filter(|h| h.0.eq_ignore_ascii_case(p.opts.corr())).map(|h| h.1.as_str()).filter(|x| !sent_corr.contains(x)).last().map(|s| s.to_string());
            let rid = if sent.iter().any(|h| h.0.eq_ignore_ascii_case("x-request-id")) { None } else { b.fields.iter().find(|h| h.0.eq_ignore_ascii_case("x-request-id")).map(|h| h.1.clone()) };
            if !trig.starts_with("after_") && !trig.starts_with("sibling_") { ids.push((ri, r.id, corr, rid)); }
        }
        let nv = mm::check_request(p, r, &sent, &b, &ctx, &mut |k, n| probe(k, n));
        for mut y in nv { y.detail = format!("{pair} request #{} ({}) on backend conn {}: {}", r.id, truth.peer, b.conn, y.detail); local.push(y); }
        // ---- what the client received
        if relayed {
            probe("responses_checked", 1);
            let req_corr: Vec<String> = b.fields.iter().filter(|h| h.0.eq_ignore_ascii_case(p.opts.corr())).map(|h| h.1.clone()).collect();
            let nv = mm::check_response(p, x, &cs, &foreign, &req_corr, &mut |k, n| probe(k, n));
            for mut y in nv { y.detail = format!("{pair} response to request #{}: {}", r.id, y.detail); local.push(y); }
        } else if !worker_died {
            if trig != "none" { probe("triggered_response_missing", 1); }
            local.push(Violation::new("response_not_relayed", format!("{}|{pair}|{}", cs.outcome(), mm::response_feature(p, &x.resp)), format!("request #{} reached the backend and was answered, the client saw {} instead of the backend's response; backend sent {:?}", r.id, cs.outcome(), mm::short(&mm::sent_response(p, r.id, &x.resp)))));
        }
        // C13-F11 shows as a field list the client never sent (foreign / altered / lost fields, another request's target):
        // the two field-level defects that occur on any request (C13-F13 optional whitespace, C13-F4 fields named by
        // Connection) and the identity checks alone do not count as such evidence
        let desync = |y: &Violation| ["header_altered", "header_lost", "header_duplicated", "foreign_header", "cross_client_leak", "h2_header_block_invalid", "connection_specific_crossed_into_h2"].contains(&y.class.as_str()) && !y.key.ends_with("value=ows") && !y.key.ends_with("field_named_by_connection");
        if trig == "after_h1_chunked_trailers_to_h2c_backend" && local.iter().any(desync) {
            // once the HPACK state of the backend connection went wrong every field the backend decodes is suspect:
            // one violation per request instead of one per field
            let (field, rest): (Vec<Violation>, Vec<Violation>) = local.into_iter().partition(|y| !WHOLE.contains(&y.class.as_str()));
            let what: Vec<String> = field.iter().map(|y| format!("{}:{}", y.class, y.key)).collect();
            local = rest;
            local.push(Violation::new("field_block_corrupted", format!("{pair}|{trig}"), format!("{pair} request #{}: {} field-level violations ({}); first: {}", r.id, field.len(), what.join(", ").chars().take(400).collect::<String>(), field[0].detail.chars().take(500).collect::<String>())));
        }
        for y in local { let y = rekey(y, p, trig); if !v.iter().any(|z: &Violation| z.class == y.class && z.key == y.key) { v.push(y); } }
    }
    // "Each request gets a unique ULID" (doc/configure.md, sozu_id_header)
    for (k, (ri, id, corr, rid)) in ids.iter().enumerate() {
        for (what, val) in [("correlation", corr), ("x-request-id", rid)] {
            let Some(val) = val else { continue };
            let field = |x: &(usize, u64, Option<String>, Option<String>)| if what == "correlation" { x.2.clone() } else { x.3.clone() };
            if let Some(prev) = ids[..k].iter().find(|x| field(x).as_deref() == Some(val.as_str())) {
                let scope = if p.h2_client() { "other_stream_of_h2_connection" } else { "later_request_of_keep_alive_connection" };
                v.push(Violation::new("id_not_unique", format!("{what}|{scope}"), format!("{pair} request #{id} (#{} on its connection) carries the proxy-generated {what} {val:?}, the same as request #{}", ri + 1, prev.1)));
            } else { probe("ids_unique", 1); }
        }
    }
    // the peers' own frame ledgers: a header block sozu wrote that the peer's HPACK decoder rejects
    let mut recs: Vec<(&str, &H2ConnRecord)> = o.h2_clients.iter().map(|r| ("client", r)).collect();
    if let BackendRecords::H2(rs) = &o.backends[0] { recs.extend(rs.iter().map(|r| ("backend", r))); }
    for (who, rec) in recs {
        for lv in &rec.violations {
            // (frame-level faults of the ledger - windows, malformed frames - are C14's)
            if lv.kind.starts_with("hpack") || lv.kind == "continuation_interleaved" {
                let t = (0..p.reqs.len()).map(|i| trigger(p, i)).find(|t| *t != "none" && !t.starts_with("after_") && !t.starts_with("sibling_"));
                let key = match t { Some(t) => format!("{pair}|{t}"), None => format!("{who}|{}|{pair}", lv.kind) };
                if !v.iter().any(|z| z.class == "h2_header_block_invalid" && z.key == key) { v.push(Violation::new("h2_header_block_invalid", key, format!("{who} ledger: {lv:?}"))); }
            }
        }
    }
    if let BackendRecords::H1(recs) = &o.backends[0] {
        for r in recs { if let Some(e) = &r.parse_error {
            let t = if (0..p.reqs.len()).any(|i| trigger(p, i) != "none") { "h2_request_trailers_to_h1_backend" } else { "none" };
            v.push(Violation::new("backend_stream_not_strict", format!("parse_error|{pair}|{t}"), format!("backend conn {}: {e}", r.idx)));
        } }
    }
    v
}

pub fn summarize(p: &MuxFam) -> String {
    let o = &p.opts;
    let mut s = format!("{} client={} elide={} send={} corr={:?} sticky_name={:?} public={:?} sticky={:?} hsts={:?} ", p.mux.family, p.client_addr(), o.elide_x_real_ip, o.send_x_real_ip, o.sozu_id_header, o.sticky_name, o.public_address, o.sticky, p.hsts);
    for x in &p.reqs {
        let names: Vec<&str> = x.req.headers.iter().map(|h| h.0.as_str()).filter(|n| !["host", "x-sim-id", "content-length", "transfer-encoding"].contains(&n.to_ascii_lowercase().as_str())).collect();
        let rnames: Vec<&str> = x.resp.headers.iter().map(|h| h.0.as_str()).filter(|n| !["x-sim-id", "content-length", "transfer-encoding"].contains(&n.to_ascii_lowercase().as_str())).collect();
        s += &format!("#{} {} {{{}}}{} -> {} {{{}}} ", x.req.id, x.req.method, names.join(","), if x.req.trailers.is_empty() { String::new() } else { format!(" trailers{{{}}}", x.req.trailers.iter().map(|t| t.0.as_str()).collect::<Vec<_>>().join(",")) }, x.resp.status, rnames.join(","));
    }
    s.chars().take(900).collect()
}

pub fn shrink(p: &MuxFam) -> Vec<MuxFam> {
    let mut out: Vec<MuxFam> = Vec::new();
    if p.reqs.len() > 1 { for i in 0..p.reqs.len() { let mut q = p.clone(); q.reqs.remove(i); out.push(q); } }
    let fixed_req = |n: &str| ["host", "x-sim-id", "content-length", "transfer-encoding"].contains(&n.to_ascii_lowercase().as_str());
    for i in 0..p.reqs.len() {
        let r = &p.reqs[i].req;
        // all optional request fields / all optional response fields at once, then one at a time
        if r.headers.iter().filter(|h| !fixed_req(&h.0)).count() > 1 { let mut q = p.clone(); q.reqs[i].req.headers.retain(|h| fixed_req(&h.0)); out.push(q); }
        if p.reqs[i].resp.headers.iter().filter(|h| !fixed_req(&h.0)).count() > 1 { let mut q = p.clone(); q.reqs[i].resp.headers.retain(|h| fixed_req(&h.0)); out.push(q); }
        for k in 0..r.headers.len() { if fixed_req(&r.headers[k].0) { continue; } let mut q = p.clone(); q.reqs[i].req.headers.remove(k); out.push(q); }
        for k in 0..r.trailers.len() { let mut q = p.clone(); q.reqs[i].req.trailers.remove(k); out.push(q); }
        if r.headers.iter().any(|h| h.2 != 0) { let mut q = p.clone(); for h in q.reqs[i].req.headers.iter_mut() { h.2 = 0; } out.push(q); }
        for k in 0..r.headers.len() { if r.headers[k].1.len() > 200 { let mut q = p.clone(); q.reqs[i].req.headers[k].1.truncate(40); out.push(q); } }
        if r.trailers.is_empty() && (r.body > 0 || r.chunks.is_some()) {
            let mut q = p.clone();
            let rr = &mut q.reqs[i].req;
            rr.body = 0; rr.chunks = None; rr.method = "GET".into();
            for h in rr.headers.iter_mut() { if h.0.eq_ignore_ascii_case("transfer-encoding") { *h = ("Content-Length".into(), "0".into(), 0); } else if h.0.eq_ignore_ascii_case("content-length") { h.1 = "0".into(); } }
            out.push(q);
        }
        let resp = &p.reqs[i].resp;
        for k in 0..resp.headers.len() { if fixed_req(&resp.headers[k].0) { continue; } let mut q = p.clone(); q.reqs[i].resp.headers.remove(k); out.push(q); }
        for k in 0..resp.headers.len() { if resp.headers[k].1.len() > 200 { let mut q = p.clone(); q.reqs[i].resp.headers[k].1.truncate(40); out.push(q); } }
        if resp.status != 200 && resp.status != 204 { let mut q = p.clone(); q.reqs[i].resp.status = 200; out.push(q); }
        if resp.body > 3 && resp.chunks.is_none() {
            let mut q = p.clone();
            let rr = &mut q.reqs[i].resp;
            rr.body = 3;
            for h in rr.headers.iter_mut() { if h.0.eq_ignore_ascii_case("content-length") { h.1 = "3".into(); } }
            out.push(q);
        }
    }
    let d = Opts { sticky: vec![false], edits: vec![vec![]], ..Default::default() };
    macro_rules! reset { ($f:ident) => { if p.opts.$f != d.$f { let mut q = p.clone(); q.opts.$f = d.$f.clone(); out.push(q); } }; }
    reset!(sticky); reset!(public_address); reset!(sozu_id_header); reset!(sticky_name); reset!(elide_x_real_ip); reset!(send_x_real_ip);
    if p.hsts.is_some() { let mut q = p.clone(); q.hsts = None; out.push(q); }
    let mut q = p.clone();
    q.mux.sched.ev_truncate_pm = 0; q.mux.sched.ev_permute_pm = 0; q.mux.sched.preempt_pm = 0; q.mux.sched.short_write_pm = 0; q.mux.sched.eagain_pm = 0; q.mux.sndbufs = None;
    if serde_json::to_string(&q.mux).unwrap() != serde_json::to_string(&p.mux).unwrap() { out.push(q); }
    let mut q = p.clone();
    for c in q.mux.h1_clients.iter_mut() { c.pace = Pace::greedy(); c.think_ns = 0; }
    for c in q.mux.h2_clients.iter_mut() { c.pace = Pace::greedy(); c.conn.hpack = HpackStyle::default(); c.max_concurrent = 8; }
    match &mut q.mux.clusters[0].backend { MuxBackend::H1(b) => b.pace = Pace::greedy(), MuxBackend::H2(b) => { b.pace = Pace::greedy(); b.conn.hpack = HpackStyle::default(); } }
    if serde_json::to_string(&q.mux).unwrap() != serde_json::to_string(&p.mux).unwrap() { out.push(q); }
    if p.mux.knobs.buffer_size != 16393 { let mut q = p.clone(); q.mux.knobs.buffer_size = 16393; out.push(q); }
    out
}

pub fn run_report(p: &MuxFam) -> RunReport {
    if !PAIRS.contains(&p.pair.as_str()) { return RunReport { harness_error: Some(format!("bad plan: pair {:?}", p.pair)), ..Default::default() }; }
    let ok_shape = if p.h2_client() { p.mux.h2_clients.len() == 1 && p.mux.h1_clients.is_empty() } else { p.mux.h1_clients.len() == 1 && p.mux.h2_clients.is_empty() };
    if !ok_shape || p.mux.clusters.len() != 1 || p.mux.clusters[0].backend.is_h2() != p.h2_backend() { return RunReport { harness_error: Some("bad plan: peers do not match the pair".into()), ..Default::default() }; }
    let (_m, o) = run(p, false);
    let mut probes = BTreeMap::new();
    let violations = oracle(p, &o, &mut probes);
    // fingerprint: the scheduler trace plus every field list observed by any party
    let mut th = TraceHash(o.trace_hash, 0);
    let mut mixl = |l: &[(String, String)]| { for (n, v) in l { th.mix_bytes(n.as_bytes()); th.mix(0x3a); th.mix_bytes(v.as_bytes()); th.mix(0x0a); } };
    match &o.backends[0] {
        BackendRecords::H1(recs) => for r in recs { for q in r.requests.iter().chain(r.partial.iter()) { mixl(&q.headers); mixl(&q.trailers); } },
        BackendRecords::H2(recs) => for r in recs { for s in r.streams.values() { mixl(&s.headers); mixl(&s.trailers); } },
    }
    for c in &o.h1_clients { for m in c.responses.iter().chain(c.partial.iter()) { mixl(&m.headers); } }
    for c in &o.h2_clients { for s in c.streams.values() { mixl(&s.headers); } }
    let mut rep = RunReport { seed: p.mux.seed, family: p.mux.family.clone(), violations, trace_hash: th.0, stats: o.stats.clone(), summary: summarize(p), ..Default::default() };
    rep.nontrivial = probes.get("requests_checked").copied().unwrap_or(0) > 0;
    let op = &p.opts;
    for (k, on) in [("mux_plans_elide_x_real_ip", op.elide_x_real_ip), ("mux_plans_send_x_real_ip", op.send_x_real_ip), ("mux_plans_custom_correlation_header", op.sozu_id_header.is_some()), ("mux_plans_custom_sticky_name", op.sticky_name.is_some()), ("mux_plans_public_address", op.public_address.is_some()), ("mux_plans_sticky_session", op.sticky.iter().any(|s| *s)), ("mux_plans_hsts", p.hsts.is_some())] {
        if on { probes.insert(k.into(), 1); }
    }
    rep.probes = probes;
    if let Some(e) = o.boot_error { rep.harness_error = Some(format!("worker boot failed: {e}")); }
    if !o.config_failures.is_empty() { rep.harness_error = Some(format!("configuration refused: {:?}", o.config_failures)); }
    rep
}

pub fn debug(p: &MuxFam) -> String {
    let (m, o) = run(p, std::env::var("C13_LOG").is_ok());
    let mut s = summarize(p) + "\n";
    for l in o.log.iter().rev().take(std::env::var("C13_LOG").ok().and_then(|x| x.parse().ok()).unwrap_or(0)).rev() { s += l; s.push('\n'); }
    for c in &m.h1_clients { for r in &c.requests { s += &format!("--- h1 client sends:\n{}\n", String::from_utf8_lossy(&r.raw.clone().unwrap_or_default()).chars().take(1500).collect::<String>()); } }
    for c in &m.h2_clients { for r in c.requests() { s += &format!("--- h2 client sends #{}: {:?} body={:?}\n", r.id, r.header_list(true).iter().map(|h| (h.0.as_str(), h.1.chars().take(80).collect::<String>())).collect::<Vec<_>>(), r.body); } }
    let cut = |l: &[(String, String)]| l.iter().map(|h| (h.0.clone(), h.1.chars().take(80).collect::<String>())).collect::<Vec<_>>();
    match &o.backends[0] {
        BackendRecords::H1(recs) => for r in recs { for q in r.requests.iter().chain(r.partial.iter()) { s += &format!("--- h1 backend conn {} receives:\n{}trailers={:?} complete={}\n", r.idx, String::from_utf8_lossy(&q.raw_head).chars().take(1500).collect::<String>(), q.trailers, q.complete); } if let Some(e) = &r.parse_error { s += &format!("backend conn {} parse error: {e}\n", r.idx); } },
        BackendRecords::H2(recs) => for r in recs { s += &format!("--- h2 backend conn {}: goaways={:?} violations={:?}\n", r.idx, r.goaways, r.violations); for st in r.streams.values() { s += &format!("  stream {} sim_id={:?} headers={:?} trailers={:?} issues={:?} end={} rst={:?}\n", st.id, st.sim_id, cut(&st.headers), st.trailers, st.header_issues, st.recv_end, st.recv_rst); } },
    }
    match &m.clusters[0].backend {
        MuxBackend::H1(b) => for (id, r) in &b.responses { s += &format!("--- h1 backend answers #{id}:\n{}\n", String::from_utf8_lossy(&r.raw.clone().unwrap_or_default()).chars().take(1200).collect::<String>()); },
        MuxBackend::H2(b) => for (id, r) in &b.responses { s += &format!("--- h2 backend answers #{id}: {:?} body={:?}\n", cut(&r.header_list(Some(*id))), r.body); },
    }
    for c in &o.h1_clients { for m in c.responses.iter().chain(c.partial.iter()) { s += &format!("--- h1 client receives (complete={}):\n{}\n", m.complete, String::from_utf8_lossy(&m.raw_head).chars().take(1500).collect::<String>()); } s += &format!("h1 client rec={:?}\n", c.rec); }
    for c in &o.h2_clients { s += &format!("--- h2 client: goaways={:?} violations={:?} eof={} gave_up={}\n", c.goaways, c.violations, c.eof, c.gave_up); for st in c.streams.values() { s += &format!("  stream {} req={:?} status={:?} headers={:?} issues={:?} end={} rst={:?}\n", st.id, st.req_id, st.status, cut(&st.headers), st.header_issues, st.recv_end, st.recv_rst); } }
    let mut probes = BTreeMap::new();
    for v in oracle(p, &o, &mut probes) { s += &format!("VIOLATION {} {} :: {}\n", v.class, v.key, v.detail.chars().take(700).collect::<String>()); }
    s += &format!("probes={probes:?}\npanicked={:?} aborted={:?} boot={:?} config_failures={:?}\n", o.panicked, o.aborted, o.boot_error, o.config_failures);
    s
}
