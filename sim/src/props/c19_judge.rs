//! C19 shell tier: the oracle. An independent reference model of "UDP flows are sticky, isolated, bounded and torn
//! down once", written from the property text, doc/configure.md (UDP listeners / UDP clusters) and
//! lib/src/protocol/udp/LIFECYCLE.md, judged over (a) what the scripted peers sent and received (full bytes) and
//! (b) the wire tap of the simulated network (`World::udp_log`): every datagram the worker took from or handed to
//! one of its UDP sockets, every upstream socket it opened or closed, in one run-wide order with the peers' events.
//!
//! Model. A *flow* is one upstream socket (LIFECYCLE.md 6: "one connected fd per flow"): it lives from its bind to
//! its close, belongs to the listener and to the affinity key (source IP, or source IP+port) of the client datagram
//! whose processing opened it, and is owned by that datagram's source address. With the state "which flows are
//! open" read off the tap, each datagram the worker consumes has a defined fate under a given configuration:
//!   client datagram, n bytes, on listener L:  n = 0 or n > max_rx -> dropped;  a flow of its key is open -> forwarded
//!   on exactly that flow (existing flows keep working, whatever the cap);  otherwise draining -> dropped,
//!   open flows of L >= max_flows -> shed, cluster without backends -> dropped, else a new flow to a backend of the
//!   cluster and forwarded there.   backend datagram on flow F: n > max_rx -> dropped, else sent to F's owner
//!   through F's listener.   A flow may close only when idle for its timeout (front after a client datagram, back
//!   after a reply), when its `requests` / `responses` count is reached, or on listener deactivation / stop; it must
//!   be closed once exhausted, and an expired flow must not carry another datagram or survive the audit.
//! Master commands take effect at one instant between "written by the master" and "answer read by the master":
//! inside that window every configuration prefix is admissible and a fate is accepted if one of them yields it.
//! Forwarded bytes equal the received bytes (plus exactly the documented PROXY-v2 prefix), at most once, in
//! consumption order per flow; loss is accepted only where named: size/empty/shed/no-backend drops, datagrams the
//! network lost (nobody bound), a send refused with ECONNREFUSED after such a loss, datagrams still queued behind
//! an EAGAIN when their socket closed, replies that reached an upstream socket the worker closed before reading.
#![allow(dead_code)]

use std::collections::{BTreeMap, BTreeSet, VecDeque};
use std::net::SocketAddr;

use super::net::*;
use super::peers::*;
use crate::framework::Violation;
use crate::world::{MS, SEC, UDP_BIND, UDP_CLOSE, UDP_CONNECT, UDP_RECV, UDP_SEND};

pub struct Verdict {
    pub violations: Vec<Violation>,
    pub probes: BTreeMap<String, u64>,
    pub nontrivial: bool,
    pub harness_error: Option<String>,
    pub log: Vec<String>,
}

/// how long after its idle deadline a flow may still be seen open (timer wheel tick + loop latency)
const REAP_SLACK: u64 = 1500 * MS;
/// a datagram parked behind EAGAIN must be retried this soon after the blockage ended
const RETRY_SLACK: u64 = 1000 * MS;
const EAGAIN: i64 = -(libc::EAGAIN as i64);

#[derive(Clone, Debug)]
struct LCfg { exists: bool, active: bool, cap: u32, max_rx: usize, front: u64, back: u64, frontend: Option<usize>, /** a listener update / frontend command re-pointed it at its cluster's id while that cluster was removed */ repointed: bool }
#[derive(Clone, Debug)]
struct CCfg { present: bool, knob: Knob, backends: BTreeSet<SocketAddr> }
/// where a listener's new flows go under one configuration
#[derive(Clone, Copy, Debug, PartialEq)]
enum Route {
    /// no frontend: nothing is routed
    No,
    /// frontend of a cluster that exists
    To(usize),
    /// frontend of a cluster that was removed and not added again: whether the listener still routes (to the backends
    /// the worker keeps registered for that id) depends on which command touched the listener last - not judged
    Unclear(usize),
}
fn route_of(c: &Cfg, lst: usize) -> Route {
    // RemoveCluster resets the routing of the listeners of that cluster ("new datagrams now have no backend"); only a
    // later command that rebuilds the listener's configuration from its frontend makes the state unclear
    match c.l[lst].frontend { None => Route::No, Some(ci) if c.c[ci].present => Route::To(ci), Some(ci) if c.l[lst].repointed => Route::Unclear(ci), Some(_) => Route::No }
}
#[derive(Clone, Debug)]
struct Cfg { l: Vec<LCfg>, c: Vec<CCfg> }

fn initial_cfg(p: &NetPlan) -> Cfg {
    Cfg {
        l: p.listeners.iter().map(|l| LCfg { exists: true, active: true, cap: l.max_flows, max_rx: l.max_rx as usize, front: l.front_s as u64 * SEC, back: l.back_s as u64 * SEC, frontend: Some(l.cluster), repointed: false }).collect(),
        c: p.clusters.iter().map(|c| CCfg { present: true, knob: c.knob.clone(), backends: c.backends.iter().enumerate().filter(|(j, _)| c.initial[*j]).map(|(_, b)| b.addr).collect() }).collect(),
    }
}
fn apply(p: &NetPlan, cfg: &mut Cfg, k: &CmdKind) {
    match k {
        CmdKind::AddBackend { clu, bk } => { cfg.c[*clu].backends.insert(p.clusters[*clu].backends[*bk].addr); }
        CmdKind::RemoveBackend { clu, bk } => { cfg.c[*clu].backends.remove(&p.clusters[*clu].backends[*bk].addr); }
        CmdKind::UpdateListener { lst, max_flows, max_rx, front_s, back_s } => {
            let l = &mut cfg.l[*lst];
            if let Some(v) = max_flows { l.cap = *v; }
            if let Some(v) = max_rx { l.max_rx = *v as usize; }
            if let Some(v) = front_s { l.front = *v as u64 * SEC; }
            if let Some(v) = back_s { l.back = *v as u64 * SEC; }
            if let Some(ci) = l.frontend { if !cfg.c[ci].present { cfg.l[*lst].repointed = true; } }
        }
        CmdKind::Recluster { clu, knob } => { cfg.c[*clu].knob = knob.clone(); cfg.c[*clu].present = true; }
        CmdKind::Deactivate { lst } => { cfg.l[*lst].active = false; }
        // the backends of a removed cluster stay registered in the worker (server.rs: RemoveCluster touches health
        // checks and metrics only; the demo of the e2e suite re-adds the cluster without its backends)
        CmdKind::RemoveCluster { clu } => { cfg.c[*clu].present = false; for l in cfg.l.iter_mut() { if l.frontend == Some(*clu) { l.repointed = false; } } }
        CmdKind::RemoveFrontend { lst, .. } => { cfg.l[*lst].frontend = None; }
        CmdKind::AddFrontend { lst, clu } => { if cfg.l[*lst].exists { cfg.l[*lst].frontend = Some(*clu); cfg.l[*lst].repointed = !cfg.c[*clu].present; } }
        CmdKind::RemoveListener { lst } => { let l = &mut cfg.l[*lst]; l.exists = false; l.active = false; l.frontend = None; }
        CmdKind::AddListener { lst } => {
            let pl = &p.listeners[*lst];
            cfg.l[*lst] = LCfg { exists: true, active: false, cap: pl.max_flows, max_rx: pl.max_rx as usize, front: pl.front_s as u64 * SEC, back: pl.back_s as u64 * SEC, frontend: None, repointed: false };
        }
        CmdKind::Activate { lst } => { if cfg.l[*lst].exists { cfg.l[*lst].active = true; } }
    }
}

/// captured per-flow contract: (knob, front timeout, back timeout)
type Contract = (Knob, u64, u64);

struct Flow {
    local: SocketAddr,
    listener: usize,
    owner: SocketAddr,
    backend: Option<SocketAddr>,
    open_seq: u64,
    open_t: u64,
    contracts: Vec<Contract>,
    /// client datagrams taken on (first attempts and datagrams parked behind a backed-up queue)
    n_fwd: u32,
    n_resp: u32,
    /// replies whose size made it unclear whether they count (max_rx changing under them)
    fuzzy: bool,
    /// opened while its listener pointed at a removed cluster: which knobs (affinity key included) it captured is unknown
    unkeyed: bool,
    last_t: u64,
    last_front: bool,
    closed: Option<(u64, u64)>,
    queued: VecDeque<DgId>,
    delivered: Vec<(u64, DgId)>,
    replies_delivered: Vec<(u64, DgId)>,
}

#[derive(Clone, Debug, Default)]
struct FwdState { seq: u64, t: u64, lst: usize, src: Option<SocketAddr>, n: usize, assigned: Option<usize>, attempts: u32, delivered: Option<(usize, u64, bool)>, parked: Option<(u64, u8)>, dropped_at_close: bool, refused: bool, counted: bool, size_uncertain: bool, fate: &'static str }
#[derive(Clone, Debug, Default)]
struct RepState { seq: u64, t: u64, flow: usize, n: usize, attempts: u32, delivered: Option<(u64, bool)>, parked: Option<(u64, u8)>, dropped_at_close: bool, must_drop: bool, size_uncertain: bool }

enum Ctx {
    None,
    Client { id: Option<DgId>, lst: usize, src: Option<SocketAddr>, n: usize, t: u64, seq: u64, pre_live: Option<usize>, live_count: usize, opened: Option<usize>, attempted_on: Option<usize> },
    Backend { rid: Option<DgId>, flow: usize, n: usize, t: u64, attempted: bool },
}

pub fn trigger_of(p: &NetPlan) -> String {
    // plan-level features only
    let mut f: Vec<&str> = Vec::new();
    if p.clusters.iter().any(|c| c.knob.with_port) { f.push("ip_port"); }
    if p.clusters.iter().any(|c| !c.knob.with_port) { f.push("ip"); }
    f.join("+")
}

pub fn judge(p: &NetPlan, o: &NetOutcome, verbose: bool) -> Verdict {
    let mut v: Vec<Violation> = Vec::new();
    let mut probes: BTreeMap<String, u64> = BTreeMap::new();
    let mut log: Vec<String> = Vec::new();
    let mut harness_error: Option<String> = None;
    let tag = tag_of(p);
    macro_rules! bump { ($k:expr, $n:expr) => {{ *probes.entry($k.to_string()).or_insert(0) += $n as u64; }}; }

    if let Some(e) = &o.boot_error { harness_error = Some(format!("worker boot failed: {e}")); }
    if !o.config_failures.is_empty() { harness_error = Some(format!("initial configuration refused: {:?}", o.config_failures)); }
    if let Some(e) = &o.peer_error { harness_error = Some(format!("scripted peer: {e}")); }

    // ---- plan-level trigger words used in keys
    let has_cmd = |f: &dyn Fn(&CmdKind) -> bool| p.cmds.iter().any(|c| f(&c.kind));
    let aff = |lst: usize| if p.clusters[p.listeners[lst].cluster].knob.with_port { "ip_port" } else { "ip" };
    let shared_ip = { let mut ips: Vec<_> = p.clients.iter().map(|c| c.addr.ip()).collect(); ips.sort(); let n = ips.len(); ips.dedup(); ips.len() < n };

    if let Some(pn) = &o.panicked {
        v.push(Violation::new("panic", format!("worker|{}", p.family), pn.clone()));
        return Verdict { violations: v, probes, nontrivial: true, harness_error, log };
    }
    if let Some(a) = &o.aborted {
        v.push(Violation::new("no_exit", format!("{a}|{}", p.family), format!("run aborted: {a}")));
        return Verdict { violations: v, probes, nontrivial: true, harness_error, log };
    }

    // ---- command timeline
    struct CmdT { sent: u64, ack: Option<u64>, ok: Option<bool>, kind: CmdKind }
    let mut cmds: Vec<CmdT> = Vec::new();
    for (i, c) in p.cmds.iter().enumerate() {
        let ob = &o.cmds[i];
        if let Some(s) = ob.sent_t { cmds.push(CmdT { sent: s, ack: ob.ack_t, ok: ob.ok, kind: c.kind.clone() }); }
    }
    let stop_sent = o.stop.sent_t;
    let base = initial_cfg(p);
    // configurations admissible at virtual time t (prefix-closed over the commands in flight)
    let cfgs_at = |t: u64| -> Vec<Cfg> {
        let mut cur = base.clone();
        let mut out: Vec<Cfg> = Vec::new();
        let mut branching = false;
        for c in &cmds {
            if c.sent > t { break; }
            let certain = matches!(c.ack, Some(a) if a < t);
            if c.ok == Some(false) { continue; }
            if certain && !branching { apply(p, &mut cur, &c.kind); continue; }
            // in flight (or never answered): both "not yet" and "applied" are admissible
            if !branching { out.push(cur.clone()); branching = true; }
            apply(p, &mut cur, &c.kind);
            out.push(cur.clone());
        }
        if !branching { out.push(cur); }
        out
    };
    // a deactivation / removal of listener `lst` that may be taking effect at `t` on something that exists since `since`
    let deact_possible = |lst: usize, since: u64, t: u64| cmds.iter().any(|c| c.sent <= t && c.ack.map_or(true, |a| a >= since) && c.ok != Some(false) && matches!(c.kind, CmdKind::Deactivate { lst: l } | CmdKind::RemoveListener { lst: l } if l == lst));
    let stop_possible = |t: u64| stop_sent.map_or(false, |s| s <= t);

    // ---- peers' books
    let mut sent_by_id: BTreeMap<DgId, &SentRec> = BTreeMap::new();
    for s in &o.sent { sent_by_id.insert((K_QUERY, s.cli as u8, s.dseq), s); }
    let mut reply_by_id: BTreeMap<DgId, &ReplyRec> = BTreeMap::new();
    for b in &o.backends { for r in &b.sent { reply_by_id.insert((K_REPLY, r.bk, r.rseq), r); } }
    let bk_of_addr: BTreeMap<SocketAddr, (usize, usize)> = p.clusters.iter().enumerate().flat_map(|(ci, c)| c.backends.iter().enumerate().map(move |(bi, b)| (b.addr, (ci, bi)))).collect();
    let lst_of_addr: BTreeMap<SocketAddr, usize> = p.listeners.iter().enumerate().map(|(i, l)| (l.addr, i)).collect();
    let key_of = |lst: usize, a: SocketAddr| -> SocketAddr { if p.clusters[p.listeners[lst].cluster].knob.with_port { a } else { let mut x = a; x.set_port(0); x } };

    // ---- walk the tap
    let mut flows: Vec<Flow> = Vec::new();
    let mut live: BTreeMap<SocketAddr, usize> = BTreeMap::new();
    let mut lsock: BTreeMap<i32, usize> = BTreeMap::new();
    let mut lclosed: Vec<Option<u64>> = vec![None; p.listeners.len()];
    let mut lbound: Vec<u64> = vec![0; p.listeners.len()];
    let mut cq: Vec<VecDeque<DgId>> = vec![VecDeque::new(); p.listeners.len()];
    let mut fwd: BTreeMap<DgId, FwdState> = BTreeMap::new();
    let mut rep: BTreeMap<DgId, RepState> = BTreeMap::new();
    let mut ctx = Ctx::None;
    let mut max_live: Vec<usize> = vec![0; p.listeners.len()];
    let mut same_pass_mix = 0u64;
    let mut pass_sources: BTreeSet<SocketAddr> = BTreeSet::new();
    let mut pass_opened = false;

    macro_rules! viol { ($class:expr, $key:expr, $($arg:tt)*) => {{ let k: String = $key; let d = format!($($arg)*); if !v.iter().any(|x: &Violation| x.class == $class && x.key == k) { v.push(Violation::new($class, k, d)); } }}; }

    // A client datagram of an open flow whose queue is backed up joins that queue without a send attempt
    // (LIFECYCLE.md 12.4): no tap event. Settled as soon as the tap shows anything else happening.
    let park_if_backed_up = |ctx: &mut Ctx, flows: &mut Vec<Flow>, fwd: &mut BTreeMap<DgId, FwdState>, probes: &mut BTreeMap<String, u64>| {
        if let Ctx::Client { id: Some(id), lst, n, t, pre_live: Some(f), opened: None, attempted_on, .. } = ctx {
            if attempted_on.is_none() && *n > 0 {
                let cs = cfgs_at(*t);
                let could = cs.iter().all(|c| *n <= c.l[*lst].max_rx);
                let fl = &mut flows[*f];
                // max_rx is changing under this datagram: whether it joined the queue cannot be told
                if !could && cs.iter().any(|c| *n <= c.l[*lst].max_rx) && !fl.queued.is_empty() { fl.fuzzy = true; }
                if could && !fl.queued.is_empty() && fl.queued.len() < 64 && fl.closed.is_none() {
                    fl.queued.push_back(*id);
                    fl.n_fwd += 1;
                    fl.last_t = *t;
                    fl.last_front = true;
                    if let Some(st) = fwd.get_mut(id) { st.assigned = Some(*f); st.parked = Some((*t, 0)); st.counted = true; }
                    *attempted_on = Some(*f);
                    *probes.entry("forward_joined_backed_up_queue".into()).or_insert(0) += 1;
                }
            }
        }
    };

    // the same for a reply read while the listener's client-return queue is backed up
    let park_reply_if_backed_up = |ctx: &mut Ctx, flows: &Vec<Flow>, rep: &mut BTreeMap<DgId, RepState>, cq: &mut Vec<VecDeque<DgId>>, probes: &mut BTreeMap<String, u64>| {
        if let Ctx::Backend { rid: Some(rid), flow, n, t, attempted } = ctx {
            if !*attempted {
                let lst = flows[*flow].listener;
                let fits = cfgs_at(*t).iter().all(|c| *n <= c.l[lst].max_rx);
                if fits && !cq[lst].is_empty() && cq[lst].len() < 256 {
                    cq[lst].push_back(*rid);
                    if let Some(st) = rep.get_mut(rid) { st.parked = Some((*t, 0)); }
                    *attempted = true;
                    *probes.entry("reply_joined_backed_up_queue".into()).or_insert(0) += 1;
                }
            }
        }
    };

    // close of a context: was the consumed datagram's fate admissible?
    let finalize = |ctx: &mut Ctx, flows: &mut Vec<Flow>, live: &BTreeMap<SocketAddr, usize>, fwd: &mut BTreeMap<DgId, FwdState>, rep: &mut BTreeMap<DgId, RepState>, _cq: &mut Vec<VecDeque<DgId>>, v: &mut Vec<Violation>, probes: &mut BTreeMap<String, u64>| {
        let mut viol = |class: &str, key: String, detail: String| { if !v.iter().any(|x| x.class == class && x.key == key) { v.push(Violation::new(class, key, detail)); } };
        match std::mem::replace(ctx, Ctx::None) {
            Ctx::None => {}
            Ctx::Client { id, lst, src, n, t, seq: _, pre_live, live_count, opened, attempted_on } => {
                // observed fate
                let observed: (&str, Option<usize>) = if let Some(f) = opened { ("new", Some(f)) } else if let Some(f) = attempted_on { ("fwd", Some(f)) } else { ("drop", None) };
                let mut expected: Vec<(&str, Option<usize>, &str)> = Vec::new();
                let mut unclear = false;
                for c in cfgs_at(t) {
                    let lc = &c.l[lst];
                    let draining = stop_possible(t) && p.end == End::SoftStop;
                    let mut es: Vec<(&str, Option<usize>, &str)> = Vec::new();
                    if n == 0 { es.push(("drop", None, "empty")); }
                    else if n > lc.max_rx { es.push(("drop", None, "oversize")); }
                    else {
                        match route_of(&c, lst) {
                            Route::No => {
                                // nothing is routed; whether a datagram of a flow that is still open travels on is
                                // documented both ways (flows keep their captured config / no cluster: no backend)
                                es.push(("drop", None, "no_route"));
                                if let Some(f) = pre_live { es.push(("fwd", Some(f), "established")); }
                            }
                            Route::Unclear(_) => { unclear = true; }
                            Route::To(ci) => {
                                if let Some(f) = pre_live { es.push(("fwd", Some(f), "established")); }
                                else {
                                    let admit = (live_count as u32) < lc.cap && !c.c[ci].backends.is_empty();
                                    if draining { es.push(("drop", None, "draining")); if admit { es.push(("new", None, "admit")); } }
                                    else if live_count as u32 >= lc.cap { es.push(("drop", None, "shed")); }
                                    else if c.c[ci].backends.is_empty() { es.push(("drop", None, "no_backend")); }
                                    else { es.push(("new", None, "admit")); }
                                }
                            }
                        }
                    }
                    for e in es { if !expected.contains(&e) { expected.push(e); } }
                }
                if live.values().any(|f| flows[*f].listener == lst && flows[*f].unkeyed) { unclear = true; }
                if unclear || expected.is_empty() {
                    // a listener pointing at a removed cluster: any fate is accepted, the flow it may open is not held to a contract
                    if let Some(f) = opened { flows[f].fuzzy = true; flows[f].unkeyed = true; }
                    *probes.entry("fate_not_judged_removed_cluster".into()).or_insert(0) += 1;
                    if let Some(id) = id { if let Some(st) = fwd.get_mut(&id) { st.fate = observed.0; } }
                    return;
                }
                let ok = expected.iter().any(|e| e.0 == observed.0 && (e.0 != "fwd" || e.1 == observed.1));
                let fate = expected[0].2;
                if let Some(id) = id { if let Some(st) = fwd.get_mut(&id) { st.fate = if observed.0 == "drop" { fate } else { observed.0 }; } }
                if observed.0 == "drop" { *probes.entry(format!("dropped_{}", fate)).or_insert(0) += 1; }
                if !ok {
                    let lc_word = lifecycle_of(p);
                    let a_owned = format!("{}{}", if p.clusters[p.listeners[lst].cluster].knob.with_port { "ip_port" } else { "ip" }, if lc_word == "none" { String::new() } else { format!("|after={lc_word}") });
                    let a = a_owned.as_str();
                    let what = format!("datagram {id:?} ({n} bytes from {src:?} on listener {lst} at +{} us): model expects {:?}, the worker did {:?} (open flows of the listener: {live_count})", t / 1000, expected, observed);
                    match (expected[0].0, expected[0].2, observed.0) {
                        ("fwd", _, "drop") => viol("datagram_dropped", format!("established_flow|aff={a}"), what),
                        ("fwd", _, "new") => viol("flow_split", format!("second_flow_for_live_key|aff={a}"), what),
                        ("fwd", _, "fwd") => viol("wrong_upstream", format!("other_flows_socket|aff={a}"), what),
                        ("new", _, "drop") => viol("datagram_dropped", format!("new_flow_under_cap|aff={a}"), what),
                        ("new", _, "fwd") => viol("wrong_upstream", format!("new_key_on_existing_socket|aff={a}"), what),
                        ("drop", "oversize", _) => viol("oversize_forwarded", format!("client_datagram|aff={a}"), what),
                        ("drop", "empty", _) => viol("empty_forwarded", format!("client_datagram|aff={a}"), what),
                        ("drop", "shed", _) => viol("cap_exceeded", format!("new_flow_at_cap|aff={a}"), what),
                        ("drop", "no_backend", _) => viol("flow_without_backend", format!("cluster_empty|aff={a}"), what),
                        ("drop", "draining", _) => viol("admitted_while_draining", format!("soft_stop|aff={a}"), what),
                        ("drop", "no_route", _) => viol("routed_without_frontend", format!("{}|aff={a}", observed.0), what),
                        _ => viol("fate_mismatch", format!("{}|{}|aff={a}", expected[0].2, observed.0), what),
                    }
                }
                // exhausted flows are closed at once
                if let Some(f) = observed.1 {
                    let fl = &flows[f];
                    if fl.closed.is_none() && !fl.fuzzy && !fl.contracts.is_empty() && fl.contracts.iter().all(|(k, _, _)| k.requests > 0 && fl.n_fwd >= k.requests) {
                        viol("exhausted_flow_alive", format!("requests_reached|aff={}", if fl.contracts[0].0.with_port { "ip_port" } else { "ip" }), format!("flow {} took {} client datagrams, `requests` = {}, and is still open after the datagram that exhausted it was processed (+{} us)", fl.local, fl.n_fwd, fl.contracts[0].0.requests, t / 1000));
                    }
                }
                let _ = live;
            }
            Ctx::Backend { rid, flow, n, t, attempted } => {
                let lst = flows[flow].listener;
                let cs = cfgs_at(t);
                let must_drop = cs.iter().all(|c| n > c.l[lst].max_rx);
                let may_drop = cs.iter().any(|c| n > c.l[lst].max_rx);
                let sent = attempted;
                if let Some(rid) = rid { if let Some(st) = rep.get_mut(&rid) { st.must_drop = must_drop; } }
                if must_drop { *probes.entry("dropped_oversize_reply".into()).or_insert(0) += 1; }
                if sent && must_drop {
                    viol("oversize_forwarded", "backend_datagram".into(), format!("reply {rid:?} of {n} bytes (max_rx_datagram_size {}) read on flow {} was sent on to the client", cs[0].l[lst].max_rx, flows[flow].local));
                }
                if !sent && !may_drop && rid.is_some() {
                    viol("reply_dropped", format!("live_flow|aff={}", if p.clusters[p.listeners[lst].cluster].knob.with_port { "ip_port" } else { "ip" }), format!("reply {rid:?} ({n} bytes) read on the open flow {} at +{} us was neither sent to the client {} nor queued", flows[flow].local, t / 1000, flows[flow].owner));
                }
                let fl = &flows[flow];
                if fl.closed.is_none() && !fl.fuzzy && !fl.contracts.is_empty() && fl.contracts.iter().all(|(k, _, _)| k.responses > 0 && fl.n_resp >= k.responses) {
                    viol("exhausted_flow_alive", format!("responses_reached|aff={}", if fl.contracts[0].0.with_port { "ip_port" } else { "ip" }), format!("flow {} returned {} replies, `responses` = {}, and is still open after the reply that exhausted it was processed (+{} us)", fl.local, fl.n_resp, fl.contracts[0].0.responses, t / 1000));
                }
            }
        }
    };

    for ev in &o.tap {
        match ev.kind {
            UDP_BIND => {
                if let Some(l) = lst_of_addr.get(&ev.local) { lsock.insert(ev.fd, *l); lbound[*l] = ev.t; lclosed[*l] = None; continue; }
                // an upstream socket: only the processing of a client datagram may open one
                match &mut ctx {
                    Ctx::Client { lst, src, t, opened, .. } => {
                        let contracts: Vec<Contract> = { let mut cc: Vec<Contract> = Vec::new(); for c in cfgs_at(*t) { let l = &c.l[*lst]; if let Route::To(ci) | Route::Unclear(ci) = route_of(&c, *lst) { let e = (c.c[ci].knob.clone(), l.front, l.back); if !cc.contains(&e) { cc.push(e); } } } cc };
                        flows.push(Flow { local: ev.local, listener: *lst, owner: src.unwrap_or(ev.local), backend: None, open_seq: ev.seq, open_t: ev.t, contracts, n_fwd: 0, n_resp: 0, fuzzy: false, unkeyed: false, last_t: ev.t, last_front: true, closed: None, queued: VecDeque::new(), delivered: Vec::new(), replies_delivered: Vec::new() });
                        let fi = flows.len() - 1;
                        live.insert(ev.local, fi);
                        if opened.is_some() { viol!("flow_split", format!("two_sockets_for_one_datagram|aff={}", aff(*lst)), "a second upstream socket {} was opened while one datagram was processed", ev.local); }
                        *opened = Some(fi);
                        pass_opened = true;
                        let n = live.values().filter(|f| flows[**f].listener == *lst).count();
                        if n > max_live[*lst] { max_live[*lst] = n; }
                    }
                    _ => { viol!("unattributed_upstream_socket", "bind_outside_datagram_processing".into(), "upstream socket {} bound at +{} us while no client datagram was being processed", ev.local, ev.t / 1000); }
                }
            }
            UDP_CONNECT => {
                if let Some(fi) = live.get(&ev.local).copied() {
                    flows[fi].backend = ev.peer;
                    let lst = flows[fi].listener;
                    let peer = ev.peer.unwrap();
                    let cs = cfgs_at(ev.t);
                    let cl = cs.iter().filter_map(|c| match route_of(c, lst) { Route::To(ci) | Route::Unclear(ci) => Some(ci), Route::No => None }).next().unwrap_or(p.listeners[lst].cluster);
                    if !cs.iter().any(|c| match route_of(c, lst) { Route::To(ci) | Route::Unclear(ci) => c.c[ci].backends.contains(&peer), Route::No => false }) {
                        let why = if bk_of_addr.get(&peer).map_or(false, |(c, _)| *c == cl) { if has_cmd(&|k| matches!(k, CmdKind::RemoveBackend { .. })) { "removed_backend" } else { "unconfigured_backend" } } else { "backend_of_other_cluster" };
                        viol!("ineligible_backend", format!("{why}|lb={}", p.clusters[cl].lb), "new flow {} (listener {lst}) connected to {peer}, which is not a backend of cluster {} at +{} us", ev.local, p.clusters[cl].id, ev.t / 1000);
                    }
                }
            }
            UDP_CLOSE => {
                park_if_backed_up(&mut ctx, &mut flows, &mut fwd, &mut probes);
                park_reply_if_backed_up(&mut ctx, &flows, &mut rep, &mut cq, &mut probes);
                if let Some(l) = lsock.remove(&ev.fd) {
                    lclosed[l] = Some(ev.t);
                    if !(deact_possible(l, lbound[l], ev.t) || stop_possible(ev.t)) {
                        viol!("listener_closed_unasked", format!("listener|{}", p.family), "listener {} closed at +{} us without a deactivation or stop command in flight", ev.local, ev.t / 1000);
                    }
                    for rid in cq[l].drain(..) { if let Some(st) = rep.get_mut(&rid) { st.dropped_at_close = true; } }
                    continue;
                }
                if let Some(fi) = live.remove(&ev.local) {
                    let f = &mut flows[fi];
                    f.closed = Some((ev.seq, ev.t));
                    for id in f.queued.drain(..) { if let Some(st) = fwd.get_mut(&id) { st.dropped_at_close = true; } }
                    let lst = f.listener;
                    let by_cmd = deact_possible(lst, f.open_t, ev.t) || stop_possible(ev.t);
                    let mut legal = by_cmd;
                    let mut why = if by_cmd { "command" } else { "" };
                    for (k, front, back) in &f.contracts {
                        if k.requests > 0 && f.n_fwd >= k.requests { legal = true; why = "requests"; }
                        if k.responses > 0 && f.n_resp >= k.responses { legal = true; why = "responses"; }
                        let to = if f.last_front { *front } else { *back };
                        if ev.t + 2 * MS >= f.last_t + to { legal = true; if why.is_empty() { why = "idle"; } }
                    }
                    if f.fuzzy { legal = true; }
                    bump!(&format!("flow_closed_{}", if why.is_empty() { "unexplained" } else { why }), 1);
                    if !legal {
                        let (k, front, back) = f.contracts.first().cloned().unwrap_or((p.clusters[p.listeners[lst].cluster].knob.clone(), 0, 0));
                        viol!("early_teardown", format!("live_flow_closed|aff={}", if k.with_port { "ip_port" } else { "ip" }), "flow {} (client {}, listener {lst}) closed at +{} us: last activity +{} us ({}), timeouts {}/{} ms, {} datagrams taken (requests={}), {} replies (responses={}), no deactivation/stop in flight", f.local, f.owner, ev.t / 1000, f.last_t / 1000, if f.last_front { "client datagram" } else { "reply" }, front / MS, back / MS, f.n_fwd, k.requests, f.n_resp, k.responses);
                    }
                }
            }
            UDP_RECV => {
                park_if_backed_up(&mut ctx, &mut flows, &mut fwd, &mut probes);
                park_reply_if_backed_up(&mut ctx, &flows, &mut rep, &mut cq, &mut probes);
                finalize(&mut ctx, &mut flows, &live, &mut fwd, &mut rep, &mut cq, &mut v, &mut probes);
                let on_listener = lsock.get(&ev.fd).copied();
                if ev.res < 0 {
                    if on_listener.is_some() {
                        if pass_opened && pass_sources.len() > 1 { same_pass_mix += 1; }
                        pass_sources.clear();
                        pass_opened = false;
                    }
                    continue;
                }
                let n = ev.res as usize;
                if let Some(lst) = on_listener {
                    let id = dg_head(&ev.head, tag).map(|x| x.0).filter(|i| i.0 == K_QUERY);
                    let src = ev.peer;
                    if let Some(s) = src { pass_sources.insert(s); }
                    let key = src.map(|s| key_of(lst, s));
                    let pre_live = key.and_then(|k| live.values().copied().find(|fi| flows[*fi].listener == lst && !flows[*fi].unkeyed && key_of(lst, flows[*fi].owner) == k));
                    let live_count = live.values().filter(|fi| flows[**fi].listener == lst).count();
                    if let Some(id) = id {
                        if fwd.contains_key(&id) { viol!("network_duplicate", "listener_read_twice".into(), "datagram {id:?} was read twice from the listener socket"); }
                        let sizes: Vec<bool> = cfgs_at(ev.t).iter().map(|c| n <= c.l[lst].max_rx).collect();
                        let size_uncertain = sizes.iter().any(|x| *x) && sizes.iter().any(|x| !*x);
                        fwd.insert(id, FwdState { seq: ev.seq, t: ev.t, lst, src, n, assigned: pre_live, size_uncertain, ..Default::default() });
                        // an expired flow must not carry another datagram
                        if let Some(f) = pre_live.filter(|_| n > 0) {
                            let fl = &flows[f];
                            if !fl.contracts.is_empty() && fl.contracts.iter().all(|(_, front, back)| ev.t > fl.last_t + (if fl.last_front { *front } else { *back }) + REAP_SLACK) {
                                let (k, front, back) = fl.contracts[0].clone();
                                let _ = &k; viol!("expired_flow_reused", format!("idle_flow_not_reaped|{}", timer_phase(p)), "datagram {id:?} at +{} us finds flow {} of its key still open, {} ms after its last activity (timeouts {}/{} ms): it will travel on the old upstream socket instead of opening a new flow", ev.t / 1000, fl.local, (ev.t - fl.last_t) / MS, front / MS, back / MS);
                            }
                        }
                    }
                    ctx = Ctx::Client { id, lst, src, n, t: ev.t, seq: ev.seq, pre_live, live_count, opened: None, attempted_on: None };
                } else if let Some(fi) = live.get(&ev.local).copied() {
                    let rid = dg_head(&ev.head, tag).map(|x| x.0).filter(|i| i.0 == K_REPLY);
                    let lst = flows[fi].listener;
                    let cs = cfgs_at(ev.t);
                    let counts_all = cs.iter().all(|c| n <= c.l[lst].max_rx);
                    let counts_any = cs.iter().any(|c| n <= c.l[lst].max_rx);
                    if counts_all { flows[fi].n_resp += 1; flows[fi].last_t = ev.t; flows[fi].last_front = false; } else if counts_any { flows[fi].fuzzy = true; }
                    if let Some(rid) = rid { rep.insert(rid, RepState { seq: ev.seq, t: ev.t, flow: fi, n, size_uncertain: counts_any && !counts_all, ..Default::default() }); }
                    ctx = Ctx::Backend { rid, flow: fi, n, t: ev.t, attempted: false };
                }
            }
            UDP_SEND => {
                if let Some(lst) = lsock.get(&ev.fd).copied() {
                    // ---- reply towards a client
                    if let Ctx::Backend { rid: Some(r), .. } = &ctx { if dg_head(&ev.head, tag).map(|x| x.0) != Some(*r) { park_reply_if_backed_up(&mut ctx, &flows, &mut rep, &mut cq, &mut probes); } }
                    let Some((rid, dlen)) = dg_head(&ev.head, tag).filter(|x| (x.0).0 == K_REPLY) else {
                        viol!("unknown_datagram_sent", format!("to_client|aff={}", aff(lst)), "the listener {} sent {} bytes to {:?} that are no reply any backend produced: {:02x?}", ev.local, ev.len, ev.peer, &ev.head[..ev.head.len().min(24)]);
                        continue;
                    };
                    let Some(st) = rep.get_mut(&rid) else {
                        viol!("unknown_datagram_sent", format!("reply_never_read|aff={}", aff(lst)), "reply {rid:?} was sent to {:?} but never read from an upstream socket", ev.peer);
                        continue;
                    };
                    if ev.len != dlen { viol!("datagram_altered", format!("reply_length|aff={}", aff(lst)), "reply {rid:?}: backend sent {dlen} bytes, the worker sends {} to the client", ev.len); }
                    let fl = &flows[st.flow];
                    if ev.peer != Some(fl.owner) {
                        viol!("reply_misrouted", format!("not_the_flow_owner|aff={}{}", aff(lst), if shared_ip { "|shared_ip" } else { "" }), "reply {rid:?} read on flow {} (owner {}) was sent to {:?}", fl.local, fl.owner, ev.peer);
                    }
                    if fl.listener != lst { viol!("reply_misrouted", format!("other_listener|aff={}", aff(lst)), "reply {rid:?} of a flow of listener {} left through listener {lst}", fl.listener); }
                    if st.delivered.is_some() { viol!("duplicate", format!("reply_sent_twice|aff={}", aff(lst)), "reply {rid:?} was sent to the client a second time at +{} us", ev.t / 1000); }
                    if let Ctx::Backend { rid: Some(r), attempted, .. } = &mut ctx { if *r == rid { *attempted = true; } }
                    st.attempts += 1;
                    let q = &mut cq[lst];
                    if !q.is_empty() && q.front() != Some(&rid) && !st.size_uncertain {
                        viol!("reordered", format!("reply_queue|aff={}", aff(lst)), "reply {rid:?} was sent at +{} us while older replies wait in the client-return queue (front: {:?}, {} queued)", ev.t / 1000, q.front(), q.len());
                        if let Some(pos) = q.iter().position(|x| *x == rid) { q.remove(pos); }
                    }
                    if ev.res == EAGAIN {
                        if q.front() != Some(&rid) { q.push_back(rid); }
                        st.parked = Some((ev.t, ev.note));
                        bump!("reply_send_eagain", 1);
                    } else if ev.res >= 0 {
                        if q.front() == Some(&rid) { q.pop_front(); }
                        st.delivered = Some((ev.seq, ev.note == 1));
                        st.parked = None;
                        flows[st.flow].replies_delivered.push((ev.seq, rid));
                        if ev.note == 1 { bump!("reply_lost_client_gone", 1); }
                    } else {
                        if q.front() == Some(&rid) { q.pop_front(); }
                        st.parked = None;
                        st.dropped_at_close = true;
                        bump!("reply_send_error", 1);
                    }
                    continue;
                }
                // ---- client datagram towards a backend
                let Some(fi) = live.get(&ev.local).copied() else { continue };
                let lst = flows[fi].listener;
                let (pp, rest): (Option<Pp>, &[u8]) = match split_pp(&ev.head) {
                    PpSplit::None(r) => (None, r),
                    PpSplit::Ok(h, r) => (Some(h), r),
                    PpSplit::Bad(e) => { viol!("ppv2_malformed", format!("header|aff={}", aff(lst)), "datagram sent on flow {}: {e}; first bytes {:02x?}", ev.local, &ev.head[..ev.head.len().min(32)]); continue; }
                };
                let Some((id, dlen)) = dg_head(rest, tag).filter(|x| (x.0).0 == K_QUERY) else {
                    viol!("unknown_datagram_sent", format!("to_backend|aff={}", aff(lst)), "flow {} sent {} bytes to {:?} that are no datagram any client produced: {:02x?}", ev.local, ev.len, ev.peer, &ev.head[..ev.head.len().min(24)]);
                    continue;
                };
                let Some(st) = fwd.get_mut(&id) else {
                    viol!("unknown_datagram_sent", format!("datagram_never_read|aff={}", aff(lst)), "datagram {id:?} was sent to a backend but never read from a listener");
                    continue;
                };
                let pplen = pp.as_ref().map_or(0, |h| h.len);
                if ev.len != dlen + pplen { viol!("datagram_altered", format!("length|aff={}", aff(lst)), "datagram {id:?}: client sent {dlen} bytes, the worker sends {} (+{pplen} PROXY bytes) to the backend", ev.len - pplen.min(ev.len)); }
                // the right flow?
                let first_attempt = !st.counted;
                st.counted = true;
                let in_ctx = matches!(&ctx, Ctx::Client { id: Some(i), .. } if *i == id);
                let mut target = st.assigned;
                if in_ctx { if let Ctx::Client { opened: Some(f), pre_live: None, .. } = &ctx { target = Some(*f); st.assigned = Some(*f); } }
                if target != Some(fi) && !flows[fi].unkeyed && !target.map_or(false, |t| flows[t].unkeyed) {
                    let fl = &flows[fi];
                    let key_d = st.src.map(|s| key_of(lst, s));
                    let how = if st.lst != fl.listener { "other_listeners_flow" } else if key_d == Some(key_of(lst, fl.owner)) { "stale_flow_of_same_key" } else { "other_clients_flow" };
                    viol!("wrong_upstream", format!("{how}|aff={}{}", aff(lst), if shared_ip { "|shared_ip" } else { "" }), "datagram {id:?} from {:?} (listener {}) was written to upstream socket {} -> {:?}, the flow of client {} (listener {}); its own flow: {:?}", st.src, st.lst, fl.local, fl.backend, fl.owner, fl.listener, target.map(|t| (flows[t].local, flows[t].backend)));
                }
                if in_ctx { if let Ctx::Client { attempted_on, .. } = &mut ctx { *attempted_on = Some(fi); } }
                if st.delivered.is_some() { viol!("duplicate", format!("datagram_sent_twice|aff={}", aff(lst)), "datagram {id:?} was sent to a backend a second time at +{} us (flow {})", ev.t / 1000, ev.local); }
                st.attempts += 1;
                // PROXY v2 prefix as documented: none / first datagram of the flow / every datagram
                {
                    let fl = &flows[fi];
                    let is_first = fl.n_fwd == 0 || (fl.delivered.is_empty() && fl.queued.front() == Some(&id));
                    let acceptable = fl.contracts.iter().any(|(k, _, _)| { let want = k.pp && (k.pp_every || is_first); want == pp.is_some() });
                    if !acceptable && !fl.contracts.is_empty() {
                        let k = &fl.contracts[0].0;
                        if pp.is_some() { viol!("ppv2_unexpected", format!("pp={}|every={}|first={is_first}", k.pp, k.pp_every), "datagram {id:?} on flow {} carries a PROXY v2 prefix (send_proxy_protocol={}, every_datagram={}, first datagram of the flow: {is_first})", fl.local, k.pp, k.pp_every); }
                        else { viol!("ppv2_missing", format!("pp={}|every={}|first={is_first}", k.pp, k.pp_every), "datagram {id:?} on flow {} carries no PROXY v2 prefix (send_proxy_protocol={}, every_datagram={}, first datagram of the flow: {is_first})", fl.local, k.pp, k.pp_every); }
                    }
                    if let Some(h) = &pp {
                        let src_ok = Some(h.src) == st.src || h.src == fl.owner;
                        if !src_ok || Some(h.dst) != fl.backend { viol!("ppv2_wrong_addr", format!("{}|aff={}", if !src_ok { "src" } else { "dst" }, aff(lst)), "datagram {id:?} from {:?} on flow {} -> {:?}: PROXY header says {} -> {}", st.src, fl.local, fl.backend, h.src, h.dst); }
                        if !h.dgram { viol!("ppv2_malformed", format!("transport_not_dgram|aff={}", aff(lst)), "PROXY v2 prefix of datagram {id:?} does not declare the DGRAM transport"); }
                    }
                }
                let f = &mut flows[fi];
                if first_attempt { f.n_fwd += 1; f.last_t = ev.t; f.last_front = true; }
                if !f.queued.is_empty() && f.queued.front() != Some(&id) && !st.size_uncertain {
                    viol!("reordered", format!("upstream_queue|aff={}", aff(lst)), "datagram {id:?} was sent on flow {} at +{} us while older datagrams of the flow wait in its queue (front {:?}, {} queued)", f.local, ev.t / 1000, f.queued.front(), f.queued.len());
                    if let Some(pos) = f.queued.iter().position(|x| *x == id) { f.queued.remove(pos); }
                }
                if ev.res == EAGAIN {
                    if f.queued.front() != Some(&id) { f.queued.push_back(id); }
                    st.parked = Some((ev.t, ev.note));
                    bump!("forward_send_eagain", 1);
                } else if ev.res >= 0 {
                    if f.queued.front() == Some(&id) { f.queued.pop_front(); }
                    st.delivered = Some((fi, ev.seq, ev.note == 1));
                    st.parked = None;
                    f.delivered.push((ev.seq, id));
                    if ev.note == 1 { bump!("forward_lost_backend_gone", 1); }
                } else {
                    if f.queued.front() == Some(&id) { f.queued.pop_front(); }
                    st.parked = None;
                    st.refused = true;
                    bump!("forward_send_error", 1);
                }
            }
            _ => {}
        }
    }
    park_if_backed_up(&mut ctx, &mut flows, &mut fwd, &mut probes);
    park_reply_if_backed_up(&mut ctx, &flows, &mut rep, &mut cq, &mut probes);
    finalize(&mut ctx, &mut flows, &live, &mut fwd, &mut rep, &mut cq, &mut v, &mut probes);

    // ---- liveness of the egress queues: a parked datagram is retried soon after the blockage ended
    let stall_end = |addr: Option<SocketAddr>, t: u64| -> u64 {
        let Some(a) = addr else { return t };
        let mut e = t;
        for c in &p.clusters { for b in &c.backends { if b.addr == a { if let Some((x, y)) = b.stall { if t >= o.t0 + x.saturating_sub(MS) && t < o.t0 + y { e = e.max(o.t0 + y); } } } } }
        for c in &p.clients { if c.addr == a { if let Some((x, y)) = c.stall { if t >= o.t0 + x.saturating_sub(MS) && t < o.t0 + y { e = e.max(o.t0 + y); } } } }
        e
    };
    for (id, st) in &fwd {
        if let (Some((t, _note)), None) = (st.parked, st.delivered) {
            if st.dropped_at_close || st.refused { bump!("forward_dropped_with_queue_at_close", 1); continue; }
            let Some(fi) = st.assigned else { continue };
            let fl = &flows[fi];
            let free = stall_end(fl.backend, t);
            if o.t_end > free + RETRY_SLACK && fl.closed.map_or(true, |(_, c)| c > free + RETRY_SLACK) {
                viol!("egress_queue_stuck", format!("upstream|eagain_pm={}", if p.udp_eagain_pm > 0 { "on" } else { "off" }), "datagram {id:?} was parked behind EAGAIN on flow {} at +{} us and not retried within {} ms after the backend could take it again (flow closed: {:?}, run end +{} us)", fl.local, t / 1000, RETRY_SLACK / MS, fl.closed.map(|c| c.1 / 1000), o.t_end / 1000);
            }
        }
    }
    for (rid, st) in &rep {
        if let (Some((t, _note)), None) = (st.parked, st.delivered) {
            if st.dropped_at_close { bump!("reply_dropped_with_queue_at_close", 1); continue; }
            let fl = &flows[st.flow];
            let free = stall_end(Some(fl.owner), t);
            let lc = lclosed[fl.listener];
            if o.t_end > free + RETRY_SLACK && lc.map_or(true, |c| c > free + RETRY_SLACK) {
                viol!("egress_queue_stuck", format!("client_return|eagain_pm={}", if p.udp_eagain_pm > 0 { "on" } else { "off" }), "reply {rid:?} for {} was parked behind EAGAIN at +{} us and not retried within {} ms after the client could take it again (listener closed: {:?}, run end +{} us)", fl.owner, t / 1000, RETRY_SLACK / MS, lc.map(|c| c / 1000), o.t_end / 1000);
            }
        }
    }

    // ---- per flow: order of delivery = order of consumption
    for f in &flows {
        let mut last = 0u64;
        for (_, id) in &f.delivered { let s = fwd[id].seq; if s < last { viol!("reordered", format!("forward|aff={}", aff(f.listener)), "flow {}: datagram {id:?} (read as #{s}) was sent after a datagram read later (#{last})", f.local); } last = last.max(s); }
        let mut last = 0u64;
        for (_, rid) in &f.replies_delivered { let s = rep[rid].seq; if s < last { viol!("reordered", format!("reply|aff={}", aff(f.listener)), "flow {}: reply {rid:?} (read as #{s}) was sent after a reply read later (#{last})", f.local); } last = last.max(s); }
    }

    // ---- what the backends received (full bytes)
    let flow_by_local: BTreeMap<SocketAddr, usize> = flows.iter().enumerate().map(|(i, f)| (f.local, i)).collect();
    let mut arrived: BTreeMap<DgId, u32> = BTreeMap::new();
    let mut verified_fwd = 0u64;
    for (g, b) in o.backends.iter().enumerate() {
        for r in &b.got {
            let Some(from) = r.from else { viol!("unknown_datagram_sent", "backend_got_unnamed_source".into(), "backend {g} received a datagram without a source address"); continue };
            let Some(fi) = flow_by_local.get(&from).copied() else {
                // not from an upstream socket of the worker: from the listener socket itself?
                let how = if lst_of_addr.contains_key(&from) { "from_listener_socket" } else { "from_unknown_socket" };
                viol!("wrong_upstream", format!("{how}|aff={}", trigger_of(p)), "backend {g} received {} bytes from {from}, which is no upstream socket of the worker", r.data.len());
                continue;
            };
            let lst = flows[fi].listener;
            if r.data.is_empty() { viol!("empty_forwarded", format!("backend_got_empty|aff={}", aff(lst)), "backend {g} received an empty datagram from {from}"); continue; }
            let (pp, rest) = match split_pp(&r.data) { PpSplit::None(x) => (None, x), PpSplit::Ok(h, x) => (Some(h), x), PpSplit::Bad(e) => { viol!("ppv2_malformed", format!("header|aff={}", aff(lst)), "backend {g} got from {from}: {e}"); continue; } };
            let Some((id, dlen)) = dg_head(rest, tag).filter(|x| (x.0).0 == K_QUERY) else { viol!("corrupted", format!("forward_unrecognisable|aff={}", aff(lst)), "backend {g} received {} bytes from {from} that match no client datagram: {:02x?}", r.data.len(), &r.data[..r.data.len().min(32)]); continue };
            let want = dg_bytes(K_QUERY, id.1, id.2, dlen, tag);
            if rest != &want[..] {
                let how = if rest.len() < want.len() && want.starts_with(rest) { "truncated" } else if rest.len() > want.len() && rest.starts_with(&want) { "merged_or_padded" } else { "bytes_differ" };
                viol!("corrupted", format!("forward_{how}|aff={}{}", aff(lst), if pp.is_some() { "|pp" } else { "" }), "backend {g}: datagram {id:?} arrived with {} payload bytes, the client sent {}", rest.len(), want.len());
            }
            *arrived.entry(id).or_insert(0) += 1;
            verified_fwd += 1;
            if !sent_by_id.contains_key(&id) { viol!("corrupted", format!("forward_unknown_id|aff={}", aff(lst)), "backend {g} received datagram {id:?} that no client sent"); }
            match fwd.get(&id).and_then(|s| s.delivered) {
                Some((f2, _, _)) if f2 == fi => {}
                other => { if harness_error.is_none() { harness_error = Some(format!("tap and backend disagree: backend {g} got {id:?} from {from}, tap says {other:?}")); } }
            }
            if flows[fi].backend != p.clusters.iter().flat_map(|c| c.backends.iter()).nth(g).map(|x| x.addr) {
                viol!("wrong_upstream", format!("socket_talks_to_two_backends|aff={}", aff(lst)), "backend {g} received a datagram from upstream socket {from}, which is connected to {:?}", flows[fi].backend);
            }
            let _ = pp;
        }
    }
    for (id, n) in &arrived { if *n > 1 { viol!("duplicate", format!("datagram_arrived_twice|aff={}", trigger_of(p)), "datagram {id:?} arrived {n} times at the backends"); } }
    // ---- what the clients received (full bytes)
    let mut got_reply: BTreeMap<DgId, u32> = BTreeMap::new();
    let mut verified_rep = 0u64;
    for r in &o.got {
        let me = p.clients[r.who].addr;
        let from_lst = r.from.and_then(|a| lst_of_addr.get(&a).copied());
        let Some((rid, dlen)) = dg_head(&r.data, tag).filter(|x| (x.0).0 == K_REPLY) else {
            viol!("corrupted", format!("reply_unrecognisable|aff={}", trigger_of(p)), "client {me} received {} bytes from {:?} that match no backend reply: {:02x?}", r.data.len(), r.from, &r.data[..r.data.len().min(32)]);
            continue;
        };
        let want = dg_bytes(K_REPLY, rid.1, rid.2, dlen, tag);
        if r.data != want {
            let how = if r.data.len() < want.len() && want.starts_with(&r.data) { "truncated" } else if r.data.len() > want.len() && r.data.starts_with(&want) { "merged_or_padded" } else { "bytes_differ" };
            viol!("corrupted", format!("reply_{how}|aff={}", trigger_of(p)), "client {me}: reply {rid:?} arrived with {} bytes, the backend sent {}", r.data.len(), want.len());
        }
        *got_reply.entry(rid).or_insert(0) += 1;
        verified_rep += 1;
        let Some(rr) = reply_by_id.get(&rid) else { viol!("corrupted", format!("reply_unknown_id|aff={}", trigger_of(p)), "client {me} received reply {rid:?} that no backend sent"); continue };
        // isolation: the reply was addressed by its backend to an upstream socket whose flow this client owns
        match flow_by_local.get(&rr.to) {
            Some(fi) => {
                let fl = &flows[*fi];
                if fl.owner != me { viol!("reply_misrouted", format!("delivered_to_other_client|aff={}{}", aff(fl.listener), if shared_ip { "|shared_ip" } else { "" }), "client {me} received reply {rid:?}, which backend {} sent to upstream socket {} of the flow owned by {}", rr.bk, rr.to, fl.owner); }
                if from_lst != Some(fl.listener) { viol!("reply_misrouted", format!("wrong_source_address|aff={}", aff(fl.listener)), "client {me} received reply {rid:?} from {:?}, its flow belongs to listener {}", r.from, p.listeners[fl.listener].addr); }
            }
            None => { viol!("reply_misrouted", format!("reply_of_no_flow|aff={}", trigger_of(p)), "client {me} received reply {rid:?} that was sent to {}, no upstream socket of the worker", rr.to); }
        }
    }
    for (rid, n) in &got_reply { if *n > 1 { viol!("duplicate", format!("reply_arrived_twice|aff={}", trigger_of(p)), "reply {rid:?} arrived {n} times at clients"); } }

    // ---- nothing the model says "forwarded" may be missing at the peers (the stand-in network is reliable)
    for (id, st) in &fwd {
        if let Some((fi, _, lost)) = st.delivered {
            if !lost && arrived.get(id).copied().unwrap_or(0) == 0 {
                // still in the backend's socket buffer when the run ended (stalled / closed backend)?
                let b = flows[fi].backend.and_then(|a| bk_of_addr.get(&a).copied());
                let excused = b.map_or(true, |(c, j)| { let bp = &p.clusters[c].backends[j]; bp.close_at.is_some() || bp.stall.is_some() });
                if !excused && harness_error.is_none() { harness_error = Some(format!("tap says {id:?} was delivered on flow {} but the backend never read it", flows[fi].local)); }
            }
        }
    }

    // ---- stickiness over the whole history: the flows of one key never overlap and never interleave
    {
        let mut by_key: BTreeMap<(usize, SocketAddr), Vec<usize>> = BTreeMap::new();
        for (i, f) in flows.iter().enumerate() { if !f.unkeyed { by_key.entry((f.listener, key_of(f.listener, f.owner))).or_default().push(i); } }
        for ((lst, key), fl) in &by_key {
            for w2 in fl.windows(2) {
                let (a, b) = (&flows[w2[0]], &flows[w2[1]]);
                if a.closed.map_or(true, |(s, _)| s > b.open_seq) {
                    let switch = a.backend != b.backend;
                    viol!(if switch { "backend_switch" } else { "flow_split" }, format!("two_live_flows_of_one_key|aff={}", aff(*lst)), "key {key} on listener {lst}: flow {} -> {:?} was opened at +{} us while flow {} -> {:?} of the same key was still open", b.local, b.backend, b.open_t / 1000, a.local, a.backend);
                }
            }
        }
    }

    // ---- bounded: open flows per listener never exceed the largest cap in force so far
    for (l, m) in max_live.iter().enumerate() {
        let mut hi = p.listeners[l].max_flows;
        for c in &p.cmds { if let CmdKind::UpdateListener { lst, max_flows: Some(x), .. } = &c.kind { if *lst == l { hi = hi.max(*x); } } }
        bump!("max_open_flows", *m as u64);
        if *m as u32 > hi { viol!("cap_exceeded", format!("open_flows_over_max_flows|aff={}", aff(l)), "listener {l}: {m} upstream sockets open at once, max_flows never above {hi}"); }
        if *m as u32 >= p.listeners[l].max_flows { bump!("listener_reached_cap", 1); }
    }

    // ---- torn down once, resources released: the audit of the descriptor table after the quiet period
    for a in &o.audits {
        if a.udp_fds != a.udp_sockets.len() && harness_error.is_none() { harness_error = Some(format!("descriptor table ({}) and socket map ({}) disagree at the audit", a.udp_fds, a.udp_sockets.len())); }
        bump!("audits", 1);
        for s in &a.udp_sockets {
            if lst_of_addr.contains_key(s) { continue; }
            let Some(fi) = flow_by_local.get(s) else { continue };
            let f = &flows[*fi];
            if f.contracts.is_empty() { continue; }
            if f.contracts.iter().all(|(_, front, back)| a.t > f.last_t + (if f.last_front { *front } else { *back }) + REAP_SLACK) {
                let (k, front, back) = f.contracts[0].clone();
                let _ = &k; viol!("flow_not_reaped", format!("idle_flow_open_at_audit|{}", timer_phase(p)), "audit at +{} us: upstream socket {} of client {} is still open, {} ms after the flow's last activity at +{} us (timeouts {}/{} ms)", a.t / 1000, f.local, f.owner, (a.t - f.last_t) / MS, f.last_t / 1000, front / MS, back / MS);
            }
        }
        bump!("upstream_sockets_open_at_audit", a.udp_sockets.iter().filter(|s| !lst_of_addr.contains_key(s)).count() as u64);
    }
    if !o.left_open.is_empty() {
        viol!("fd_leak", format!("udp_socket_open_after_exit|end={:?}", p.end), "the worker returned from run() and was dropped with {} UDP socket(s) still open: {:?}", o.left_open.len(), o.left_open);
    }
    // ---- soft stop: flows are torn down, the worker answers and leaves by itself
    if p.end == End::SoftStop && o.stop.sent_t.is_some() {
        match (o.stop.ack_t, o.stop.ok) {
            (Some(_), Some(true)) => { bump!("soft_stop_completed", 1); }
            (Some(_), _) => { viol!("soft_stop_failed", format!("answer|{}", p.family), "SoftStop was answered with a failure: {}", o.stop.msg); }
            (None, _) => { viol!("soft_stop_no_exit", format!("worker_still_running|live_flows={}", if o.tap.iter().any(|e| e.kind == UDP_CLOSE && stop_possible(e.t) && !lst_of_addr.contains_key(&e.local)) { "yes" } else { "no" }), "SoftStop sent at +{} us got no final answer within 8 virtual seconds; the worker had to be hard-stopped", o.stop.sent_t.unwrap() / 1000); }
        }
    }

    // ---- probes
    bump!("client_datagrams_sent", o.sent.iter().filter(|s| s.err == 0).count() as u64);
    bump!("client_datagrams_to_closed_listener", o.sent.iter().filter(|s| s.err != 0).count() as u64);
    bump!("client_datagrams_read_by_worker", fwd.len() as u64);
    bump!("forwarded_verified_at_backend", verified_fwd);
    bump!("replies_verified_at_client", verified_rep);
    bump!("replies_sent_by_backends", reply_by_id.values().filter(|r| r.err == 0).count() as u64);
    bump!("replies_refused_socket_closed", reply_by_id.values().filter(|r| r.err != 0).count() as u64);
    bump!("replies_read_by_worker", rep.len() as u64);
    bump!("replies_never_read_flow_closed", reply_by_id.iter().filter(|(k, r)| r.err == 0 && !rep.contains_key(*k)).count() as u64);
    bump!("unsolicited_replies", reply_by_id.values().filter(|r| r.unsolicited).count() as u64);
    bump!("flows_opened", flows.len() as u64);
    bump!("passes_new_flow_and_other_source", same_pass_mix);
    bump!("foreign_source_dropped", o.foreign_dropped);
    bump!("client_send_eagain", o.client_send_eagain);
    let reopened = { let mut k: BTreeMap<(usize, SocketAddr), u32> = BTreeMap::new(); for f in &flows { *k.entry((f.listener, key_of(f.listener, f.owner))).or_insert(0) += 1; } k.values().filter(|n| **n > 1).count() as u64 };
    bump!("keys_with_several_flow_incarnations", reopened);
    bump!("commands_sent", cmds.len() as u64);
    {
        let lc = lifecycle_of(p);
        if lc != "none" {
            bump!(format!("plans_lifecycle_{lc}"), 1);
            let last_ack = cmds.iter().filter_map(|c| c.ack).max().unwrap_or(0);
            bump!("flows_opened_after_last_command", flows.iter().filter(|f| f.open_t > last_ack && f.open_t < o.t0 + p.rounds.iter().filter(|r| matches!(r.kind, RoundKind::Audit)).map(|r| r.at).next().unwrap_or(u64::MAX)).count() as u64);
        }
        bump!("listener_sockets_bound_again", o.tap.iter().filter(|e| e.kind == UDP_BIND && lst_of_addr.contains_key(&e.local)).count().saturating_sub(p.listeners.len()) as u64);
        bump!("flows_opened_while_cluster_removed_not_judged", flows.iter().filter(|f| f.unkeyed).count() as u64);
    }
    bump!("commands_refused", cmds.iter().filter(|c| c.ok == Some(false)).count() as u64);
    if verbose {
        for f in &flows { log.push(format!("flow {} L{} owner {} -> {:?} open +{}us close {:?} fwd {} resp {} delivered {} replies {}", f.local, f.listener, f.owner, f.backend, f.open_t / 1000, f.closed.map(|c| c.1 / 1000), f.n_fwd, f.n_resp, f.delivered.len(), f.replies_delivered.len())); }
        for (id, st) in &fwd { log.push(format!("dgram {id:?} read +{}us L{} n={} fate={} assigned={:?} delivered={:?} attempts={}", st.t / 1000, st.lst, st.n, st.fate, st.assigned.map(|f| flows[f].local), st.delivered.map(|d| d.2), st.attempts)); }
        for (i, c) in cmds.iter().enumerate() { log.push(format!("cmd {i} {:?} sent +{}us ack {:?} ok {:?}", c.kind, c.sent / 1000, c.ack.map(|a| a / 1000), c.ok)); }
    }
    let nontrivial = verified_fwd > 0;
    Verdict { violations: v, probes, nontrivial, harness_error, log }
}
