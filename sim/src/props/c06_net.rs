//! C06, worker tier: "a real worker holding configuration A that receives `A.diff(&B)` ends up with the view and the
//! behaviour of B".
//!
//! Pairs (A, B) are drawn from the worker-bootstrappable part of the configuration space (c07_net.rs generator: HTTP /
//! HTTPS / TCP listeners, clusters with answer templates, frontends, backends, certificates): A = a valid base plus a few
//! well-formed commands; B = A plus 1..n further well-formed commands ("near" / "continuation"), or an unrelated base.
//! Both are built by the master's own `ConfigState::dispatch`; `A.diff(&B)` is computed on a thread of its own under its
//! own hash seed.
//!
//! Worker 1 is booted holding A (as its `InitialState`, the real bootstrap path, or by receiving A's bootstrap requests
//! as commands) and then receives every request of the difference from the scripted master, fragmented, in groups.
//! Worker 2 - a fresh worker in the same plan, under another seed - receives B's own bootstrap requests. Oracle:
//! * every request of the difference is answered OK by worker 1, unless the very same request is also refused by
//!   worker 2 while it is given B directly;
//! * worker 1's answers to the query verbs equal the same projections of B computed by the master's code
//!   (`hash_state`, `cluster_state`, `get_cluster_ids_by_domain`, `get_certificates`: agreement is what is judged);
//! * worker 1 and worker 2 are indistinguishable: same answers to every query (including the certificate listings that
//!   come from the live TLS resolvers), same result for every probe (which listener addresses accept, which backend /
//!   which generated answer each probe request gets, which certificate each SNI is served).
#![allow(dead_code)]
use std::collections::{BTreeMap, BTreeSet};

use serde::{Deserialize, Serialize};
use serde_json::Value;
use sozu_command_lib::proto::command::{
    response_content::ContentType, CertificatesWithFingerprints, ClusterHashes, ClusterInformations, QueryCertificatesFilters, Request, ResponseStatus, WorkerResponse,
};
use sozu_command_lib::scm_socket::Listeners;
use sozu_command_lib::state::ConfigState;

use super::c07_net::{self as n7, cid, Gen, Model, HOSTS};
use super::c07_probe::*;
use super::cfggen::{self, corpus_fingerprint, verb_name};
use crate::actors::master::{MOp, Master};
use crate::actors::Quantum;
use crate::framework::*;
use crate::netsim::{self, Knobs};
use crate::prng::{Prng, TraceHash};
use crate::world::{SchedCfg, Stats, World, MS, SEC};

#[derive(Clone, Debug, Serialize, Deserialize)]
pub struct NetPlan {
    pub seed: u64,
    pub family: String,
    pub sched: SchedCfg,
    pub wq: Quantum,
    /// history that builds A (requests, symbolic PEM)
    pub a: Value,
    /// history that builds B: on top of A (`b_on_a`) or from nothing
    pub b: Value,
    pub b_on_a: bool,
    /// worker 1 receives A as its InitialState (else as commands)
    pub a_as_initial_state: bool,
    /// wait for the answers after every k requests of the difference (0 = all back to back)
    pub barrier_every: usize,
    /// hash seeds: computing the difference / worker 2 (worker 1 runs under `seed`)
    pub seed_diff: u64,
    pub seed_w2: u64,
    pub probes: Vec<ProbeSpec>,
    pub queries: QuerySet,
    /// the one kind of change between A and B the generator allowed that is the trigger of a recorded finding
    /// ("none": the plan stays away from all of them)
    pub trigger_category: String,
}

/// Which trigger of a recorded finding a well-formed command may bring into the pair (A, B), judged against the model
/// of the history so far (plan level). `None`: none of them.
/// `boundary`: the model at the point where A ends and the commands that lead to B begin.
pub fn category(m: &Model, boundary: &Model, r: &Request) -> Option<&'static str> {
    use sozu_command_lib::proto::command::request::RequestType as T;
    match r.request_type.as_ref()? {
        T::UpdateHttpListener(_) | T::UpdateHttpsListener(_) | T::UpdateTcpListener(_) => Some("listener_changed"),
        // activation of a listener that only exists in B belongs to its addition
        T::ActivateListener(a) => if boundary.listeners.contains_key(&cfggen::to_sockaddr(&a.address)) { Some("listener_activation_changed") } else { Some("listener_added") },
        T::DeactivateListener(a) => if boundary.listeners.contains_key(&cfggen::to_sockaddr(&a.address)) { Some("listener_activation_changed") } else { Some("listener_added") },
        T::RemoveListener(_) => Some("listener_removed"),
        T::AddHttpListener(_) | T::AddHttpsListener(_) | T::AddTcpListener(_) => Some("listener_added"),
        T::AddCluster(c) => if m.clusters.contains(&c.cluster_id) || boundary.clusters.contains(&c.cluster_id) { Some("cluster_readded") } else { None },
        T::RemoveBackend(b) => if m.backends.get(&b.cluster_id).is_some_and(|s| s.len() == 1 && s.contains(&b.backend_id)) { Some("empty_bucket") } else { None },
        T::RemoveTcpFrontend(_) => Some("empty_bucket"),
        T::AddCertificate(c) => { let fp = cfggen::corpus_fingerprint(c.certificate.certificate.trim_start_matches("@cert:").parse().unwrap_or(0)); if m.cert_names.get(&fp).is_some_and(|n| *n != c.certificate.names) { Some("certificate_names_changed") } else { None } }
        T::ReplaceCertificate(c) => { let fp = cfggen::corpus_fingerprint(c.new_certificate.certificate.trim_start_matches("@cert:").parse().unwrap_or(0)); if m.cert_names.get(&fp).is_some_and(|n| *n != c.new_certificate.names) { Some("certificate_names_changed") } else { None } }
        _ => None,
    }
}
pub const CATEGORIES: [&str; 7] = ["listener_changed", "listener_activation_changed", "listener_removed", "listener_added", "cluster_readded", "empty_bucket", "certificate_names_changed"];

pub fn generate(seed: u64, tier: Tier) -> NetPlan {
    let mut rng = Prng::derive(seed, "c06/net");
    let n_http = 1 + rng.below(2) as usize;
    let https = rng.chance(1, 2);
    let tcp = rng.chance(1, 3);
    let nclusters = 2 + rng.below(2) as usize;
    let fam = match rng.below(8) { 0 => "far", 1 | 2 | 3 => "near", _ => "continuation" };
    let max = match tier { Tier::Quick => 6, Tier::Thorough => 14 };
    let na = rng.below(4) as usize;
    let nb = match fam { "near" => 1, "far" => 6 + rng.below(max) as usize, _ => 1 + rng.below(max) as usize };
    // half of the plans stay away from every trigger of a recorded finding, the others allow exactly one kind
    let trigger_category = if rng.chance(1, 2) { "none".to_string() } else { rng.pick(&CATEGORIES).to_string() };
    let mut sched = SchedCfg::default();
    sched.actor_burst = *rng.pick(&[1u32, 2, 8]);
    sched.ev_permute_pm = *rng.pick(&[0u32, 500]);
    let wq = match rng.below(6) { 0 => Quantum::Fixed(61), 1 => Quantum::Uniform(16, 256), 2 => Quantum::Uniform(1, 3000), 3 => Quantum::Fixed(1), _ => Quantum::All };
    let probes = n7::probe_set(n_http, https, tcp, &mut rng);
    // `allowed`: the trigger category commands may belong to (besides none); `want`: draw until one of that category came
    let valid_ops = |g: &mut Gen, n: usize, allowed: &str| -> Vec<Request> {
        let boundary = g.m.clone();
        let mut v = Vec::new();
        let mut tries = 0;
        let mut have = allowed == "none";
        while v.len() < n && tries < n * 60 + 60 {
            tries += 1;
            let r = g.op(false);
            if g.m.classify(&r) != "none" { continue; }
            let c = category(&g.m, &boundary, &r);
            if c.is_some_and(|c| c != allowed) { continue; }
            // the last free slot goes to a command of the allowed category
            if !have && c.is_none() && v.len() + 1 == n && tries < n * 50 { continue; }
            if c.is_some() { have = true; }
            g.m.apply(&r);
            v.push(r);
        }
        v
    };
    let (a, b, b_on_a);
    {
        let mut g = Gen { rng: &mut rng, m: Model::default(), n_http, https, tcp, nclusters, ver: 0 };
        let mut aa = g.setup();
        aa.extend(valid_ops(&mut g, na, "none"));
        let bb = valid_ops(&mut g, nb, &trigger_category);
        a = aa; b = bb; b_on_a = true;
    }
    let queries = QuerySet { clusters: (0..MAX_CLUSTERS).map(cid).collect(), domains: HOSTS.iter().map(|s| s.to_string()).collect(), fingerprints: (0..4).map(corpus_fingerprint).collect() };
    NetPlan {
        seed, family: format!("worker_{fam}{}", if trigger_category == "none" { "" } else { "_known" }), sched, wq, a: cfggen::ops_to_value(&a), b: cfggen::ops_to_value(&b), b_on_a,
        a_as_initial_state: rng.chance(1, 2), barrier_every: *rng.pick(&[0usize, 0, 1, 3]), seed_diff: rng.next_u64(), seed_w2: rng.next_u64(), probes, queries, trigger_category,
    }
}

/// Systematic pairs, run in every batch: one fixed A (two HTTP listeners, an HTTPS and a TCP listener, four clusters) and
/// one B per kind of change that is the trigger of a recorded finding, plus one B of harmless changes.
pub fn systematic() -> Vec<NetPlan> {
    use sozu_command_lib::proto::command::{request::RequestType as T, AddCertificate, ListenerType, RemoveBackend, RemoveCertificate, UpdateHttpListenerConfig};
    let mut rng = Prng::derive(0xC06, "c06/net/systematic");
    let probes = n7::probe_set(2, true, true, &mut Prng::derive(1, "c06/net/systematic/probes"));
    let queries = QuerySet { clusters: (0..MAX_CLUSTERS).map(cid).collect(), domains: HOSTS.iter().map(|s| s.to_string()).collect(), fingerprints: (0..4).map(corpus_fingerprint).collect() };
    let _ = &mut rng;
    let a = n7::std_setup();
    let mk = |name: &str, cat: &str, b: Vec<Request>| NetPlan {
        seed: 0xC06, family: format!("worker_systematic_{name}"), sched: SchedCfg::default(), wq: Quantum::All, a: cfggen::ops_to_value(&a), b: cfggen::ops_to_value(&b), b_on_a: true,
        a_as_initial_state: true, barrier_every: 1, seed_diff: 11, seed_w2: 12, probes: probes.clone(), queries: queries.clone(), trigger_category: cat.to_string(),
    };
    let h0 = n7::HTTP_ADDRS[0];
    vec![
        mk("harmless", "none", vec![T::AddHttpFrontend(n7::frontend(h0, "h2.test", "/v2", Some(0), false)).into(), T::RemoveHttpFrontend(n7::frontend(h0, "dead.test", "/", Some(n7::DEAD), false)).into(), T::AddBackend(n7::backend(2, 0)).into(), T::RemoveBackend(RemoveBackend { cluster_id: cid(0), backend_id: "c0-1".into(), address: baddr(0, 1).into() }).into()]),
        mk("listener_added", "listener_added", vec![T::AddHttpListener(n7::http_listener(n7::SPARE_HTTP, BTreeMap::new())).into(), n7::activate(n7::SPARE_HTTP, ListenerType::Http), T::AddHttpFrontend(n7::frontend(n7::SPARE_HTTP, "dead.test", "/", Some(n7::DEAD), false)).into()]),
        mk("listener_changed", "listener_changed", vec![T::UpdateHttpListener(UpdateHttpListenerConfig { address: n7::sa(h0), front_timeout: Some(120), ..Default::default() }).into()]),
        mk("listener_deactivated", "listener_activation_changed", vec![n7::deactivate(n7::HTTP_ADDRS[1], ListenerType::Http)]),
        mk("last_backend_removed", "empty_bucket", vec![T::RemoveBackend(RemoveBackend { cluster_id: cid(1), backend_id: "c1-0".into(), address: baddr(1, 0).into() }).into()]),
        mk("cluster_with_fewer_answers", "cluster_readded", vec![T::AddCluster(n7::cluster(n7::DEAD, 51, &[], false)).into()]),
        mk("certificate_with_other_names", "certificate_names_changed", vec![T::RemoveCertificate(RemoveCertificate { address: n7::sa(n7::HTTPS_ADDR), fingerprint: corpus_fingerprint(0) }).into(), T::AddCertificate(AddCertificate { address: n7::sa(n7::HTTPS_ADDR), certificate: n7::cert(0, &["h2.test"]), expired_at: None }).into()]),
    ]
}

fn build(a: &[Request], b: &[Request], b_on_a: bool) -> (ConfigState, ConfigState) {
    let mut sa = ConfigState::new();
    for r in a { let _ = sa.dispatch(r); }
    let mut sb = if b_on_a { sa.clone() } else { ConfigState::new() };
    for r in b { let _ = sb.dispatch(r); }
    (sa, sb)
}

/// plan-level features of the pair (read from the two configurations the master's code built from the plan's commands)
/// that are triggers of recorded findings
fn pair_features(sa: &ConfigState, sb: &ConfigState) -> BTreeSet<String> {
    let mut f = BTreeSet::new();
    macro_rules! one { ($map:ident) => {{
        for (k, x) in sa.$map.iter() {
            match sb.$map.get(k) {
                None => { f.insert("listener_removed".to_string()); }
                Some(y) if x != y => { let mut x2 = x.clone(); x2.active = y.active; f.insert(if x2 == *y { "listener_activation_changed".to_string() } else { "listener_changed".to_string() }); }
                _ => {}
            }
        }
        if sb.$map.keys().any(|k| !sa.$map.contains_key(k)) { f.insert("listener_added".to_string()); }
    }}; }
    one!(http_listeners); one!(https_listeners); one!(tcp_listeners);
    // a cluster present in both whose target version defines fewer answer templates
    for (id, ca) in sa.clusters.iter() {
        if let Some(cb) = sb.clusters.get(id) {
            let codes = |c: &sozu_command_lib::proto::command::Cluster| -> BTreeSet<String> { let mut s: BTreeSet<String> = c.answers.keys().cloned().collect(); if c.answer_503.is_some() { s.insert("503".into()); } s };
            if !codes(ca).is_subset(&codes(cb)) { f.insert("cluster_answers_shrunk".to_string()); }
        }
    }
    // a bucket emptied by removals (kept as an empty bucket by the state, absent from a bootstrap)
    if sb.backends.values().any(|v| v.is_empty()) || sb.tcp_fronts.values().any(|v| v.is_empty()) { f.insert("empty_bucket".to_string()); }
    // a TCP address claimed by the frontends of two clusters (in A or in B): the state keeps both (tcp_fronts is keyed by
    // cluster id), a worker's TCP listener holds exactly one cluster id, so which cluster is served is decided by the order
    // in which the AddTcpFrontend commands arrive - and generate_requests walks a HashMap (finding C06-W6)
    for st in [sa, sb] {
        let mut owner: BTreeMap<String, BTreeSet<&str>> = BTreeMap::new();
        for (cid, fronts) in st.tcp_fronts.iter() { for fr in fronts { owner.entry(format!("{:?}", fr.address)).or_default().insert(cid.as_str()); } }
        if owner.values().any(|c| c.len() >= 2) { f.insert("tcp_address_claimed_by_two_clusters".to_string()); }
    }
    for x in cfggen::pair_features(sa, sb) { f.insert(x.to_string()); }
    f
}

#[derive(Default)]
pub struct Outcome {
    pub diff: Vec<Request>,
    pub features: BTreeSet<String>,
    /// requests of A refused by worker 1 when A was given as commands
    pub a_rejected: Vec<String>,
    /// per request of the difference: Some(ok) / None (no final answer); message
    pub d_answers: Vec<Option<(bool, String)>>,
    /// requests of B's bootstrap refused by worker 2
    pub b_rejected: Vec<Request>,
    pub b_requests: usize,
    pub obs1: Option<Observation>,
    pub obs2: Option<Observation>,
    /// the target's projections, as canonical answers
    pub expected: BTreeMap<String, String>,
    pub panicked: Option<String>,
    pub aborted: Option<String>,
    pub boot_error: Option<String>,
    pub garbage: Option<String>,
    pub trace_hash: u64,
    pub stats: Stats,
    pub equal_states: bool,
}

fn answer_of(m: &Master, id: &str) -> Option<(bool, String)> {
    let all: Vec<&WorkerResponse> = m.data.responses.iter().map(|(_, r)| r).filter(|r| r.id == id && r.status != ResponseStatus::Processing as i32).collect();
    if all.is_empty() { return None; }
    let fail = all.iter().find(|r| r.status == ResponseStatus::Failure as i32);
    Some((fail.is_none(), fail.or(all.first()).map(|r| r.message.clone()).unwrap_or_default()))
}

/// B's projections through the master's own code, rendered like worker answers
fn expected_view(sb: &ConfigState, q: &QuerySet) -> BTreeMap<String, String> {
    let ok = |c: ContentType| canon_response(Some(&WorkerResponse::ok_with_content("x", c.into())));
    let mut m = BTreeMap::new();
    m.insert("hashes".to_string(), ok(ContentType::ClusterHashes(ClusterHashes { map: sb.hash_state() })));
    for c in &q.clusters { m.insert(format!("cluster/{c}"), ok(ContentType::Clusters(ClusterInformations { vec: sb.cluster_state(c).map_or(vec![], |x| vec![x]) }))); }
    for d in &q.domains {
        let ids: BTreeSet<String> = sb.get_cluster_ids_by_domain(d.clone(), None).into_iter().collect();
        m.insert(format!("domain/{d}"), ok(ContentType::Clusters(ClusterInformations { vec: ids.iter().filter_map(|c| sb.cluster_state(c)).collect() })));
    }
    for f in &q.fingerprints {
        let certs = sb.get_certificates(QueryCertificatesFilters { domain: None, fingerprint: Some(f.clone()) });
        let name = format!("certs/fp/{}", &f[..f.len().min(12)]);
        if certs.is_empty() { m.insert(name, "FAILURE".into()); } else { m.insert(name, ok(ContentType::CertificatesWithFingerprints(CertificatesWithFingerprints { certs }))); }
    }
    m
}

pub fn run(p: &NetPlan) -> Outcome {
    let mut o = Outcome::default();
    let (a, b) = (n7::reqs(&p.a), n7::reqs(&p.b));
    // ---- the difference, on its own thread under its own hash seed
    let (a0, b0, on_a, sd) = (a.clone(), b.clone(), p.b_on_a, p.seed_diff);
    let (diff, feats, equal) = netsim::on_fresh_thread(move || {
        let mut w = World::new(sd, SchedCfg::default());
        World::install(&mut w);
        let (sa, sb) = build(&a0, &b0, on_a);
        let diff = sa.diff(&sb);
        let feats = pair_features(&sa, &sb);
        let equal = cfggen::state_delta(&sa, &sb, false).is_empty();
        World::uninstall();
        (diff, feats, equal)
    });
    o.diff = diff.clone(); o.features = feats; o.equal_states = equal;
    // ---- worker 1: holds A, receives the difference
    let p1 = p.clone();
    let (a1, b1) = (a.clone(), b.clone());
    let d1 = diff.clone();
    let r1 = netsim::on_fresh_thread(move || {
        let mut w = World::new(p1.seed, p1.sched.clone());
        World::install(&mut w);
        let (sa, sb) = build(&a1, &b1, p1.b_on_a);
        let a_reqs: Vec<Request> = sa.produce_initial_state().requests.into_iter().map(|r| r.content).collect();
        let initial = if p1.a_as_initial_state { sa } else { ConfigState::new() };
        let expected = expected_view(&sb, &p1.queries);
        let q = p1.queries.clone();
        let mut prober_id = 0usize;
        let (end, mid) = netsim::run_worker(&mut w, Knobs::default().server_config(), initial, Listeners::default(), |w, m: &mut Master| {
            m.wq = p1.wq.clone();
            add_backends(w, p1.seed);
            prober_id = w.add_actor(Box::new(Prober::new(p1.probes.clone())));
            if !p1.a_as_initial_state { for (i, r) in a_reqs.iter().enumerate() { m.push(MOp::SendId(format!("A{i}"), r.clone())); } m.push(MOp::BarrierFor(30 * SEC)); }
            for (i, r) in d1.iter().enumerate() {
                m.push(MOp::SendId(format!("D{i}"), r.clone()));
                if p1.barrier_every > 0 && (i + 1) % p1.barrier_every == 0 { m.push(MOp::BarrierFor(30 * SEC)); }
            }
            m.push(MOp::BarrierFor(30 * SEC));
            push_observation(m, 1, &q);
            m.push(MOp::SetBoard("probe_stop".into(), 1));
            m.push(MOp::Sleep(MS));
            m.push(MOp::HardStop);
        });
        let m: &Master = w.actor_ref(mid);
        let pr: &Prober = w.actor_ref(prober_id);
        let a_rejected: Vec<String> = if p1.a_as_initial_state { vec![] } else { a_reqs.iter().enumerate().filter(|(i, _)| answer_of(m, &format!("A{i}")).is_none_or(|x| !x.0)).map(|(i, r)| format!("A{i}:{}", verb_name(r))).collect() };
        let d_answers: Vec<Option<(bool, String)>> = (0..d1.len()).map(|i| answer_of(m, &format!("D{i}"))).collect();
        let obs = collect_observation(&m.data, pr, 1, &q);
        (end.panicked, end.aborted, end.boot_error, m.data.garbage.clone(), a_rejected, d_answers, obs, expected, w.trace.0, w.stats.clone())
    });
    o.panicked = r1.0; o.aborted = r1.1; o.boot_error = r1.2; o.garbage = r1.3; o.a_rejected = r1.4; o.d_answers = r1.5; o.obs1 = r1.6; o.expected = r1.7; o.stats = r1.9;
    // ---- worker 2: given B directly
    let p2 = p.clone();
    let r2 = netsim::on_fresh_thread(move || {
        let mut w = World::new(p2.seed_w2, p2.sched.clone());
        World::install(&mut w);
        let (_, sb) = build(&a, &b, p2.b_on_a);
        let b_reqs: Vec<Request> = sb.produce_initial_state().requests.into_iter().map(|r| r.content).collect();
        let q = p2.queries.clone();
        let mut prober_id = 0usize;
        let (end, mid) = netsim::run_worker(&mut w, Knobs::default().server_config(), ConfigState::new(), Listeners::default(), |w, m: &mut Master| {
            add_backends(w, p2.seed_w2);
            prober_id = w.add_actor(Box::new(Prober::new(p2.probes.clone())));
            for (i, r) in b_reqs.iter().enumerate() { m.push(MOp::SendId(format!("B{i}"), r.clone())); }
            m.push(MOp::BarrierFor(30 * SEC));
            push_observation(m, 1, &q);
            m.push(MOp::SetBoard("probe_stop".into(), 1));
            m.push(MOp::Sleep(MS));
            m.push(MOp::HardStop);
        });
        let m: &Master = w.actor_ref(mid);
        let pr: &Prober = w.actor_ref(prober_id);
        let rejected: Vec<Request> = b_reqs.iter().enumerate().filter(|(i, _)| answer_of(m, &format!("B{i}")).is_none_or(|x| !x.0)).map(|(_, r)| r.clone()).collect();
        (end.panicked, end.aborted, rejected, b_reqs.len(), collect_observation(&m.data, pr, 1, &q), w.trace.0, w.stats.clone())
    });
    if o.panicked.is_none() { o.panicked = r2.0.map(|s| format!("worker 2: {s}")); }
    if o.aborted.is_none() { o.aborted = r2.1; }
    o.b_rejected = r2.2; o.b_requests = r2.3; o.obs2 = r2.4;
    o.stats.add(&r2.6);
    let mut th = TraceHash::new();
    th.mix(r1.8); th.mix(r2.5);
    for ob in [&o.obs1, &o.obs2].into_iter().flatten() { mix_observation(&mut th, ob); }
    for x in &o.d_answers { th.mix(match x { None => 0, Some((true, _)) => 1, _ => 2 }); }
    o.trace_hash = th.0;
    o
}

fn view_kind(name: &str) -> &'static str {
    if name == "hashes" { "hashes" } else if name.starts_with("cluster/") { "cluster" } else if name.starts_with("domain/") { "domain" } else if name == "certs/all" { "certs_all" } else if name.starts_with("certs/domain/") { "certs_by_domain" } else if name.starts_with("certs/fp/") { "certs_by_fingerprint" } else { "max_conn_per_ip" }
}

fn short(s: &str) -> String { s.chars().take(220).collect() }

pub fn oracle(p: &NetPlan, o: &Outcome) -> (Vec<Violation>, BTreeMap<String, u64>, bool) {
    let mut v: Vec<Violation> = Vec::new();
    let mut probes: BTreeMap<String, u64> = BTreeMap::new();
    let feats = if o.features.is_empty() { "none".to_string() } else { o.features.iter().cloned().collect::<Vec<_>>().join("+") };
    for f in &o.features { *probes.entry(format!("pair_feature/{f}")).or_insert(0) += 1; }
    probes.insert("diff_requests".into(), o.diff.len() as u64);
    for r in &o.diff { *probes.entry(format!("diff_request/{}", verb_name(r))).or_insert(0) += 1; }
    probes.insert("pairs_differing".into(), !o.equal_states as u64);
    if let Some(pn) = &o.panicked { v.push(Violation::new("panic", format!("worker|{feats}"), pn.clone())); }
    if let Some(a) = &o.aborted { v.push(Violation::new("no_exit", a.clone(), format!("run aborted: {a}"))); }
    if let Some(g) = &o.garbage { v.push(Violation::new("garbage_on_channel", "worker_to_master", g.clone())); }
    if !o.a_rejected.is_empty() { probes.insert("a_bootstrap_rejected".into(), 1); }
    if !o.b_rejected.is_empty() { probes.insert("b_bootstrap_rejected".into(), 1); }
    let judged = o.panicked.is_none() && o.aborted.is_none() && o.a_rejected.is_empty();
    if judged {
        // every request of the difference is accepted
        let mut all_ok = true;
        for (i, r) in o.diff.iter().enumerate() {
            match o.d_answers.get(i).cloned().flatten() {
                Some((true, _)) => {}
                Some((false, msg)) => {
                    all_ok = false;
                    if o.b_rejected.iter().any(|x| x == r) { *probes.entry("diff_step_rejected_like_direct".into()).or_insert(0) += 1; continue; }
                    v.push(Violation::new("diff_step_rejected_by_worker", format!("{}|{feats}", verb_name(r)), format!("request #{i} of {} in diff(A,B) ({}) was answered FAILURE by the worker holding A: {}", o.diff.len(), verb_name(r), short(&msg))));
                }
                None => { all_ok = false; v.push(Violation::new("no_final_answer", format!("{}|{feats}", verb_name(r)), format!("request #{i} of the difference ({}) got no final answer", verb_name(r)))); }
            }
        }
        probes.insert("diff_fully_accepted".into(), all_ok as u64);
        if let (Some(o1), Some(o2)) = (&o.obs1, &o.obs2) {
            // the worker's view equals the target's projections
            for (name, want) in &o.expected {
                let got = o1.view.get(name).cloned().unwrap_or_default();
                let same = if want == "FAILURE" { got.starts_with("FAILURE") } else { got == *want };
                if !same { v.push(Violation::new("view_differs_from_target", format!("{}|{feats}", view_kind(name)), format!("after the difference the worker answers {name} with {} where B's own projection is {}", short(&got), short(want)))); }
            }
            // indistinguishable from a worker given B directly
            for (name, x) in &o1.view {
                let y = o2.view.get(name).cloned().unwrap_or_default();
                let same = if x.starts_with("FAILURE") && y.starts_with("FAILURE") { true } else { *x == y };
                if !same { v.push(Violation::new("view_differs_from_direct", format!("{}|{feats}", view_kind(name)), format!("{name}: worker holding A + difference answers {} ; worker given B directly answers {}", short(x), short(&y)))); }
            }
            for (j, (x, y)) in o1.probes.iter().zip(o2.probes.iter()).enumerate() {
                *probes.entry(format!("direct_probe/{}", y.class)).or_insert(0) += 1;
                if x.sig != y.sig { v.push(Violation::new("behaviour_differs_from_direct", format!("{}|{feats}", symptom(y, x)), format!("probe {}: a worker given B directly: {} ; the worker holding A after the difference: {}", p.probes[j].name(), y.sig, x.sig))); }
            }
        } else { v.push(Violation::new("no_observation", feats.clone(), "a worker could not be observed (no answers to the queries / probes did not run)".to_string())); }
    }
    let mut seen = BTreeSet::new();
    v.retain(|x| seen.insert((x.class.clone(), x.key.clone())));
    (v, probes, judged && !o.equal_states && !o.diff.is_empty())
}

fn warm_up() {
    static ONCE: std::sync::Once = std::sync::Once::new();
    ONCE.call_once(|| {
        let mut done = 0;
        for seed in 1..200u64 {
            let p = generate(seed, Tier::Quick);
            if p.probes.iter().any(|x| x.kind == PKind::Https) && p.family != "worker_unrelated" { let _ = run(&p); done += 1; }
            if done >= 2 { break; }
        }
    });
}

pub fn run_report(p: &NetPlan) -> RunReport {
    warm_up();
    let o = run(p);
    let (violations, mut probes, nontrivial) = oracle(p, &o);
    let mut rep = RunReport { seed: p.seed, family: p.family.clone(), violations, trace_hash: o.trace_hash, stats: o.stats.clone(), nontrivial, ..Default::default() };
    rep.summary = format!("A = {} requests [{}]; B = {}[{}]; diff = [{}]; A {}; {} probes", n7::raw(&p.a).len(), cfggen::summarize_ops(&n7::raw(&p.a)).chars().take(160).collect::<String>(), if p.b_on_a { "A + " } else { "" }, cfggen::summarize_ops(&n7::raw(&p.b)), cfggen::summarize_ops(&o.diff), if p.a_as_initial_state { "as InitialState" } else { "as commands" }, p.probes.len());
    probes.insert("worker_tier_plans".into(), 1);
    probes.insert(if p.a_as_initial_state { "a_as_initial_state".into() } else { "a_as_commands".into() }, 1);
    rep.probes = probes;
    if let Some(e) = &o.boot_error { rep.harness_error = Some(format!("worker boot failed: {e}")); }
    rep
}

pub fn shrink(p: &NetPlan) -> Vec<NetPlan> {
    let mut out = Vec::new();
    for ops in cfggen::shrink_ops(&p.b).into_iter().take(30) { let mut q = p.clone(); q.b = ops; out.push(q); }
    let n = p.probes.len();
    if n >= 4 { for r in [0..n / 2, n / 2..n] { let mut q = p.clone(); q.probes = p.probes[r].to_vec(); out.push(q); } }
    if let Some(a) = p.a.as_array() {
        let n = a.len();
        if n >= 8 { for r in [n / 2..n, n * 3 / 4..n] { let mut x = a.clone(); x.drain(r); let mut q = p.clone(); q.a = Value::Array(x); out.push(q); } }
        for i in (0..n).rev() { let mut x = a.clone(); x.remove(i); let mut q = p.clone(); q.a = Value::Array(x); out.push(q); }
    }
    for i in 0..n { if n > 1 { let mut q = p.clone(); q.probes.remove(i); out.push(q); } }
    if p.wq != Quantum::All { let mut q = p.clone(); q.wq = Quantum::All; out.push(q); }
    if p.barrier_every != 1 { let mut q = p.clone(); q.barrier_every = 1; out.push(q); }
    if p.a_as_initial_state { let mut q = p.clone(); q.a_as_initial_state = false; out.push(q); }
    for ops in cfggen::shrink_ops(&p.b).into_iter().skip(30) { let mut q = p.clone(); q.b = ops; out.push(q); }
    out
}

pub fn debug(p: &NetPlan) -> String {
    let o = run(p);
    let (violations, probes, _) = oracle(p, &o);
    let mut s = format!("features: {:?}\nA rejected: {:?}\nB rejected: {:?}\npanicked: {:?} aborted: {:?}\n", o.features, o.a_rejected, o.b_rejected.iter().map(verb_name).collect::<Vec<_>>(), o.panicked, o.aborted);
    s += "A:\n"; for r in n7::raw(&p.a) { s += &format!("   {}\n", serde_json::to_string(&r).unwrap_or_default().chars().take(300).collect::<String>()); }
    s += "B ops:\n"; for r in n7::raw(&p.b) { s += &format!("   {}\n", serde_json::to_string(&r).unwrap_or_default().chars().take(300).collect::<String>()); }
    s += "diff:\n";
    for (i, r) in o.diff.iter().enumerate() { s += &format!("   #{i} {:?} {}\n", o.d_answers.get(i), serde_json::to_string(r).unwrap_or_default().chars().take(300).collect::<String>()); }
    if let (Some(a), Some(b)) = (&o.obs1, &o.obs2) { for (j, (x, y)) in a.probes.iter().zip(b.probes.iter()).enumerate() { s += &format!("probe {}: after diff {} | direct {}\n", p.probes[j].name(), x.sig, y.sig); } }
    s += &format!("violations: {violations:#?}\nprobes: {probes:?}\n");
    s
}
