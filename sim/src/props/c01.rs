//! C01 — proxied HTTP bodies arrive complete, unmodified and in order.
use serde_json::Value;

use crate::actors::h1::*;
use crate::actors::Pace;
use crate::framework::*;
use crate::netsim::{self, Knobs};
use crate::prng::Prng;
use crate::scenario::*;
use crate::world::{MS, SEC};

pub struct C01;

pub fn generate(seed: u64, tier: Tier) -> HttpPlan {
    let mut rng = Prng::derive(seed, "c01/plan");
    let faulty = rng.below(2) == 1;
    // at most one known-defect trigger feature per plan, none in half of them (see known_findings.json)
    let feature = match rng.below(8) { 0 | 1 => 1 /* close-delimited responses */, 2 => 2 /* backend closes after response */, 3 => 3 /* lengthless + pipelining */, _ => 0 };
    let mut knobs = Knobs::default();
    // swarm: buffer size and pool size
    knobs.buffer_size = *rng.pick(&[16393u64, 16393, 16393, 16384 + 9 + 7, 20000, 32768, 65536]);
    knobs.max_buffers = *rng.pick(&[1000u64, 1000, 64, 16]);
    let max_body = match tier { Tier::Quick => 200_000, Tier::Thorough => 2_000_000 };
    let front = "10.0.0.1:80".parse().unwrap();
    let nclusters = 1 + rng.below(2) as usize;
    let mut clusters = Vec::new();
    let mut next_id = 1u64;
    let nclients = 1 + rng.below(3) as usize;
    // draw client request lists first so backends know the response scripts
    let mut clients = Vec::new();
    let mut responses: Vec<std::collections::BTreeMap<u64, RespSpec>> = vec![Default::default(); nclusters];
    let mut bytes_hint = vec![0usize; nclusters];
    for ci in 0..nclients {
        let nreq = 1 + rng.below(4) as usize;
        let mut reqs = Vec::new();
        let mut hint = 0;
        for _ in 0..nreq {
            let id = next_id; next_id += 1;
            let cl = rng.below(nclusters as u64) as usize;
            let mut r = ReqSpec::get(id, &format!("c{cl}.test"), &format!("/r/{id}"));
            let body = random_body(&mut rng, knobs.buffer_size as usize, max_body, false);
            if body != BodySpec::None { r.method = "POST".into(); }
            // most body-less requests carry an explicit length; a lengthless one is a separate trigger
            if body == BodySpec::None && (feature != 3 || rng.below(3) == 0) { r.headers.push(("Content-Length".into(), "0".into())); }
            r.body = match body { BodySpec::Close(n) => BodySpec::Cl(n), b => b };
            hint += r.body.len() + 200;
            let mut resp = RespSpec::ok(random_body(&mut rng, knobs.buffer_size as usize, max_body, true));
            if matches!(resp.body, BodySpec::Close(_)) && (feature != 1 || rng.below(2) == 0) { resp.body = BodySpec::Cl(resp.body.len()); }
            if feature == 2 && rng.below(3) == 0 { resp.close_after = true; }
            if let BodySpec::None = resp.body { resp.status = *rng.pick(&[200u16, 204, 304, 200]); }
            hint += resp.body.len() + 200;
            bytes_hint[cl] += r.body.len() + resp.body.len() + 400;
            responses[cl].insert(id, resp);
            reqs.push(r);
        }
        clients.push(ClientPlan {
            name: format!("cl{ci}"),
            src: format!("192.0.2.{}:{}", 7 + ci, 40001 + ci).parse().unwrap(),
            dst: front,
            start_ns: rng.below(3) * MS,
            pace: Pace::random(&mut rng, hint),
            pipeline: rng.below(3) == 0,
            requests: reqs,
            abort: None,
            sndbuf: if rng.below(3) == 0 { Some(*rng.pick(&[4608, 9216, 65536])) } else { None },
            think_ns: rng.below(2) * rng.below(5 * MS),
            linger_ns: 0,
            give_up_ns: 0,
            wait_board: None,
        });
    }
    for cl in 0..nclusters {
        let b = BackendPlan {
            name: format!("b{cl}"),
            addr: format!("10.1.{cl}.1:8000").parse().unwrap(),
            pace: Pace::random(&mut rng, bytes_hint[cl]),
            responses: responses[cl].clone(),
            default: RespSpec::ok(BodySpec::Cl(3)),
            close_on_accept: vec![],
            listen_from_ns: 0,
            listen_until_ns: 0,
        };
        clusters.push(ClusterPlan { id: format!("c{cl}"), host: format!("c{cl}.test"), backends: vec![(b, BackendMode::Listen { delay_ns: rng.below(2) * rng.below(20 * MS) })] });
    }
    // a pipelined client whose earlier response is close-delimited would legitimately lose later ones
    for c in clients.iter_mut() {
        let mut seen_close = false;
        for r in c.requests.iter() {
            let cl: usize = r.host[1..2].parse().unwrap();
            if seen_close { /* later requests on a closed connection */ }
            if matches!(responses[cl][&r.id].body, BodySpec::Close(_)) || responses[cl][&r.id].close_after { seen_close = true; }
        }
        if seen_close {
            // keep only up to and including the first close-delimited response
            let mut keep = Vec::new();
            for r in c.requests.drain(..) {
                let cl: usize = r.host[1..2].parse().unwrap();
                let is_close = matches!(responses[cl][&r.id].body, BodySpec::Close(_)) || responses[cl][&r.id].close_after;
                keep.push(r);
                if is_close { break; }
            }
            c.requests = keep;
        }
    }
    HttpPlan {
        seed,
        family: format!("h1h1_{}{}", if faulty { "buggify" } else { "plain" }, ["", "+close_delimited", "+backend_close", "+lengthless_pipelined"][feature as usize]),
        knobs,
        sched: netsim::default_sched(&mut rng, faulty),
        front,
        clusters,
        clients,
        sndbufs: if rng.below(2) == 0 { Some(vec![0, 4608, 9216, 32768]) } else { None },
        settle_ns: 0,
        extra_frontends: vec![],
    }
}

pub fn summarize(p: &HttpPlan) -> String {
    let mut s = format!("{} buf={} ", p.family, p.knobs.buffer_size);
    for c in &p.clients {
        s += &format!("[{} {}{:?}/{:?} gap{}‰:", c.name, if c.pipeline { "pipelined " } else { "" }, c.pace.wq, c.pace.rq, c.pace.gap_pm);
        for r in &c.requests {
            let cl: usize = r.host[1..2].parse().unwrap_or(0);
            let resp = p.clusters[cl].backends[0].0.responses.get(&r.id);
            s += &format!(" {}#{} req={:?}->resp={:?}", r.method, r.id, short(&r.body), resp.map(|x| short(&x.body)));
        }
        s += "] ";
    }
    s += &format!("sched(trunc={} perm={} preempt={} short={} eagain={})", p.sched.ev_truncate_pm, p.sched.ev_permute_pm, p.sched.preempt_pm, p.sched.short_write_pm, p.sched.eagain_pm);
    s
}
fn short(b: &BodySpec) -> String {
    match b { BodySpec::None => "none".into(), BodySpec::Cl(n) => format!("cl{n}"), BodySpec::Close(n) => format!("close{n}"), BodySpec::Chunked(v) => format!("chunked{}x{}", v.iter().sum::<usize>(), v.len()) }
}

/// Plan-level trigger classification of a request (never derived from sozu's behaviour): used to
/// key violations so that a known finding only matches violations that have its trigger.
pub fn trigger(p: &HttpPlan, ci: usize, ri: usize) -> &'static str {
    let c = &p.clients[ci];
    if c.pipeline && c.requests[..=ri].iter().take(ri).any(|r| r.body == BodySpec::None && !r.headers.iter().any(|(n, _)| n.eq_ignore_ascii_case("content-length"))) {
        return "pipelined_behind_lengthless_request";
    }
    if c.pipeline && c.requests.len() > ri + 1 && c.requests[ri].body == BodySpec::None && !c.requests[ri].headers.iter().any(|(n, _)| n.eq_ignore_ascii_case("content-length")) {
        return "lengthless_request_with_pipelined_successor";
    }
    let r = &c.requests[ri];
    let cl: usize = r.host[1..2].parse().unwrap_or(0);
    if let Some(spec) = p.clusters[cl].backends[0].0.responses.get(&r.id) {
        if matches!(spec.body, BodySpec::Close(_)) { return "close_delimited_response"; }
        if spec.close_after || spec.silent_close_after { return "backend_closes_after_response"; }
    }
    "none"
}

/// The C01 oracle over a fault-free (peer-wise) HTTP outcome.
pub fn oracle(p: &HttpPlan, o: &HttpOutcome) -> Vec<Violation> { oracle_filtered(p, o, &|_, _| false) }

/// `skip(ci, ri)`: requests the caller judges itself (e.g. the victim of an injected fault)
pub fn oracle_filtered(p: &HttpPlan, o: &HttpOutcome, skip: &dyn Fn(usize, usize) -> bool) -> Vec<Violation> {
    let mut v = Vec::new();
    if let Some(pn) = &o.panicked { v.push(Violation::new("panic", "worker", pn.clone())); }
    if let Some(a) = &o.aborted { v.push(Violation::new("no_exit", a.clone(), format!("run aborted: {a}"))); }
    for (ci, c) in p.clients.iter().enumerate() {
        let oc = &o.clients[ci];
        for (ri, r) in c.requests.iter().enumerate() {
            if skip(ci, ri) { continue; }
            let cl: usize = r.host[1..2].parse().unwrap();
            let spec = &p.clusters[cl].backends[0].0.responses[&r.id];
            let want_len = if r.method == "HEAD" || spec.status == 204 || spec.status == 304 { 0 } else { spec.body.len() as u64 };
            let kind = format!("req={} resp={}", short(&r.body), short(&spec.body));
            let trig = trigger(p, ci, ri);
            let k = |sym: &str| format!("{sym}|{trig}");
            // ---- response seen by the client
            match oc.responses.get(ri) {
                None => {
                    let part = oc.partial.as_ref().filter(|_| ri == oc.responses.len());
                    match part {
                        Some(m) => v.push(Violation::new("body_mismatch", k("truncated"), format!("client {} request #{} ({kind}): response cut after {} of {} body bytes; eof={} err={:?}", c.name, r.id, m.body_len, want_len, oc.rec.eof, oc.rec.io_err))),
                        None => v.push(Violation::new("no_answer", k("missing"), format!("client {} request #{} ({kind}): no response; got {} responses, eof={} err={:?} parse_error={:?}", c.name, r.id, oc.responses.len(), oc.rec.eof, oc.rec.io_err, oc.rec.parse_error))),
                    }
                }
                Some(m) => {
                    if m.sim_id != Some(r.id) {
                        v.push(Violation::new("wrong_answer", k(&format!("status={}", m.status()).to_string()), format!("client {} request #{} ({kind}): got '{}' sim_id={:?} body={:?}", c.name, r.id, m.start, m.sim_id, String::from_utf8_lossy(&m.body_head).chars().take(80).collect::<String>())));
                        continue;
                    }
                    if m.status() != spec.status { v.push(Violation::new("wrong_answer", k("status_changed"), format!("request #{}: status {} != {}", r.id, m.status(), spec.status))); }
                    if let Some(off) = m.check.first_bad {
                        v.push(Violation::new("body_mismatch", k("corrupted"), format!("client {} request #{} ({kind}): response body differs at offset {off} (received {})", c.name, r.id, m.body_len)));
                    } else if m.body_len != want_len {
                        v.push(Violation::new("body_mismatch", k(&if m.body_len < want_len { "truncated" } else { "duplicated" }.to_string()), format!("client {} request #{} ({kind}): response body {} bytes, backend sent {}", c.name, r.id, m.body_len, want_len)));
                    }
                    if !m.complete { v.push(Violation::new("missing_terminator", k("response"), format!("request #{} ({kind}): response not terminated", r.id))); }
                    // liveness: no sozu timer may be needed in a run where nobody stalls
                    let sent = oc.rec.sent_done.iter().find(|(id, _)| *id == r.id).map(|x| x.1).unwrap_or(0);
                    if m.t_end > sent + 8 * SEC && sent > 0 {
                        v.push(Violation::new("stall_needed_timer", k("response"), format!("request #{} ({kind}): completed {} ms after the request was sent", r.id, (m.t_end - sent) / MS)));
                    }
                }
            }
            // ---- request seen by the backend
            let mut seen = 0;
            for rec in &o.backends[cl][0] {
                for q in rec.requests.iter().chain(rec.partial.iter()) {
                    if q.sim_id == Some(r.id) {
                        seen += 1;
                        if let Some(off) = q.check.first_bad {
                            v.push(Violation::new("body_mismatch", k("request_corrupted"), format!("request #{} ({kind}): request body differs at offset {off}", r.id)));
                        } else if q.body_len != r.body.len() as u64 {
                            v.push(Violation::new("body_mismatch", k(&if q.body_len < r.body.len() as u64 { "request_truncated" } else { "request_duplicated" }.to_string()), format!("request #{} ({kind}): backend got {} body bytes, client sent {}", r.id, q.body_len, r.body.len())));
                        }
                        if !q.complete { v.push(Violation::new("missing_terminator", k("request"), format!("request #{} ({kind}): request not terminated at the backend", r.id))); }
                    }
                }
                if let Some(e) = &rec.parse_error { v.push(Violation::new("backend_stream_not_strict", k("parse_error"), format!("backend c{cl} conn {}: {e}", rec.idx))); }
            }
            if seen == 0 && oc.responses.get(ri).map_or(true, |m| m.sim_id == Some(r.id)) {
                // (a proxy answer is reported above; only flag "never forwarded" once)
                if oc.responses.get(ri).is_some() { v.push(Violation::new("wrong_answer", k("not_forwarded"), format!("request #{} never reached its backend", r.id))); }
            }
            if seen > 1 { v.push(Violation::new("body_mismatch", k("request_replayed"), format!("request #{} reached the backend {seen} times", r.id))); }
        }
        if oc.responses.len() > c.requests.len() && !(0..c.requests.len()).any(|ri| skip(ci, ri)) { v.push(Violation::new("two_answers", "extra_response", format!("client {} got {} responses for {} requests", c.name, oc.responses.len(), c.requests.len()))); }
        if let Some(e) = &oc.rec.parse_error { v.push(Violation::new("malformed_response", "client_parse", format!("client {}: {e}", c.name))); }
    }
    v
}

/// C01 plans: the H1/H1 scenario, or the mixed-protocol scenario (H2-over-TLS client and/or h2c backend).
#[derive(Clone, Debug, serde::Serialize, serde::Deserialize)]
pub enum Plan {
    H1(HttpPlan),
    Mux(crate::muxscn::MuxPlan),
}

fn run_mux_plan(p: &crate::muxscn::MuxPlan) -> RunReport {
    use super::c14;
    let o = crate::muxscn::run_mux(p, false);
    let violations = c14::body_oracle(p, &o);
    let mut rep = RunReport { seed: p.seed, family: p.family.clone(), violations, trace_hash: o.trace_hash, stats: o.stats.clone(), summary: c14::summarize(p), ..Default::default() };
    c14::mux_probes(&o, &mut rep);
    let done = o.h2_clients.iter().map(|r| r.streams.values().filter(|s| s.recv_end).count()).sum::<usize>() + o.h1_clients.iter().map(|c| c.responses.len()).sum::<usize>();
    rep.nontrivial = done > 0;
    rep.probes.insert("responses_completed".into(), done as u64);
    if let Some(e) = o.boot_error { rep.harness_error = Some(format!("worker boot failed: {e}")); }
    if !o.config_failures.is_empty() { rep.harness_error = Some(format!("configuration refused: {:?}", o.config_failures)); }
    rep
}

impl Property for C01 {
    fn id(&self) -> &'static str { "C01" }
    fn runs(&self, tier: Tier) -> u64 { match tier { Tier::Quick => 12000, Tier::Thorough => 200000 } }
    fn gen_plan(&self, seed: u64, tier: Tier) -> Value {
        // two thirds H1/H1 (cheap, 700 runs/s), one third the pairs that involve HTTP/2 and TLS
        if Prng::derive(seed, "c01/kind").below(3) < 2 { serde_json::to_value(Plan::H1(generate(seed, tier))).unwrap() }
        else { serde_json::to_value(Plan::Mux(super::c14::gen_mux(seed, tier, super::c14::Focus::Bodies, "c01"))).unwrap() }
    }
    fn run_plan(&self, plan: &Value) -> RunReport {
        let p: HttpPlan = match serde_json::from_value::<Plan>(plan.clone()) {
            Ok(Plan::H1(p)) => p,
            Ok(Plan::Mux(m)) => return run_mux_plan(&m),
            Err(e) => return RunReport { harness_error: Some(format!("bad plan: {e}")), ..Default::default() },
        };
        let o = run_http(&p, false);
        let violations = oracle(&p, &o);
        let mut rep = RunReport { seed: p.seed, family: p.family.clone(), violations, trace_hash: o.trace_hash, stats: o.stats.clone(), summary: summarize(&p), ..Default::default() };
        let done: usize = o.clients.iter().map(|c| c.responses.len()).sum();
        rep.nontrivial = done > 0;
        rep.probes.insert("responses_completed".into(), done as u64);
        rep.probes.insert("body_bytes_verified".into(), o.clients.iter().flat_map(|c| c.responses.iter()).map(|m| m.body_len).sum::<u64>() + o.backends.iter().flatten().flatten().flat_map(|r| r.requests.iter()).map(|m| m.body_len).sum::<u64>());
        if let Some(e) = o.boot_error { rep.harness_error = Some(format!("worker boot failed: {e}")); }
        if o.config_finals.values().any(|n| *n != 1) { rep.harness_error = Some("configuration command without exactly one final answer".into()); }
        rep
    }
    fn shrink(&self, plan: &Value) -> Vec<Value> {
        match serde_json::from_value::<Plan>(plan.clone()) {
            Ok(Plan::H1(p)) => shrink_http(&p).into_iter().map(|p| serde_json::to_value(Plan::H1(p)).unwrap()).collect(),
            Ok(Plan::Mux(m)) => super::c14::shrink_mux(&m).into_iter().map(|q| serde_json::to_value(Plan::Mux(q)).unwrap()).collect(),
            Err(_) => vec![],
        }
    }
    fn debug_plan(&self, plan: &Value) -> String {
        match serde_json::from_value::<Plan>(plan.clone()) {
            Ok(Plan::H1(p)) => debug_http(&serde_json::to_value(p).unwrap()),
            Ok(Plan::Mux(m)) => super::c14::debug_mux(&m),
            Err(e) => e.to_string(),
        }
    }
    fn descr(&self) -> Descr {
        Descr {
            level: "exploration",
            rule: "seeded plans (topology, request/response framings and boundary-biased sizes, peer pacing, socket buffer sizes, epoll truncation/permutation, preemption points, injected short writes/EAGAIN); a run is non-trivial when >=1 response completed end-to-end; distinct = distinct syscall/decision trace hashes",
            assumptions: vec!["AF_UNIX stream sockets stand in for TCP (no RST-discards-data, no Nagle)", "release semantics (debug assertions off)", "x86-64 Linux"],
            real: vec!["sozu_lib::server::Server::run (whole worker: mux H1 and H2, kawa, converter, rustls+ring TLS termination, buffer pool, timers, backends, router)", "sozu_command_lib Channel/ConfigState", "mio", "Linux epoll + AF_UNIX"],
            stub: vec!["IP network (AF_UNIX pairs + address translation)", "clock", "entropy", "clients", "backends", "master process (scripted stub)"],
            not_covered: vec!["HTTP/1.1 over TLS clients (H2-over-TLS and plain H1 clients are covered)", "bodies above 2 MB"],
        }
    }
}

/// Generic delta-debugging candidates for HTTP plans.
pub fn shrink_http(p: &HttpPlan) -> Vec<HttpPlan> {
    let mut out = Vec::new();
    // drop a client
    if p.clients.len() > 1 {
        for i in 0..p.clients.len() { let mut q = p.clone(); q.clients.remove(i); out.push(q); }
    }
    // drop a request
    for i in 0..p.clients.len() {
        if p.clients[i].requests.len() > 1 {
            for j in 0..p.clients[i].requests.len() { let mut q = p.clone(); q.clients[i].requests.remove(j); out.push(q); }
        }
    }
    // scheduler simplifications
    let mut q = p.clone();
    q.sched.ev_truncate_pm = 0; q.sched.ev_permute_pm = 0; q.sched.preempt_pm = 0;
    if q.sched.ev_truncate_pm != p.sched.ev_truncate_pm || q.sched.ev_permute_pm != p.sched.ev_permute_pm || q.sched.preempt_pm != p.sched.preempt_pm { out.push(q); }
    for f in 0..3 {
        let mut q = p.clone();
        match f { 0 => q.sched.short_write_pm = 0, 1 => q.sched.eagain_pm = 0, _ => q.sndbufs = None }
        if serde_json::to_string(&q).unwrap() != serde_json::to_string(p).unwrap() { out.push(q); }
    }
    // greedy pacing
    for i in 0..p.clients.len() {
        if !p.clients[i].pace.is_greedy() { let mut q = p.clone(); q.clients[i].pace = Pace::greedy(); out.push(q); }
        if p.clients[i].pipeline { let mut q = p.clone(); q.clients[i].pipeline = false; out.push(q); }
        if p.clients[i].abort.is_some() { let mut q = p.clone(); q.clients[i].abort = None; out.push(q); }
    }
    for i in 0..p.clusters.len() {
        for j in 0..p.clusters[i].backends.len() {
            if !p.clusters[i].backends[j].0.pace.is_greedy() { let mut q = p.clone(); q.clusters[i].backends[j].0.pace = Pace::greedy(); out.push(q); }
        }
    }
    // shrink bodies
    for i in 0..p.clients.len() {
        for j in 0..p.clients[i].requests.len() {
            let r = &p.clients[i].requests[j];
            if r.body != BodySpec::None {
                let mut q = p.clone(); q.clients[i].requests[j].body = BodySpec::None; q.clients[i].requests[j].method = "GET".into(); out.push(q);
                if let BodySpec::Chunked(v) = &r.body { let mut q = p.clone(); q.clients[i].requests[j].body = BodySpec::Cl(v.iter().sum()); out.push(q); }
                let n = r.body.len();
                if n > 1 { let mut q = p.clone(); q.clients[i].requests[j].body = BodySpec::Cl(n / 2); out.push(q); }
            }
            let id = r.id;
            for ci in 0..p.clusters.len() {
                if let Some(resp) = p.clusters[ci].backends[0].0.responses.get(&id) {
                    let n = resp.body.len();
                    if let BodySpec::Chunked(v) = &resp.body { let mut q = p.clone(); q.clusters[ci].backends[0].0.responses.get_mut(&id).unwrap().body = BodySpec::Cl(v.iter().sum()); out.push(q); }
                    if n > 1 {
                        let mut q = p.clone();
                        let b = &mut q.clusters[ci].backends[0].0.responses.get_mut(&id).unwrap().body;
                        *b = match b { BodySpec::Close(_) => BodySpec::Close(n / 2), BodySpec::Chunked(_) => BodySpec::Chunked(vec![n / 2]), _ => BodySpec::Cl(n / 2) };
                        out.push(q);
                    }
                }
            }
        }
    }
    // default knobs
    if p.knobs.buffer_size != 16393 || p.knobs.max_buffers != 1000 { let mut q = p.clone(); q.knobs.buffer_size = 16393; q.knobs.max_buffers = 1000; out.push(q); }
    out
}

pub fn debug_http(plan: &Value) -> String {
    let p: HttpPlan = serde_json::from_value(plan.clone()).unwrap();
    let o = run_http(&p, true);
    let mut s = String::new();
    for l in &o.log { s += l; s.push('\n'); }
    for (i, c) in o.clients.iter().enumerate() {
        s += &format!("client {i}: rec={:?}\n", c.rec);
        for m in c.responses.iter().chain(c.partial.iter()) {
            s += &format!("  response: {:?} mode={:?} len={} ok={} complete={} t_end={}\n    head={:?}\n    body_head={:?}\n", m.start, m.mode, m.body_len, m.body_ok(), m.complete, m.t_end, String::from_utf8_lossy(&m.raw_head), String::from_utf8_lossy(&m.body_head[..m.body_head.len().min(100)]));
        }
    }
    for (ci, cl) in o.backends.iter().enumerate() {
        for recs in cl {
            for r in recs {
                s += &format!("backend c{ci} conn {}: eof={} err={:?} closed_by_us={} responded={:?} parse_error={:?}\n", r.idx, r.eof, r.io_err, r.closed_by_us, r.responded, r.parse_error);
                for m in r.requests.iter().chain(r.partial.iter()) {
                    s += &format!("  request: {:?} mode={:?} len={} ok={} complete={}\n    head={:?}\n", m.start, m.mode, m.body_len, m.body_ok(), m.complete, String::from_utf8_lossy(&m.raw_head));
                }
            }
        }
    }
    s += &format!("panicked={:?} aborted={:?} boot={:?}\n", o.panicked, o.aborted, o.boot_error);
    s
}
