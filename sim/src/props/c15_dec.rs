//! C15 family `decoder`: sozu's HTTP/2 frame decoder (`sozu_lib::protocol::mux::parser`, a pure
//! function) driven in-process with seeded / mutated byte strings and cross-checked against the
//! harness's own codec (`actors::h2codec`, written from RFC 9113 §4 and §6).
//!
//! Reference reading of one byte string (independent of sozu):
//!   loop { fewer than 9 octets left -> the header decoder must report an error;
//!          header = the 9 octets; RFC 9113 §4.1/§4.2/§6 framing rules give the set of acceptable
//!          error codes (empty = must decode, and must leave exactly `left - 9` octets);
//!          fewer than `len` payload octets left -> the body decoder must report an error;
//!          payload rules per type -> either a decoded frame (must leave exactly `left - len`
//!          octets, fields as the reference codec reads them) or an error with an acceptable code }
use serde::{Deserialize, Serialize};
use sozu_lib::protocol::mux::parser as sp;

use crate::actors::h2codec::{ecode, flag, ftype, Frame, FrameHeader, RawFrame};
use crate::framework::*;
use crate::prng::{Prng, TraceHash};

#[derive(Clone, Debug, Serialize, Deserialize)]
pub struct DecPlan {
    pub seed: u64,
    /// SETTINGS_MAX_FRAME_SIZE handed to the header decoder
    pub max_frame_size: u32,
    /// byte strings, hex
    pub cases: Vec<String>,
}

fn hex(b: &[u8]) -> String { let mut s = String::with_capacity(b.len() * 2); for x in b { s.push_str(&format!("{x:02x}")); } s }
fn unhex(s: &str) -> Vec<u8> { (0..s.len() / 2).filter_map(|i| u8::from_str_radix(&s[2 * i..2 * i + 2], 16).ok()).collect() }

const TYPES: &[u8] = &[0, 1, 2, 3, 4, 5, 6, 7, 8, 9, 0x10, 0x0a, 0x11, 0xff];
const FLAGS: &[u8] = &[0, 1, 4, 5, 8, 9, 0x0c, 0x20, 0x28, 0x2d, 0x24, 0xff];
const STREAMS: &[u32] = &[0, 1, 2, 3, 5, 0x7fff_ffff, 0x8000_0000, 0x8000_0001, 0xffff_ffff];

fn gen_len(rng: &mut Prng, ty: u8, maxf: u32) -> usize {
    let m = maxf as usize;
    let common: &[usize] = &[0, 1, 3, 4, 5, 6, 7, 8, 9, 10, 12, 13, 16, 17, 24, 40];
    match rng.below(20) {
        0 => *rng.pick(&[m.saturating_sub(1), m, m + 1]),
        1 if ty == ftype::SETTINGS => *rng.pick(&[63 * 6, 64 * 6, 65 * 6, 64 * 6 + 5, 66 * 6]),
        2 if ty == 0x10 => *rng.pick(&[1027, 1028, 1029, 2000]),
        3 => rng.below(300) as usize,
        _ => *rng.pick(common),
    }
}

fn gen_payload(rng: &mut Prng, ty: u8, flags: u8, len: usize) -> Vec<u8> {
    let mut p = vec![0u8; len];
    match rng.below(4) { 0 => {} 1 => rng.fill(&mut p), 2 => { for b in p.iter_mut() { *b = 0xff; } } _ => { rng.fill(&mut p); for b in p.iter_mut() { *b &= 0x3f; } } }
    // make the pad-length octet land on its boundaries
    if flags & flag::PADDED != 0 && len > 0 && matches!(ty, 0 | 1 | 5) && rng.below(3) != 0 {
        let l = len as i64;
        let v = *rng.pick(&[0i64, 1, l - 7, l - 6, l - 5, l - 2, l - 1, l, 255]);
        p[0] = v.clamp(0, 255) as u8;
    }
    p
}

pub fn gen_case(rng: &mut Prng, maxf: u32) -> Vec<u8> {
    let mut out = Vec::new();
    let nframes = 1 + rng.below(3);
    for _ in 0..nframes {
        let ty = if rng.below(12) == 0 { rng.below(256) as u8 } else { *rng.pick(TYPES) };
        let flags = if rng.below(8) == 0 { rng.below(256) as u8 } else { *rng.pick(FLAGS) };
        let mut stream = if rng.below(6) == 0 { rng.next_u64() as u32 } else { *rng.pick(STREAMS) };
        // two times out of three the identifier obeys the type's rule, so that payload decoding is reached
        if rng.below(3) != 0 { match zero_rule(ty) { Some(true) => stream &= 0x8000_0000, Some(false) if stream & 0x7fff_ffff == 0 => stream |= 1 + 2 * rng.below(5) as u32, _ => {} } }
        let len = gen_len(rng, ty, maxf).min(70_000);
        let payload = gen_payload(rng, ty, flags, len);
        let mut declared = len as u32;
        if rng.below(10) == 0 { declared = *rng.pick(&[0u32, 1, len as u32 + 1, len.saturating_sub(1) as u32, 0xff_ffff, maxf, maxf + 1]); }
        let h = FrameHeader { len: declared, ty, flags, r: stream & 0x8000_0000 != 0, stream: stream & 0x7fff_ffff };
        out.extend_from_slice(&h.encode());
        out.extend_from_slice(&payload);
    }
    match rng.below(8) {
        0 if !out.is_empty() => { let n = rng.below(out.len() as u64) as usize; out.truncate(n); }
        1 => { let n = rng.below(12) as usize; let mut g = vec![0u8; n]; rng.fill(&mut g); out.extend_from_slice(&g); }
        2 if !out.is_empty() => { let i = rng.below(out.len().min(9) as u64) as usize; out[i] ^= 1 << rng.below(8); }
        3 => { let n = rng.below(9) as usize; out.truncate(n); }
        _ => {}
    }
    out
}

pub fn generate(seed: u64, tier: Tier) -> DecPlan {
    let mut rng = Prng::derive(seed, "c15/decoder");
    let max_frame_size = *rng.pick(&[16384u32, 16384, 16384, 16384, 16384, 16385, 20000, 100, 0, 0xff_ffff]);
    let n = match tier { Tier::Quick => 24, Tier::Thorough => 48 };
    let cases = (0..n).map(|_| hex(&gen_case(&mut rng, max_frame_size))).collect();
    DecPlan { seed, max_frame_size, cases }
}

/// error code reported by sozu's decoder: `Some(code)` for an H2 error, `None` for a bare nom error
/// (h2.rs maps those to PROTOCOL_ERROR)
fn kind_code(k: &sp::ParserErrorKind) -> Option<u32> { match k { sp::ParserErrorKind::H2(e) => Some(*e as u32), sp::ParserErrorKind::Nom(_) => None } }

/// RFC 9113 stream-identifier rule of a frame type: Some(true) = must be 0, Some(false) = must not be 0
fn zero_rule(ty: u8) -> Option<bool> {
    match ty {
        ftype::DATA | ftype::HEADERS | ftype::PRIORITY | ftype::RST_STREAM | ftype::PUSH_PROMISE | ftype::CONTINUATION => Some(false),
        ftype::SETTINGS | ftype::PING | ftype::GOAWAY | 0x10 => Some(true),
        _ => None,
    }
}

fn type_matches(ft: &sp::FrameType, ty: u8) -> bool {
    use sp::FrameType as T;
    match ft {
        T::Data => ty == 0, T::Headers => ty == 1, T::Priority => ty == 2, T::RstStream => ty == 3, T::Settings => ty == 4, T::PushPromise => ty == 5,
        T::Ping => ty == 6, T::GoAway => ty == 7, T::WindowUpdate => ty == 8, T::Continuation => ty == 9, T::PriorityUpdate => ty == 0x10, T::Unknown(t) => *t == ty && (ty > 9 && ty != 0x10),
    }
}

pub struct CaseResult {
    pub violations: Vec<Violation>,
    pub frames_ok: u64,
    pub header_errs: u64,
    pub body_errs: u64,
    pub short: u64,
}

/// acceptable error codes for the payload of a frame whose header was accepted (empty = must decode)
fn body_expect(h: &FrameHeader, p: &[u8]) -> (Vec<u32>, Option<Frame>, bool) {
    // third member: "decoder may also reject": sozu-side documented strictness (never push, caps)
    let raw = RawFrame { head: *h, payload: p.to_vec(), at: 0 };
    if h.ty == 0x10 {
        // RFC 9218 §7.1: at least the 4-octet prioritized stream id
        if p.len() < 4 { return (vec![ecode::FRAME_SIZE_ERROR], None, false); }
        return (vec![], None, p.len() - 4 > 1024);
    }
    match Frame::parse(&raw) {
        Ok(f) => {
            let may_reject = match &f {
                // RFC 9113 §8.4: a PUSH_PROMISE is always a connection error for a peer that never enabled push
                Frame::PushPromise { .. } => true,
                // parser.rs documents a cap of 64 entries per SETTINGS frame
                Frame::Settings { params, .. } => params.len() > 64,
                _ => false,
            };
            (vec![], Some(f), may_reject)
        }
        Err(e) => {
            let mut codes = vec![e.code];
            // "too small to contain mandatory frame data": §4.2 says FRAME_SIZE_ERROR, the per-frame text
            // of a pad length / priority block that does not fit says PROTOCOL_ERROR
            if matches!(h.ty, 0 | 1 | 5) && (h.flags & (flag::PADDED | flag::PRIORITY) != 0) { codes = vec![ecode::FRAME_SIZE_ERROR, ecode::PROTOCOL_ERROR]; }
            if h.ty == 5 { codes = vec![ecode::FRAME_SIZE_ERROR, ecode::PROTOCOL_ERROR]; }
            (codes, None, false)
        }
    }
}

fn cmp_frame(f: &Frame, h: &FrameHeader, sf: &sp::Frame, v: &mut Vec<String>) {
    let padded = h.flags & flag::PADDED != 0;
    match (f, sf) {
        (Frame::Data { stream, end_stream, data, .. }, sp::Frame::Data(d)) => {
            if d.stream_id != *stream || d.end_stream != *end_stream { v.push(format!("DATA stream/end_stream {}/{} vs {}/{}", d.stream_id, d.end_stream, stream, end_stream)); }
            let start = if padded { 1 } else { 0 };
            if d.payload.len as usize != data.len() || (d.payload.len > 0 && d.payload.start != start) { v.push(format!("DATA content slice start={} len={} expected start={start} len={}", d.payload.start, d.payload.len, data.len())); }
        }
        (Frame::Headers { stream, end_stream, end_headers, priority, fragment, .. }, sp::Frame::Headers(x)) => {
            if x.stream_id != *stream || x.end_stream != *end_stream || x.end_headers != *end_headers { v.push("HEADERS stream/flags differ".into()); }
            let start = if padded { 1 } else { 0 } + if priority.is_some() { 5 } else { 0 };
            if x.header_block_fragment.len as usize != fragment.len() || (x.header_block_fragment.len > 0 && x.header_block_fragment.start != start) { v.push(format!("HEADERS fragment slice start={} len={} expected start={start} len={}", x.header_block_fragment.start, x.header_block_fragment.len, fragment.len())); }
            match (priority, &x.priority) {
                (None, None) => {}
                (Some(p), Some(sp::PriorityPart::Rfc7540 { stream_dependency, weight })) => { if stream_dependency.exclusive != p.exclusive || stream_dependency.stream_id != p.dep || *weight != p.weight { v.push("HEADERS priority fields differ".into()); } }
                _ => v.push("HEADERS priority presence differs".into()),
            }
        }
        (Frame::Priority { stream, pri }, sp::Frame::Priority(x)) => {
            let ok = x.stream_id == *stream && matches!(&x.inner, sp::PriorityPart::Rfc7540 { stream_dependency, weight } if stream_dependency.exclusive == pri.exclusive && stream_dependency.stream_id == pri.dep && *weight == pri.weight);
            if !ok { v.push("PRIORITY fields differ".into()); }
        }
        (Frame::RstStream { stream, code }, sp::Frame::RstStream(x)) => { if x.stream_id != *stream || x.error_code != *code { v.push("RST_STREAM fields differ".into()); } }
        (Frame::Settings { ack, params }, sp::Frame::Settings(x)) => {
            let got: Vec<(u16, u32)> = x.settings.iter().map(|s| (s.identifier, s.value)).collect();
            if x.ack != *ack || &got != params { v.push(format!("SETTINGS differ: {} entries vs {}", got.len(), params.len())); }
        }
        (Frame::Ping { ack, data }, sp::Frame::Ping(x)) => { if x.ack != *ack || &x.payload != data { v.push("PING fields differ".into()); } }
        (Frame::GoAway { last_stream, code, debug }, sp::Frame::GoAway(x)) => {
            if x.last_stream_id != *last_stream || x.error_code != *code || x.additional_debug_data.len as usize != debug.len() || (!debug.is_empty() && x.additional_debug_data.start != 8) { v.push("GOAWAY fields differ".into()); }
        }
        (Frame::WindowUpdate { stream, increment }, sp::Frame::WindowUpdate(x)) => { if x.stream_id != *stream || x.increment != *increment { v.push(format!("WINDOW_UPDATE {}/{} vs {}/{}", x.stream_id, x.increment, stream, increment)); } }
        (Frame::Continuation { .. }, sp::Frame::Continuation(_)) => {}
        (Frame::Unknown { ty, .. }, sp::Frame::Unknown(t)) => { if ty != t { v.push("unknown type byte differs".into()); } }
        (a, b) => v.push(format!("decoded as a different frame kind: reference {:?} vs sozu {:?}", std::mem::discriminant(a), std::mem::discriminant(b))),
    }
}

pub fn run_case(bytes: &[u8], maxf: u32, th: &mut TraceHash) -> CaseResult {
    let mut r = CaseResult { violations: vec![], frames_ok: 0, header_errs: 0, body_errs: 0, short: 0 };
    let mut pos = 0usize;
    let mut viol = |class: &str, key: String, detail: String, r: &mut CaseResult| { if r.violations.len() < 4 { r.violations.push(Violation::new(class, key, detail)); } };
    for _ in 0..64 {
        let left = &bytes[pos..];
        if left.is_empty() { break; }
        // ---------------- header
        let hres = sp::frame_header(left, maxf);
        if left.len() < 9 {
            r.short += 1;
            th.mix(0xD0 ^ left.len() as u64);
            if hres.is_ok() { viol("decoder_overread", "header|short_input".into(), format!("frame_header accepted {} octets", left.len()), &mut r); }
            break;
        }
        let h = FrameHeader::decode(left);
        let mut want: Vec<u32> = Vec::new();
        if h.len > maxf { want.push(ecode::FRAME_SIZE_ERROR); }
        match zero_rule(h.ty) { Some(true) if h.stream != 0 => want.push(ecode::PROTOCOL_ERROR), Some(false) if h.stream == 0 => want.push(ecode::PROTOCOL_ERROR), _ => {} }
        let tname = crate::actors::h2codec::type_name(h.ty);
        let sh = match hres {
            Ok((rest, sh)) => {
                th.mix(0xD1 ^ ((h.ty as u64) << 8) ^ ((h.len as u64) << 16));
                if !want.is_empty() { viol("decoder_accepts_invalid", format!("header|{tname}|{}", if h.len > maxf { "oversize" } else { "stream_id_rule" }), format!("frame_header accepted len={} type={} stream={} (max_frame_size {maxf})", h.len, h.ty, h.stream), &mut r); break; }
                if rest.len() != left.len() - 9 { viol("decoder_consumed_wrong", "header".into(), format!("frame_header left {} of {} octets", rest.len(), left.len()), &mut r); break; }
                if sh.payload_len != h.len || sh.flags != h.flags || sh.stream_id != h.stream || !type_matches(&sh.frame_type, h.ty) {
                    viol("decoder_field_mismatch", format!("header|{tname}"), format!("decoded {:?}, reference {:?}", sh, h), &mut r);
                    break;
                }
                sh
            }
            Err(e) => {
                let mut code = None;
                let _ = e.map(|pe| { code = kind_code(&pe.kind); pe });
                r.header_errs += 1;
                th.mix(0xD2 ^ code.unwrap_or(0xff) as u64);
                if want.is_empty() { viol("decoder_rejects_valid", format!("header|{tname}"), format!("frame_header rejected len={} type={} flags={:#x} stream={} with {:?} (max_frame_size {maxf})", h.len, h.ty, h.flags, h.stream, code), &mut r); }
                else if !want.contains(&code.unwrap_or(ecode::PROTOCOL_ERROR)) { viol("decoder_wrong_error", format!("header|{tname}"), format!("error {:?}, acceptable {:?}", code, want), &mut r); }
                break;
            }
        };
        // ---------------- payload
        let body = &left[9..];
        let bres = sp::frame_body(body, &sh);
        if body.len() < h.len as usize {
            r.short += 1;
            th.mix(0xD3);
            if let Ok((rest, _)) = &bres { viol("decoder_overread", format!("body|{tname}|short_input"), format!("frame_body accepted a {}-octet payload with only {} octets present (left {})", h.len, body.len(), rest.len()), &mut r); }
            break;
        }
        let payload = &body[..h.len as usize];
        let (codes, reference, may_reject) = body_expect(&h, payload);
        match bres {
            Ok((rest, sf)) => {
                th.mix(0xD4 ^ ((h.ty as u64) << 8));
                if rest.len() != body.len() - h.len as usize { viol("decoder_consumed_wrong", format!("body|{tname}"), format!("frame_body consumed {} octets, declared payload {}", body.len() - rest.len(), h.len), &mut r); break; }
                if !codes.is_empty() { viol("decoder_accepts_invalid", format!("body|{tname}"), format!("frame_body accepted flags={:#x} len={} (reference: error {:?})", h.flags, h.len, codes), &mut r); break; }
                if let Some(f) = &reference {
                    let mut diffs = Vec::new();
                    cmp_frame(f, &h, &sf, &mut diffs);
                    if !diffs.is_empty() { viol("decoder_field_mismatch", format!("body|{tname}"), format!("flags={:#x} len={}: {}", h.flags, h.len, diffs.join("; ")), &mut r); break; }
                } else if h.ty == 0x10 {
                    match &sf {
                        sp::Frame::PriorityUpdate(pu) => {
                            let id = u32::from_be_bytes([payload[0], payload[1], payload[2], payload[3]]) & 0x7fff_ffff;
                            if pu.prioritized_stream_id != id || pu.priority_field_value != payload[4..] { viol("decoder_field_mismatch", "body|PRIORITY_UPDATE".into(), "fields differ".into(), &mut r); break; }
                        }
                        _ => { viol("decoder_field_mismatch", "body|PRIORITY_UPDATE".into(), "decoded as another kind".into(), &mut r); break; }
                    }
                }
                r.frames_ok += 1;
                pos += 9 + h.len as usize;
            }
            Err(e) => {
                let mut code = None;
                let _ = e.map(|pe| { code = kind_code(&pe.kind); pe });
                r.body_errs += 1;
                th.mix(0xD5 ^ ((h.ty as u64) << 8) ^ code.unwrap_or(0xff) as u64);
                if codes.is_empty() {
                    if !may_reject { viol("decoder_rejects_valid", format!("body|{tname}"), format!("frame_body rejected flags={:#x} len={} with {:?}", h.flags, h.len, code), &mut r); }
                } else if !codes.contains(&code.unwrap_or(ecode::PROTOCOL_ERROR)) {
                    viol("decoder_wrong_error", format!("body|{tname}"), format!("flags={:#x} len={}: error {:?}, acceptable {:?}", h.flags, h.len, code, codes), &mut r);
                }
                break;
            }
        }
    }
    r
}

pub fn run(p: &DecPlan) -> RunReport {
    let mut th = TraceHash::new();
    let mut rep = RunReport { seed: p.seed, family: "decoder".into(), ..Default::default() };
    let (mut ok, mut he, mut be, mut short) = (0u64, 0u64, 0u64, 0u64);
    let maxf = p.max_frame_size;
    for (i, c) in p.cases.iter().enumerate() {
        let bytes = unhex(c);
        th.mix(0xC0 ^ bytes.len() as u64);
        th.mix_bytes(&bytes[..bytes.len().min(64)]);
        // a panic inside the decoder is a violation, not a harness crash
        let res = std::panic::catch_unwind(std::panic::AssertUnwindSafe(|| { let mut t = TraceHash::new(); let r = run_case(&bytes, maxf, &mut t); (r, t.0) }));
        match res {
            Ok((r, t)) => {
                th.mix(t);
                ok += r.frames_ok; he += r.header_errs; be += r.body_errs; short += r.short;
                for mut v in r.violations { v.detail = format!("case {i} ({} octets, max_frame_size {maxf}): {}", bytes.len(), v.detail); if !rep.violations.iter().any(|x: &Violation| x.class == v.class && x.key == v.key) { rep.violations.push(v); } }
            }
            Err(pn) => {
                let msg = if let Some(s) = pn.downcast_ref::<&str>() { s.to_string() } else if let Some(s) = pn.downcast_ref::<String>() { s.clone() } else { "panic".into() };
                rep.violations.push(Violation::new("panic", "decoder", format!("case {i}: decoder panicked: {msg}")));
            }
        }
    }
    rep.trace_hash = th.0;
    rep.nontrivial = ok + he + be > 0;
    rep.probes.insert("dec_cases".into(), p.cases.len() as u64);
    rep.probes.insert("dec_frames_decoded".into(), ok);
    rep.probes.insert("dec_header_errors".into(), he);
    rep.probes.insert("dec_body_errors".into(), be);
    rep.probes.insert("dec_short_inputs".into(), short);
    rep.summary = format!("decoder: {} byte strings, max_frame_size {maxf}; {ok} frames decoded, {he} header errors, {be} payload errors, {short} short inputs", p.cases.len());
    rep
}

pub fn shrink(p: &DecPlan) -> Vec<DecPlan> {
    let mut out = Vec::new();
    if p.cases.len() > 1 {
        for i in 0..p.cases.len() { let mut q = p.clone(); q.cases = vec![p.cases[i].clone()]; out.push(q); }
    } else if let Some(c) = p.cases.first() {
        let b = unhex(c);
        // drop the first frame, or cut the tail
        if b.len() >= 9 { let l = FrameHeader::decode(&b).len as usize; if b.len() > 9 + l { let mut q = p.clone(); q.cases = vec![hex(&b[9 + l..])]; out.push(q); let mut q = p.clone(); q.cases = vec![hex(&b[..9 + l])]; out.push(q); } }
        if b.len() > 1 { let mut q = p.clone(); q.cases = vec![hex(&b[..b.len() - 1])]; out.push(q); }
    }
    out
}
