//! C10 — worker hand-over and soft stop lose no listener and cut no request.
//!
//! Tier 1 (`codec`): the fd hand-off codec (`ScmSocket::send_listeners` / `receive_listeners`) for
//! listener sets 0..200 over all address shapes, under a world with simulated addresses.
//! Tier 2 (`handover`): see c10_handover.rs (two real workers, scripted master).
use std::net::SocketAddr;
use std::os::fd::IntoRawFd;

use serde::{Deserialize, Serialize};
use serde_json::Value;
use sozu_command_lib::scm_socket::{Listeners, ScmSocket};

use crate::framework::*;
use crate::netsim;
use crate::prng::{Prng, TraceHash};
use crate::sys;
use crate::world::{SchedCfg, World};

pub struct C10;

#[derive(Clone, Debug, Serialize, Deserialize)]
pub struct CodecPlan {
    pub seed: u64,
    pub family: String,
    pub http: Vec<SocketAddr>,
    pub tls: Vec<SocketAddr>,
    pub tcp: Vec<SocketAddr>,
    pub udp: Vec<SocketAddr>,
    /// receiver reads in nonblocking mode (as the worker does after boot)
    pub nonblocking_receive: bool,
}

#[derive(Clone, Debug, Serialize, Deserialize)]

pub enum Plan {
    Codec(CodecPlan),
    Handover(super::c10_handover::HandoverPlan),
    SoftStop(super::c10_softstop::SoftStopPlan),
    Cluster(super::c10_cluster::ClusterPlanC10),
    Crash(super::c10_crash::CrashPlan),
    PlainStop(super::c10_plainstop::PlainStopPlan),
}

fn gen_addr(rng: &mut Prng, style: u64, i: usize) -> SocketAddr {
    match style {
        // shortest textual IPv4 form
        0 => format!("{}.{}.{}.{}:{}", 1 + rng.below(9), rng.below(10), rng.below(10), 1 + rng.below(9), 1 + i).parse().unwrap(),
        // longest textual IPv4 form (21 chars)
        1 => format!("{}.{}.{}.{}:{}", 100 + rng.below(155), 100 + rng.below(155), 100 + rng.below(155), 100 + rng.below(155), 10000 + i).parse().unwrap(),
        // IPv6, full length
        2 => format!("[2001:db8:{:x}:{:x}:{:x}:{:x}:{:x}:{:x}]:{}", 0x1000 + rng.below(0xefff), 0x1000 + rng.below(0xefff), 0x1000 + rng.below(0xefff), 0x1000 + rng.below(0xefff), 0x1000 + rng.below(0xefff), 0x1000 + i, 10000 + i).parse().unwrap(),
        // IPv6 short
        3 => format!("[::{:x}]:{}", 1 + i, 1 + i).parse().unwrap(),
        _ => format!("10.{}.{}.{}:{}", rng.below(256), rng.below(256), rng.below(256), 1024 + i).parse().unwrap(),
    }
}

pub fn generate_codec(seed: u64, _tier: Tier) -> CodecPlan {
    let mut rng = Prng::derive(seed, "c10/codec");
    // total up to the documented limit MAX_FDS_OUT = 200, biased to the extremes and to the byte-budget edge
    let total = match rng.below(6) { 0 => rng.below(4) as usize, 1 => 200, 2 => 150 + rng.below(51) as usize, 3 => rng.below(60) as usize, _ => rng.below(201) as usize };
    let style = rng.below(6);
    let mut p = CodecPlan { seed, family: String::new(), http: vec![], tls: vec![], tcp: vec![], udp: vec![], nonblocking_receive: rng.below(2) == 0 };
    let mix = rng.below(4);
    for i in 0..total {
        let st = if style == 5 { rng.below(5) } else { style };
        let a = gen_addr(&mut rng, st, i);
        let kind = match mix { 0 => 0, 1 => rng.below(3), 2 => rng.below(4), _ => i as u64 % 4 };
        match kind { 0 => p.http.push(a), 1 => p.tls.push(a), 2 => p.tcp.push(a), _ => p.udp.push(a) }
    }
    p.family = format!("codec_{}", ["v4short", "v4long", "v6long", "v6short", "v4", "mixed"][style as usize]);
    p
}

/// independent computation of the manifest size: protobuf `ListenersCount` = repeated string fields 1..4,
/// each entry = 1 tag byte + varint length + text; the whole message is prefixed by its varint length.
pub fn manifest_len(p: &CodecPlan) -> usize {
    let body: usize = p.http.iter().chain(p.tls.iter()).chain(p.tcp.iter()).chain(p.udp.iter()).map(|a| { let l = a.to_string().len(); 1 + if l < 128 { 1 } else { 2 } + l }).sum();
    let prefix = if body < 128 { 1 } else if body < 16384 { 2 } else { 3 };
    body + prefix
}

pub fn run_codec(p: &CodecPlan) -> RunReport {
    let p = p.clone();
    netsim::on_fresh_thread(move || {
        let mut w = World::new(p.seed, SchedCfg::default());
        World::install(&mut w);
        let mut th = TraceHash::new();
        let mut rep = RunReport { seed: p.seed, family: p.family.clone(), ..Default::default() };
        let fds_before = netsim::open_fds();
        // listening sockets bound to the simulated addresses
        let mut mk = |w: &mut World, addrs: &Vec<SocketAddr>, dgram: bool| -> Vec<(SocketAddr, i32)> {
            addrs.iter().map(|a| {
                let fd = if dgram {
                    let fd = sys::socket(libc::AF_UNIX, libc::SOCK_DGRAM | libc::SOCK_CLOEXEC, 0).expect("socket");
                    sys::bind_abstract(fd, &w.udp_name(a)).expect("bind");
                    fd
                } else { w.peer_listen(a).expect("listen") };
                (*a, fd)
            }).collect()
        };
        let sent = Listeners { http: mk(&mut w, &p.http, false), tls: mk(&mut w, &p.tls, false), tcp: mk(&mut w, &p.tcp, false), udp: mk(&mut w, &p.udp, true) };
        let (a, b) = mio::net::UnixStream::pair().expect("pair");
        let tx = ScmSocket::new(a.into_raw_fd()).expect("scm");
        let mut rx = ScmSocket::new(b.into_raw_fd()).expect("scm");
        let total = p.http.len() + p.tls.len() + p.tcp.len() + p.udp.len();
        let mlen = manifest_len(&p);
        let trig = if mlen > 4096 { "manifest_over_4096_bytes" } else { "none" };
        rep.summary = format!("{} listeners (http {} tls {} tcp {} udp {}), manifest {} bytes, {}", total, p.http.len(), p.tls.len(), p.tcp.len(), p.udp.len(), mlen, p.family);
        th.mix(total as u64); th.mix(mlen as u64);
        let send_res = tx.send_listeners(&sent);
        if let Err(e) = &send_res {
            rep.violations.push(Violation::new("send_failed", format!("send_error|{trig}"), format!("send_listeners failed for {total} listeners ({mlen} manifest bytes): {e}")));
        }
        if p.nonblocking_receive { let _ = rx.set_blocking(false); }
        let mut received_fds: Vec<i32> = Vec::new();
        if send_res.is_ok() {
            match rx.receive_listeners() {
                Ok(got) => {
                    th.mix(1);
                    let cmp = |name: &str, s: &Vec<(SocketAddr, i32)>, g: &Vec<(SocketAddr, i32)>, v: &mut Vec<Violation>| {
                        if s.len() != g.len() || s.iter().zip(g.iter()).any(|(x, y)| x.0 != y.0) {
                            v.push(Violation::new("listener_lost", format!("{name}_list_differs|{trig}"), format!("{name}: sent {} addresses, received {} ({:?} ...)", s.len(), g.len(), g.first())));
                        }
                        for (addr, fd) in g {
                            let name_ok = sys::getsockname_un(*fd).ok().and_then(|n| World::parse_name(&n));
                            if name_ok != Some(*addr) {
                                v.push(Violation::new("fd_address_mismatch", format!("{name}|{trig}"), format!("{name}: received fd {fd} for {addr} is bound to {name_ok:?}")));
                            }
                        }
                    };
                    cmp("http", &sent.http, &got.http, &mut rep.violations);
                    cmp("tls", &sent.tls, &got.tls, &mut rep.violations);
                    cmp("tcp", &sent.tcp, &got.tcp, &mut rep.violations);
                    cmp("udp", &sent.udp, &got.udp, &mut rep.violations);
                    for l in [&got.http, &got.tls, &got.tcp, &got.udp] { for (_, fd) in l.iter() { received_fds.push(*fd); } }
                }
                Err(e) => {
                    th.mix(2);
                    rep.violations.push(Violation::new("scm_manifest_truncated", format!("receive_error|{trig}"), format!("receive_listeners failed for {total} listeners within the documented limit of 200 ({mlen} manifest bytes, receive buffer 4096): {e}")));
                }
            }
        }
        // fd audit: everything we created or received is known; anything else still open was leaked by the codec
        let mut known: Vec<i32> = fds_before.clone();
        for l in [&sent.http, &sent.tls, &sent.tcp, &sent.udp] { for (_, fd) in l.iter() { known.push(*fd); } }
        known.push(tx.raw_fd()); known.push(rx.raw_fd());
        known.extend(received_fds.iter());
        let now = netsim::open_fds();
        let leaked: Vec<i32> = now.iter().filter(|fd| !known.contains(fd)).copied().collect();
        if !leaked.is_empty() {
            rep.violations.push(Violation::new("fd_leak", format!("after_receive|{trig}"), format!("{} descriptor(s) installed by recvmsg were neither returned nor closed", leaked.len())));
        }
        rep.probes.insert(format!("manifest_{}", if mlen > 4096 { "over_4096" } else if mlen > 3500 { "3500_4096" } else { "small" }), 1);
        rep.probes.insert("listeners_total".into(), total as u64);
        // cleanup
        for fd in leaked.iter().chain(received_fds.iter()) { sys::close(*fd); }
        for l in [&sent.http, &sent.tls, &sent.tcp, &sent.udp] { for (_, fd) in l.iter() { sys::close(*fd); } }
        sys::close(tx.raw_fd()); sys::close(rx.raw_fd());
        World::uninstall();
        rep.nontrivial = total > 0;
        rep.trace_hash = th.0 ^ (rep.violations.len() as u64);
        rep
    })
}

impl Property for C10 {
    fn id(&self) -> &'static str { "C10" }
    fn runs(&self, tier: Tier) -> u64 { match tier { Tier::Quick => 1500, Tier::Thorough => 20000 } }
    fn gen_plan(&self, seed: u64, tier: Tier) -> Value {
        let mut rng = Prng::derive(seed, "c10/tier");
        let f = rng.below(4);
        // one plan in eight: the real main process orchestrates the upgrade of a real worker (c10_cluster.rs)
        match rng.below(16) {
            0 | 1 => return serde_json::to_value(Plan::Cluster(super::c10_cluster::generate(seed, tier))).unwrap(),
            // one plan in sixteen: the worker crashes and the real main process restarts one (c10_crash.rs)
            2 => return serde_json::to_value(Plan::Crash(super::c10_crash::generate(seed, tier))).unwrap(),
            // one plan in sixteen: plain SoftStop with requests in flight and connection attempts during the drain (c10_plainstop.rs)
            3 => return serde_json::to_value(Plan::PlainStop(super::c10_plainstop::generate(seed, tier))).unwrap(),
            _ => {}
        }
        if f == 3 { return serde_json::to_value(Plan::SoftStop(super::c10_softstop::generate(seed, tier))).unwrap(); }
        if f == 0 { serde_json::to_value(Plan::Codec(generate_codec(seed, tier))).unwrap() } else { serde_json::to_value(Plan::Handover(super::c10_handover::generate(seed, tier))).unwrap() }
    }
    fn run_plan(&self, plan: &Value) -> RunReport {
        match serde_json::from_value::<Plan>(plan.clone()) {
            Ok(Plan::Codec(p)) => run_codec(&p),
            Ok(Plan::Handover(p)) => super::c10_handover::run(&p, false).0,
            Ok(Plan::SoftStop(p)) => super::c10_softstop::run(&p, false).0,
            Ok(Plan::Cluster(p)) => super::c10_cluster::run(&p, false).0,
            Ok(Plan::Crash(p)) => super::c10_crash::run(&p, false).0,
            Ok(Plan::PlainStop(p)) => super::c10_plainstop::run(&p, false).0,
            Err(e) => RunReport { harness_error: Some(format!("bad plan: {e}")), ..Default::default() },
        }
    }
    fn shrink(&self, plan: &Value) -> Vec<Value> {
        match serde_json::from_value::<Plan>(plan.clone()) {
            Ok(Plan::Codec(p)) => {
                let mut out = Vec::new();
                for which in 0..4 {
                    let mut q = p.clone();
                    let l = match which { 0 => &mut q.http, 1 => &mut q.tls, 2 => &mut q.tcp, _ => &mut q.udp };
                    if l.is_empty() { continue; }
                    let half = l.len() / 2; l.truncate(half);
                    out.push(serde_json::to_value(Plan::Codec(q)).unwrap());
                    let mut q = p.clone();
                    let l = match which { 0 => &mut q.http, 1 => &mut q.tls, 2 => &mut q.tcp, _ => &mut q.udp };
                    l.pop();
                    out.push(serde_json::to_value(Plan::Codec(q)).unwrap());
                }
                out
            }
            Ok(Plan::Handover(p)) => super::c10_handover::shrink(&p).into_iter().map(|q| serde_json::to_value(Plan::Handover(q)).unwrap()).collect(),
            Ok(Plan::SoftStop(p)) => super::c10_softstop::shrink(&p).into_iter().map(|q| serde_json::to_value(Plan::SoftStop(q)).unwrap()).collect(),
            Ok(Plan::Cluster(p)) => super::c10_cluster::shrink(&p).into_iter().map(|q| serde_json::to_value(Plan::Cluster(q)).unwrap()).collect(),
            Ok(Plan::Crash(p)) => super::c10_crash::shrink(&p).into_iter().map(|q| serde_json::to_value(Plan::Crash(q)).unwrap()).collect(),
            Ok(Plan::PlainStop(p)) => super::c10_plainstop::shrink(&p).into_iter().map(|q| serde_json::to_value(Plan::PlainStop(q)).unwrap()).collect(),
            _ => vec![],
        }
    }
    fn debug_plan(&self, plan: &Value) -> String {
        match serde_json::from_value::<Plan>(plan.clone()) {
            Ok(Plan::Handover(p)) => super::c10_handover::run(&p, true).1,
            Ok(Plan::SoftStop(p)) => super::c10_softstop::run(&p, true).1,
            Ok(Plan::Cluster(p)) => super::c10_cluster::run(&p, true).1,
            Ok(Plan::Crash(p)) => super::c10_crash::run(&p, true).1,
            Ok(Plan::PlainStop(p)) => super::c10_plainstop::run(&p, true).1,
            Ok(Plan::Codec(p)) => serde_json::to_string_pretty(&run_codec(&p)).unwrap(),
            Err(e) => e.to_string(),
        }
    }
    fn descr(&self) -> Descr {
        Descr {
            level: "exploration",
            rule: "six plan families: (crash_restart) a real worker crashed by the simulator under traffic, the real main process restarts one from the state file (c10_crash.rs); (plainstop) plain SoftStop with requests in flight and connection attempts during the drain (c10_plainstop.rs); (cluster) the real main process and real workers in one simulation, UpgradeWorker sent by a scripted CLI client at a seeded moment relative to client traffic (c10_cluster.rs); (softstop) mixed-protocol scenario (HTTP/2 client over real TLS, sometimes an H1 client, H1 backend, trigger-free C14 plans) with SoftStop sent at a seeded moment inside the transfers and h2_graceful_shutdown_deadline_seconds unset/0/30/120: every request the client managed to send completes byte-exactly unless explicitly refused as retryable, SoftStop is answered OK once and the worker returns, after which the peers drain their socket buffers; (codec) listener sets of 0..200 addresses of every textual shape (shortest/longest IPv4, IPv6, mixes over http/tls/tcp/udp) sent with the real ScmSocket::send_listeners and read back with the real receive_listeners, each returned fd checked against its address through getsockname, plus an fd-table audit; (handover) two real workers in one simulation with a scripted master replaying the upgrade sequence at a PRNG-chosen moment relative to client activity; non-trivial = at least one listener / one request; distinct = trace hashes",
            assumptions: vec!["AF_UNIX listening sockets with simulated addresses stand in for TCP listeners", "release semantics"],
            real: vec!["cluster family: sozu::command::server::CommandHub::run, launch_new_worker / fork_main_into_worker (parent branch), bin/src/command/upgrade.rs, sozu::worker::begin_worker_process, two Server::run loops", "sozu_command_lib::scm_socket (SCM_RIGHTS over a real unix socket pair)", "two sozu_lib::server::Server::run loops (handover family)", "one Server::run with rustls on both sides (softstop family)"],
            stub: vec!["master process in the handover/softstop families (scripted: ReturnListenSockets -> receive -> boot successor -> SoftStop + activate)", "fork/exec (cluster family: a thread stands in for the exec'd child and receives duplicates of the inherited descriptors)", "CLI client", "clients", "backends", "clock", "entropy"],
            not_covered: vec!["old worker crashing in the middle of a hand-over (crashes are injected outside hand-overs)", "main-process upgrade (fork_main_into_new_main)", "HTTPS/TCP/UDP listeners in the cluster family", "SO_REUSEPORT balancing"],
        }
    }
}
