//! C19 shell tier (netsim): the real worker with UDP listeners, clusters, frontends and backends under the libc
//! seam; scripted UDP clients and backends as simulator actors; master commands at seeded virtual times.
//! This file: plan, generator, runner, shrinker. Peers: c19_peers.rs. Oracle: c19_judge.rs.
#![allow(dead_code)]

use std::net::SocketAddr;

use serde::{Deserialize, Serialize};
use sozu_command_lib::{
    proto::command::{
        request::RequestType, ActivateListener, AddBackend, Cluster, DeactivateListener, ListenerType, LoadBalancingParams, RemoveBackend, RemoveListener, Request,
        RequestUdpFrontend, ResponseStatus, SoftStop, UdpClusterConfig, UdpListenerConfig, UpdateUdpListenerConfig,
    },
    scm_socket::Listeners,
    state::ConfigState,
};

use super::peers::*;
use crate::actors::master::{MOp, Master};
use crate::framework::Tier;
use crate::netsim::{self, Knobs};
use crate::prng::Prng;
use crate::world::{SchedCfg, Stats, UdpEv, World, MS, SEC};

pub const US: u64 = 1_000;

// =========================================================================== plan

#[derive(Clone, Debug, Serialize, Deserialize, PartialEq)]
pub struct Lst {
    pub addr: SocketAddr,
    pub front_s: u32,
    pub back_s: u32,
    pub max_rx: u32,
    pub max_flows: u32,
    pub cluster: usize,
}

#[derive(Clone, Debug, Serialize, Deserialize, PartialEq)]
pub struct Knob { pub with_port: bool, pub responses: u32, pub requests: u32, pub pp: bool, pub pp_every: bool }

#[derive(Clone, Debug, Serialize, Deserialize, PartialEq)]
pub struct Clu {
    pub id: String,
    /// LoadBalancingAlgorithms value (0 round robin, 1 random, 4 HRW, 5 Maglev)
    pub lb: i32,
    pub knob: Knob,
    pub backends: Vec<BkPlan>,
    /// which of `backends` are configured from the start (the others only by an AddBackend command)
    pub initial: Vec<bool>,
}

#[derive(Clone, Debug, Serialize, Deserialize, PartialEq)]
pub enum CmdKind {
    AddBackend { clu: usize, bk: usize },
    RemoveBackend { clu: usize, bk: usize },
    UpdateListener { lst: usize, max_flows: Option<u32>, max_rx: Option<u32>, front_s: Option<u32>, back_s: Option<u32> },
    /// AddCluster again with other teardown / PROXY knobs (the affinity key stays: see the recorded finding U1)
    Recluster { clu: usize, knob: Knob },
    Deactivate { lst: usize },
    // ---- configuration life cycles (removal, then re-creation under the same identity)
    RemoveCluster { clu: usize },
    /// RemoveUdpFrontend of listener `lst` (currently routed to cluster `clu`)
    RemoveFrontend { lst: usize, clu: usize },
    AddFrontend { lst: usize, clu: usize },
    RemoveListener { lst: usize },
    /// AddUdpListener with the plan's parameters of listener `lst` (a new listener object at the same address)
    AddListener { lst: usize },
    Activate { lst: usize },
}

/// Plan-level word for the keys: which removal / re-creation life cycles the command script contains.
pub fn lifecycle_of(p: &NetPlan) -> String {
    let has = |f: &dyn Fn(&CmdKind) -> bool| p.cmds.iter().any(|c| f(&c.kind));
    let mut w: Vec<&str> = Vec::new();
    if has(&|k| matches!(k, CmdKind::RemoveCluster { .. })) { w.push("cluster_removed"); }
    if has(&|k| matches!(k, CmdKind::RemoveFrontend { .. })) { w.push("frontend_removed"); }
    if has(&|k| matches!(k, CmdKind::RemoveListener { .. } | CmdKind::AddListener { .. })) { w.push("listener_removed"); }
    if has(&|k| matches!(k, CmdKind::RemoveBackend { .. })) { w.push("backend_removed"); }
    if w.is_empty() { "none".into() } else { w.join("+") }
}
#[derive(Clone, Debug, Serialize, Deserialize, PartialEq)]
pub struct Cmd { pub at: u64, pub kind: CmdKind }

#[derive(Clone, Copy, Debug, Serialize, Deserialize, PartialEq)]
pub enum End { HardStop, SoftStop }

#[derive(Clone, Debug, Serialize, Deserialize)]
pub struct NetPlan {
    pub seed: u64,
    pub family: String,
    pub v6: bool,
    pub sched: SchedCfg,
    pub udp_icmp: bool,
    pub udp_eagain_pm: u32,
    /// unread datagrams at a peer's socket that make the worker's next send to it report EAGAIN (simulated send buffer)
    pub udp_qlimit: usize,
    /// AddUdpFrontend before AddCluster (either order must work)
    pub front_first: bool,
    /// every flow activity of the plan falls 55..97 ms after a multiple of 100 ms of virtual time (see `timer_phase`)
    pub late_phase: bool,
    pub listeners: Vec<Lst>,
    pub clusters: Vec<Clu>,
    pub clients: Vec<CliPlan>,
    pub rounds: Vec<Round>,
    pub cmds: Vec<Cmd>,
    pub end: End,
    pub tail_ns: u64,
}

/// Plan-level trigger word of the idle-reaping verdicts (recorded finding C19-U2), computed from the plan only.
/// The worker's timer wheel ticks every 100 ms and rounds a deadline to the *nearest* tick, so a timer can be
/// delivered up to 50 ms before its deadline whenever the event loop wakes up in that window: at the tick boundary
/// itself when the deadline lies 0..50 ms behind it, or at any other wake-up (a network or channel event, the
/// one-second `poll_timeout` wake-up counted from the loop's last iteration) otherwise. The UDP idle timer does not
/// survive an early delivery. A plan is free of that trigger (`no_early_timer_poll`) when, on the virtual time axis,
/// every instant at which the plan makes something happen (datagram rounds, commands, the end of a peer's stall)
/// lies 52..98 ms behind a multiple of 100 ms and these phases never decrease from one instant to the next across a
/// gap of 40 ms or more (they grow by at least 0.3 ms), and no backend answers late or unasked: every idle deadline
/// (activity + whole seconds) then rounds up to the next tick, and the only wake-ups between 50 ms behind a tick and
/// that deadline are anchored at later activity, whose phase is larger than the deadline's.
pub fn timer_phase(p: &NetPlan) -> &'static str {
    let mut inst: Vec<u64> = Vec::new();
    for r in &p.rounds { if let RoundKind::Send(v) = &r.kind { if !v.is_empty() { inst.push(r.at); } } }
    for c in &p.cmds { inst.push(c.at); }
    let mut quiet_backends = true;
    for c in &p.clusters { for b in &c.backends {
        if let Some((_, e)) = b.stall { inst.push(e); }
        if (b.late_pm > 0 && b.replies > 0) || !b.unsolicited.is_empty() { quiet_backends = false; }
    } }
    for c in &p.clients { if let Some((_, e)) = c.stall { inst.push(e); } }
    inst.sort();
    let ph = |t: u64| t % (100 * MS);
    let mut ok = quiet_backends && inst.iter().all(|t| ph(*t) >= 52 * MS && ph(*t) <= 98 * MS);
    for w in inst.windows(2) {
        let (a, b) = (w[0], w[1]);
        if b - a < 40 * MS { ok &= ph(b) >= ph(a); } else { ok &= ph(b) >= ph(a) + 300 * US; }
    }
    if ok { "no_early_timer_poll" } else { "early_timer_poll" }
}

pub fn tag_of(p: &NetPlan) -> u16 { (p.seed ^ (p.seed >> 16) ^ (p.seed >> 32)) as u16 | 1 }

// =========================================================================== generator

fn lst_addr(v6: bool, i: usize) -> SocketAddr {
    if v6 { format!("[fd00:0:0:1::{:x}]:{}", i + 1, 5300 + i).parse().unwrap() } else { format!("10.0.0.{}:{}", i + 1, 5300 + i).parse().unwrap() }
}
fn bk_addr(v6: bool, c: usize, b: usize) -> SocketAddr {
    if v6 { format!("[fd00:0:0:2:{:x}::{:x}]:{}", c + 1, b + 1, 6000 + 10 * c + b).parse().unwrap() } else { format!("10.1.{}.{}:{}", c + 1, b + 1, 6000 + 10 * c + b).parse().unwrap() }
}
fn cli_addr(v6: bool, ip: usize, port: usize) -> SocketAddr {
    if v6 { format!("[fd00:0:0:3::{:x}]:{}", ip + 10, 41000 + port).parse().unwrap() } else { format!("192.0.2.{}:{}", ip + 10, 41000 + port).parse().unwrap() }
}

fn pick_len(rng: &mut Prng, max_rx: usize) -> usize {
    match rng.below(30) {
        0 => 0,
        1 | 2 => max_rx,
        3 => max_rx + 1,
        4 => max_rx + 1 + rng.below(40) as usize,
        5 => max_rx.saturating_sub(1).max(HDR),
        6 | 7 => (HDR as u64 + rng.below(max_rx.saturating_sub(HDR) as u64 + 1)) as usize,
        _ => (HDR as u64 + rng.below(40)) as usize,
    }
}

fn gen_knob(rng: &mut Prng, with_port: bool) -> Knob {
    let (pp, pp_every) = *rng.pick(&[(false, false), (false, false), (true, false), (true, true)]);
    Knob { with_port, responses: *rng.pick(&[0u32, 0, 0, 1, 2, 3]), requests: *rng.pick(&[0u32, 0, 0, 0, 1, 2, 5]), pp, pp_every }
}

pub fn generate(seed: u64, tier: Tier) -> NetPlan {
    let mut rng = Prng::derive(seed, "c19/net");
    let v6 = rng.below(5) == 0;
    let n_lst = *rng.pick(&[1usize, 1, 1, 2, 2, 3]);
    let n_clu = if n_lst == 1 { 1 } else { *rng.pick(&[1usize, 2]) };
    let mut g = 0u8;
    let mut clusters: Vec<Clu> = Vec::new();
    let max_rx_choices = [64u32, 200, 512, 1500];
    let mut listeners: Vec<Lst> = Vec::new();
    for i in 0..n_lst {
        let front_s = *rng.pick(&[1u32, 1, 2, 3, 5]);
        let back_s = if rng.below(3) == 0 { *rng.pick(&[1u32, 2, 4]) } else { front_s };
        listeners.push(Lst { addr: lst_addr(v6, i), front_s, back_s, max_rx: *rng.pick(&max_rx_choices), max_flows: *rng.pick(&[1u32, 2, 2, 3, 3, 4, 64]), cluster: if i < n_clu { i } else { rng.below(n_clu as u64) as usize } });
    }
    for c in 0..n_clu {
        let nb = *rng.pick(&[1usize, 2, 2, 3]);
        let rx: Vec<usize> = listeners.iter().filter(|l| l.cluster == c).map(|l| l.max_rx as usize).collect();
        let mut backends = Vec::new();
        for b in 0..nb {
            let mut reply_lens: Vec<usize> = (0..4).map(|_| HDR + rng.below(50) as usize).collect();
            if rng.below(3) == 0 { let m = *rng.pick(&rx); reply_lens.push(m); reply_lens.push(m + 1); }
            backends.push(BkPlan {
                g, id: format!("c{c}-b{b}"), addr: bk_addr(v6, c, b), bound: rng.below(7) != 0,
                replies: *rng.pick(&[1u8, 1, 1, 1, 0, 2, 2]), reply_lens,
                late_pm: *rng.pick(&[0u32, 0, 0, 300, 1000]), late_ns: *rng.pick(&[50 * US, 5 * MS, 400 * MS, 1500 * MS]),
                stall: None, close_at: None, unsolicited: Vec::new(),
            });
            g += 1;
        }
        let mut initial: Vec<bool> = (0..nb).map(|_| rng.below(5) != 0).collect();
        if !initial.iter().any(|x| *x) { initial[0] = true; }
        clusters.push(Clu { id: format!("udp{c}"), lb: *rng.pick(&[0i32, 0, 4, 4, 5, 1]), knob: gen_knob(&mut rng, rng_bool(seed, c)), backends, initial });
    }
    // clients: a few addresses sharing a small pool of IPs
    // two plans in five carry a configuration life cycle; their last client stays silent until the re-creation
    let lifecycle = rng.below(5) < 2;
    let n_cli = if lifecycle { rng.range(3, 6) as usize } else { rng.range(2, 6) as usize };
    let pool = if lifecycle { n_cli - 1 } else { n_cli };
    let n_ip = *rng.pick(&[1usize, 2, 2, 3]);
    let clients: Vec<CliPlan> = (0..n_cli).map(|i| CliPlan { addr: cli_addr(v6, i % n_ip, i), stall: None }).collect();
    let home: Vec<usize> = (0..n_cli).map(|i| if rng.below(4) == 0 { rng.below(n_lst as u64) as usize } else { i % n_lst }).collect();
    let tmin = listeners.iter().map(|l| l.front_s.min(l.back_s)).min().unwrap() as u64 * SEC;
    let tmax = listeners.iter().map(|l| l.front_s.max(l.back_s)).max().unwrap() as u64 * SEC;
    let late_phase = rng.below(2) == 0;
    // late_phase plans: the first instant sits 55 ms behind a 100 ms boundary; an instant that follows a gap of
    // 40 ms or more is moved forward until its phase is 0.8 ms larger than its predecessor's (see `timer_phase`)
    let snap = |prev: Option<u64>, t: u64| -> u64 {
        if !late_phase { return t; }
        let ph = t % (100 * MS);
        match prev {
            None => t + (155 * MS - ph) % (100 * MS),
            Some(p) if t - p < 40 * MS => t,
            Some(p) => { let want = (p % (100 * MS) + 800 * US) % (100 * MS); t + (want + 100 * MS - ph) % (100 * MS) }
        }
    };
    let mut prev_inst: Option<u64> = None;
    let n_rounds = match tier { Tier::Quick => rng.range(3, 10), Tier::Thorough => rng.range(3, 22) } as usize;
    let mut rounds: Vec<Round> = Vec::new();
    let mut t = 0u64;
    let mut used: Vec<bool> = vec![false; n_cli];
    let mut fam_bp = false;
    let mut long_gaps = 0;
    for r in 0..n_rounds {
        let gap = match rng.below(16) {
            0 | 1 => 0,
            2 | 3 => 5 * US,
            4 | 5 => 100 * US + rng.below(400 * US),
            6 | 7 => 3 * MS,
            8 | 9 => 150 * MS,
            10 => tmin * 45 / 100,
            11 => tmin * 8 / 10,
            12 => tmin + 60 * MS + rng.below(200 * MS),
            13 => tmax + 300 * MS,
            14 => tmin * 16 / 10,
            _ => tmax * 5 / 2,
        };
        if gap >= tmin { long_gaps += 1; }
        if r > 0 { t += gap; }
        t = snap(prev_inst, t);
        prev_inst = Some(t);
        let k = *rng.pick(&[1usize, 2, 2, 3, 3, 4, 6]);
        let mut sends: Vec<Snd> = Vec::new();
        for j in 0..k {
            let fresh: Vec<usize> = (0..pool).filter(|c| !used[*c]).collect();
            let old: Vec<usize> = (0..pool).filter(|c| used[*c]).collect();
            // a source never seen before in front of an established one: both sit in the queue of one readable pass
            let cli = if j == 0 && !fresh.is_empty() && rng.below(2) == 0 { *rng.pick(&fresh) } else if !old.is_empty() && rng.below(3) != 0 { *rng.pick(&old) } else { rng.below(pool as u64) as usize };
            let lst = if rng.below(5) == 0 { rng.below(n_lst as u64) as usize } else { home[cli] };
            sends.push(Snd { cli, lst, len: pick_len(&mut rng, listeners[lst].max_rx as usize) });
        }
        for s in &sends { used[s.cli] = true; }
        rounds.push(Round { at: t, kind: RoundKind::Send(sends) });
    }
    // back-pressure episode: a flood towards peers that do not read for a while
    let mut clients = clients;
    if rng.below(4) == 0 {
        fam_bp = true;
        let cli = rng.below(pool as u64) as usize;
        let lst = home[cli];
        let at = snap(prev_inst, t + *rng.pick(&[200 * US, 20 * MS]));
        let n = rng.range(13, 26) as usize;
        let dur = if late_phase { *rng.pick(&[2 * MS, 300 * MS + 400 * US, 1000 * MS + 400 * US]) } else { *rng.pick(&[2 * MS, 40 * MS, 300 * MS]) };
        prev_inst = Some(at + dur);
        if rng.below(2) == 0 {
            for b in clusters[listeners[lst].cluster].backends.iter_mut() { b.stall = Some((at.saturating_sub(100 * US), at + dur)); }
        } else {
            clients[cli].stall = Some((at.saturating_sub(100 * US), at + dur));
            for b in clusters[listeners[lst].cluster].backends.iter_mut() { if b.replies == 0 { b.replies = 2; } b.late_pm = 0; }
        }
        let sends: Vec<Snd> = (0..n).map(|j| Snd { cli: if j % 5 == 4 { rng.below(pool as u64) as usize } else { cli }, lst, len: HDR + rng.below(24) as usize }).collect();
        for s in &sends { used[s.cli] = true; }
        rounds.push(Round { at, kind: RoundKind::Send(sends) });
        t = at + dur;
    }
    // configuration life cycle racing the traffic: something is removed while flows are open, datagrams arrive while it is
    // gone, it is created again under the same identity, and old and never-seen sources speak again
    let mut lc_cmds: Vec<Cmd> = Vec::new();
    if lifecycle {
        let f: u64 = if late_phase { 1 } else { *rng.pick(&[1u64, 1, 25, 250]) };
        let ta = snap(prev_inst, t + *rng.pick(&[100 * US, 5 * MS, 200 * MS]));
        let lst = rng.below(n_lst as u64) as usize;
        let clu = listeners[lst].cluster;
        let fresh = n_cli - 1;
        let mut olds: Vec<usize> = (0..pool).filter(|c| used[*c] && home[*c] == lst).collect();
        if olds.is_empty() { olds = (0..pool).filter(|c| used[*c]).collect(); }
        if olds.is_empty() { olds.push(0); }
        let o1 = *rng.pick(&olds);
        let o2 = *rng.pick(&olds);
        let mut mk = |rng: &mut Prng, who: &[usize]| -> Vec<Snd> { who.iter().map(|c| Snd { cli: *c, lst, len: HDR + rng.below(24) as usize }).collect() };
        let (rm_at, during_at, add_at, after_at) = (ta + 200 * US * f, ta + MS * f, ta + 2 * MS * f, ta + 4 * MS * f);
        let (removal, creation): (Vec<CmdKind>, Vec<CmdKind>) = match rng.below(4) {
            0 => {
                let wp = clusters[clu].knob.with_port;
                let knob = if rng.below(2) == 0 { clusters[clu].knob.clone() } else { gen_knob(&mut rng, wp) };
                let mut c = vec![CmdKind::Recluster { clu, knob }];
                // the backends of a removed cluster stay registered in the worker: re-adding them is optional
                if rng.below(2) == 0 { for bk in 0..clusters[clu].backends.len() { if clusters[clu].initial[bk] { c.push(CmdKind::AddBackend { clu, bk }); } } }
                (vec![CmdKind::RemoveCluster { clu }], c)
            }
            1 => {
                let others: Vec<usize> = (0..n_clu).filter(|c| *c != clu && clusters[*c].knob.with_port == clusters[clu].knob.with_port).collect();
                let to = if !others.is_empty() && rng.below(2) == 0 { *rng.pick(&others) } else { clu };
                (vec![CmdKind::RemoveFrontend { lst, clu }], vec![CmdKind::AddFrontend { lst, clu: to }])
            }
            2 => {
                let nb = clusters[clu].backends.len();
                let rm: Vec<CmdKind> = (0..nb).map(|bk| CmdKind::RemoveBackend { clu, bk }).collect();
                let k = rng.range(1, nb as u64) as usize;
                (rm, (0..k).map(|bk| CmdKind::AddBackend { clu, bk }).collect())
            }
            _ => (vec![CmdKind::Deactivate { lst }, CmdKind::RemoveListener { lst }], vec![CmdKind::AddListener { lst }, CmdKind::Activate { lst }, CmdKind::AddFrontend { lst, clu }]),
        };
        let n_add = creation.len() as u64;
        for (i, k) in removal.into_iter().enumerate() { lc_cmds.push(Cmd { at: rm_at + i as u64 * 100 * US, kind: k }); }
        for (i, k) in creation.into_iter().enumerate() { lc_cmds.push(Cmd { at: add_at + i as u64 * 100 * US, kind: k }); }
        rounds.push(Round { at: ta, kind: RoundKind::Send(mk(&mut rng, &[o1])) });
        rounds.push(Round { at: during_at, kind: RoundKind::Send(mk(&mut rng, &[o1, o2])) });
        if rng.below(2) == 0 { rounds.push(Round { at: add_at + n_add * 100 * US + 50 * US, kind: RoundKind::Send(mk(&mut rng, &[o2])) }); }
        rounds.push(Round { at: after_at.max(add_at + n_add * 100 * US + 300 * US), kind: RoundKind::Send(mk(&mut rng, &[o1, fresh, o2])) });
        let later = snap(Some(after_at + MS), after_at + MS + *rng.pick(&[300 * MS, tmin * 12 / 10]));
        rounds.push(Round { at: later, kind: RoundKind::Send(mk(&mut rng, &[fresh, o1])) });
        for c in [o1, o2, fresh] { used[c] = true; }
        t = later;
        prev_inst = Some(later);
    }
    // backend faults
    if rng.below(8) == 0 {
        let c = rng.below(n_clu as u64) as usize;
        let b = rng.below(clusters[c].backends.len() as u64) as usize;
        clusters[c].backends[b].close_at = Some(rng.below(t.max(1)));
    }
    if rng.below(6) == 0 {
        let c = rng.below(n_clu as u64) as usize;
        let b = rng.below(clusters[c].backends.len() as u64) as usize;
        let mut u: Vec<u64> = (0..rng.range(1, 3)).map(|_| rng.below(t + tmax + SEC)).collect();
        u.sort();
        clusters[c].backends[b].unsolicited = u;
    }
    // master commands at seeded times inside the traffic
    let n_cmd = *rng.pick(&[0usize, 0, 0, 1, 1, 2, 3]);
    let mut cmds: Vec<Cmd> = Vec::new();
    let round_times: Vec<u64> = rounds.iter().map(|r| r.at).collect();
    for _ in 0..n_cmd {
        // late_phase plans: a command rides 0.2 ms behind a round (its phase stays inside the round's cluster)
        let at = if late_phase { *rng.pick(&round_times) + 200 * US } else { rng.below(t.max(1) + 50 * MS) };
        let kind = match rng.below(9) {
            0 | 1 => { let clu = rng.below(n_clu as u64) as usize; CmdKind::AddBackend { clu, bk: rng.below(clusters[clu].backends.len() as u64) as usize } }
            2 | 3 => { let clu = rng.below(n_clu as u64) as usize; CmdKind::RemoveBackend { clu, bk: rng.below(clusters[clu].backends.len() as u64) as usize } }
            4 | 5 => {
                let lst = rng.below(n_lst as u64) as usize;
                match rng.below(3) {
                    0 => CmdKind::UpdateListener { lst, max_flows: Some(*rng.pick(&[1u32, 1, 2, 3, 64])), max_rx: None, front_s: None, back_s: None },
                    1 => CmdKind::UpdateListener { lst, max_flows: None, max_rx: Some(*rng.pick(&max_rx_choices)), front_s: None, back_s: None },
                    _ => CmdKind::UpdateListener { lst, max_flows: None, max_rx: None, front_s: Some(*rng.pick(&[1u32, 2, 4])), back_s: Some(*rng.pick(&[1u32, 2, 4])) },
                }
            }
            6 | 7 => { let clu = rng.below(n_clu as u64) as usize; let wp = clusters[clu].knob.with_port; CmdKind::Recluster { clu, knob: gen_knob(&mut rng, wp) } }
            _ => CmdKind::Deactivate { lst: rng.below(n_lst as u64) as usize },
        };
        cmds.push(Cmd { at, kind });
    }
    // while a cluster is removed, a listener update would re-point the listener at the removed cluster's id with default
    // knobs (the affinity key included: recorded finding U1): such plans keep UpdateUdpListener out
    if lc_cmds.iter().any(|c| matches!(c.kind, CmdKind::RemoveCluster { .. })) { cmds.retain(|c| !matches!(c.kind, CmdKind::UpdateListener { .. })); }
    cmds.extend(lc_cmds);
    cmds.sort_by_key(|c| c.at);
    // quiescence: every idle timeout (as configured at any time) passes, then the descriptor table is audited,
    // then every client that spoke says one more thing (a new flow), then the worker is stopped
    let t_audit = snap(prev_inst, t + (tmax.max(4 * SEC)) + 2500 * MS + 1600 * MS);
    rounds.push(Round { at: t_audit, kind: RoundKind::Audit });
    let probe: Vec<Snd> = (0..n_cli).filter(|c| used[*c]).map(|c| Snd { cli: c, lst: home[c], len: HDR + 4 + c }).collect();
    rounds.push(Round { at: t_audit + 10 * MS, kind: RoundKind::Send(probe) });
    if late_phase { for c in clusters.iter_mut() { for b in c.backends.iter_mut() { b.late_pm = 0; b.unsolicited.clear(); } } }
    let end = *rng.pick(&[End::HardStop, End::HardStop, End::SoftStop]);
    let sched = netsim::default_sched(&mut rng, false);
    let udp_eagain_pm = *rng.pick(&[0u32, 0, 0, 40, 150]);
    let mut fam: Vec<&str> = Vec::new();
    if !cmds.is_empty() { fam.push("cmds"); }
    if lifecycle { fam.push("lifecycle"); }
    if fam_bp { fam.push("backpressure"); }
    if long_gaps > 0 { fam.push("idle"); }
    if end == End::SoftStop { fam.push("softstop"); }
    NetPlan {
        seed,
        family: format!("shell:{}", if fam.is_empty() { "plain".to_string() } else { fam.join("+") }),
        v6, sched, udp_icmp: rng.below(2) == 0, udp_eagain_pm, udp_qlimit: *rng.pick(&[3usize, 6, 10]), front_first: rng.below(2) == 0, late_phase,
        listeners, clusters, clients, rounds, cmds, end,
        tail_ns: *rng.pick(&[2 * MS, 50 * MS, 300 * MS]),
    }
}
fn rng_bool(seed: u64, c: usize) -> bool { Prng::derive(seed, &format!("c19/net/affinity{c}")).below(2) == 0 }

pub fn summarize(p: &NetPlan) -> String {
    let mut s = format!("{}{} ", p.family, if p.v6 { " v6" } else { "" });
    for (i, l) in p.listeners.iter().enumerate() { s += &format!("[L{i} {} ->{} t={}/{} rx={} cap={}] ", l.addr, p.clusters[l.cluster].id, l.front_s, l.back_s, l.max_rx, l.max_flows); }
    for c in &p.clusters {
        s += &format!("[{} lb={} {} resp={} req={} pp={}{} bk=", c.id, c.lb, if c.knob.with_port { "ip_port" } else { "ip" }, c.knob.responses, c.knob.requests, c.knob.pp, if c.knob.pp_every { "/every" } else { "" });
        for (j, b) in c.backends.iter().enumerate() { s += &format!("{}{}{}x{}{}{} ", b.id, if c.initial[j] { "" } else { "(later)" }, if b.bound { "" } else { "(dead)" }, b.replies, if b.stall.is_some() { " stall" } else { "" }, if b.close_at.is_some() { " closes" } else { "" }); }
        s += "] ";
    }
    s += &format!("clients={:?} ", p.clients.iter().map(|c| format!("{}{}", c.addr, if c.stall.is_some() { " stall" } else { "" })).collect::<Vec<_>>());
    for r in &p.rounds {
        match &r.kind {
            RoundKind::Send(v) => s += &format!("@{}us{:?} ", r.at / 1000, v.iter().map(|x| format!("c{}>L{}:{}", x.cli, x.lst, x.len)).collect::<Vec<_>>()),
            RoundKind::Audit => s += &format!("@{}us AUDIT ", r.at / 1000),
        }
    }
    for c in &p.cmds { s += &format!("cmd@{}us {:?} ", c.at / 1000, c.kind); }
    s += &format!("{} end={:?} icmp={} eagain_pm={} qlimit={} sched(trunc={} perm={} preempt={} burst={})", timer_phase(p), p.end, p.udp_icmp, p.udp_eagain_pm, p.udp_qlimit, p.sched.ev_truncate_pm, p.sched.ev_permute_pm, p.sched.preempt_pm, p.sched.actor_burst);
    s
}

// =========================================================================== runner

fn cluster_request(c: &Clu, knob: &Knob) -> Request {
    RequestType::AddCluster(Cluster {
        cluster_id: c.id.clone(),
        load_balancing: c.lb,
        udp: Some(UdpClusterConfig {
            affinity_key: Some(if knob.with_port { 1 } else { 0 }),
            responses: Some(knob.responses),
            requests: Some(knob.requests),
            send_proxy_protocol: Some(knob.pp),
            proxy_protocol_every_datagram: Some(knob.pp_every),
            health: None,
        }),
        ..Default::default()
    }).into()
}
fn backend_request(c: &Clu, b: &BkPlan) -> Request {
    RequestType::AddBackend(AddBackend { cluster_id: c.id.clone(), backend_id: b.id.clone(), address: b.addr.into(), load_balancing_parameters: Some(LoadBalancingParams::default()), sticky_id: None, backup: None }).into()
}

fn listener_request(l: &Lst) -> Request {
    RequestType::AddUdpListener(UdpListenerConfig { address: l.addr.into(), public_address: None, front_timeout: l.front_s, back_timeout: l.back_s, max_rx_datagram_size: l.max_rx, max_flows: l.max_flows, active: false }).into()
}

pub fn config_requests(p: &NetPlan) -> Vec<Request> {
    let mut v: Vec<Request> = Vec::new();
    for l in &p.listeners {
        v.push(listener_request(l));
        v.push(RequestType::ActivateListener(ActivateListener { address: l.addr.into(), proxy: ListenerType::Udp.into(), from_scm: false }).into());
    }
    let fronts: Vec<Request> = p.listeners.iter().map(|l| RequestType::AddUdpFrontend(RequestUdpFrontend { cluster_id: p.clusters[l.cluster].id.clone(), address: l.addr.into(), tags: Default::default() }).into()).collect();
    if p.front_first { v.extend(fronts.clone()); }
    for c in &p.clusters {
        v.push(cluster_request(c, &c.knob));
        for (j, b) in c.backends.iter().enumerate() { if c.initial[j] { v.push(backend_request(c, b)); } }
    }
    if !p.front_first { v.extend(fronts); }
    v
}

pub fn cmd_request(p: &NetPlan, k: &CmdKind) -> Request {
    match k {
        CmdKind::AddBackend { clu, bk } => backend_request(&p.clusters[*clu], &p.clusters[*clu].backends[*bk]),
        CmdKind::RemoveBackend { clu, bk } => { let (c, b) = (&p.clusters[*clu], &p.clusters[*clu].backends[*bk]); RequestType::RemoveBackend(RemoveBackend { cluster_id: c.id.clone(), backend_id: b.id.clone(), address: b.addr.into() }).into() }
        CmdKind::UpdateListener { lst, max_flows, max_rx, front_s, back_s } => RequestType::UpdateUdpListener(UpdateUdpListenerConfig { address: p.listeners[*lst].addr.into(), public_address: None, front_timeout: *front_s, back_timeout: *back_s, max_rx_datagram_size: *max_rx, max_flows: *max_flows }).into(),
        CmdKind::Recluster { clu, knob } => cluster_request(&p.clusters[*clu], knob),
        CmdKind::Deactivate { lst } => RequestType::DeactivateListener(DeactivateListener { address: p.listeners[*lst].addr.into(), proxy: ListenerType::Udp.into(), to_scm: false }).into(),
        CmdKind::RemoveCluster { clu } => RequestType::RemoveCluster(p.clusters[*clu].id.clone()).into(),
        CmdKind::RemoveFrontend { lst, clu } => RequestType::RemoveUdpFrontend(RequestUdpFrontend { cluster_id: p.clusters[*clu].id.clone(), address: p.listeners[*lst].addr.into(), tags: Default::default() }).into(),
        CmdKind::AddFrontend { lst, clu } => RequestType::AddUdpFrontend(RequestUdpFrontend { cluster_id: p.clusters[*clu].id.clone(), address: p.listeners[*lst].addr.into(), tags: Default::default() }).into(),
        CmdKind::RemoveListener { lst } => RequestType::RemoveListener(RemoveListener { address: p.listeners[*lst].addr.into(), proxy: ListenerType::Udp.into() }).into(),
        CmdKind::AddListener { lst } => listener_request(&p.listeners[*lst]),
        CmdKind::Activate { lst } => RequestType::ActivateListener(ActivateListener { address: p.listeners[*lst].addr.into(), proxy: ListenerType::Udp.into(), from_scm: false }).into(),
    }
}

#[derive(Clone, Debug, Default)]
pub struct CmdObs { pub id: String, pub sent_t: Option<u64>, pub ack_t: Option<u64>, pub ok: Option<bool>, pub msg: String }

#[derive(Clone, Debug, Default)]
pub struct BkObs { pub got: Vec<GotRec>, pub sent: Vec<ReplyRec>, pub closed_at: Option<(u64, u64)>, pub send_eagain: u64 }

#[derive(Clone, Debug, Default)]
pub struct NetOutcome {
    pub tap: Vec<UdpEv>,
    pub t0: u64,
    pub sent: Vec<SentRec>,
    pub got: Vec<GotRec>,
    pub audits: Vec<AuditRec>,
    pub client_send_eagain: u64,
    /// indexed by the run-wide backend index
    pub backends: Vec<BkObs>,
    pub cmds: Vec<CmdObs>,
    pub stop: CmdObs,
    /// sockets of the worker still open when `run()` had returned and the server was dropped
    pub left_open: Vec<SocketAddr>,
    pub foreign_dropped: u64,
    pub config_failures: Vec<String>,
    pub config_finals_bad: bool,
    pub peer_error: Option<String>,
    pub panicked: Option<String>,
    pub aborted: Option<String>,
    pub boot_error: Option<String>,
    pub stats: Stats,
    pub trace_hash: u64,
    pub t_end: u64,
    pub log: Vec<String>,
}

fn quiet_worker_panics() {
    static ONCE: std::sync::Once = std::sync::Once::new();
    ONCE.call_once(|| {
        std::panic::set_hook(Box::new(|info| {
            let from_sozu = info.location().map_or(false, |l| l.file().contains("/lib/src/") || l.file().contains("/command/src/"));
            if !from_sozu { eprintln!("harness panic: {info}"); }
        }));
    });
}

pub fn run_net(plan: &NetPlan, log: bool) -> NetOutcome {
    let plan = plan.clone();
    quiet_worker_panics();
    netsim::on_fresh_thread(move || {
        let mut w = World::new(plan.seed, plan.sched.clone());
        World::install(&mut w);
        w.log_on = log;
        w.udp_icmp = plan.udp_icmp;
        w.udp_eagain_pm = plan.udp_eagain_pm;
        w.udp_qlimit = plan.udp_qlimit.clamp(1, 10);
        w.post_exit_drain_ns = 5 * MS;
        let tag = tag_of(&plan);
        let reqs = config_requests(&plan);
        let n_cfg = reqs.len();
        let mut cli_id = 0;
        let mut bk_ids: Vec<usize> = Vec::new();
        let (end, mid) = netsim::run_worker(&mut w, Knobs::default().server_config(), ConfigState::new(), Listeners::default(), |w, m: &mut Master| {
            m.send_all(reqs);
            m.push(MOp::Barrier);
            m.push(MOp::Call(Box::new(|w, _| { let now = w.now as i64; w.board_set("t0", now); w.board_set("configured", 1); vec![] })));
            for (k, c) in plan.cmds.iter().enumerate() {
                let at = c.at;
                let req = cmd_request(&plan, &c.kind);
                m.push(MOp::Call(Box::new(move |w, _| {
                    let due = w.board_get("t0") as u64 + at;
                    // the barrier keeps the master reading, so that the answer's arrival time is the real one
                    vec![MOp::Sleep(due.saturating_sub(w.now)), MOp::SendId(format!("C{k}"), req.clone()), MOp::BarrierFor(2 * SEC)]
                })));
            }
            m.push(MOp::WaitBoard("udp_done".into(), 1));
            m.push(MOp::Sleep(plan.tail_ns));
            match plan.end {
                End::HardStop => m.push(MOp::SendId("STOP".into(), RequestType::HardStop(Default::default()).into())),
                End::SoftStop => {
                    m.push(MOp::SendId("STOP".into(), RequestType::SoftStop(SoftStop {}).into()));
                    // the worker is expected to leave by itself; the hard stop only ends a run in which it does not
                    m.push(MOp::BarrierFor(8 * SEC));
                    m.push(MOp::Sleep(100 * MS));
                    m.push(MOp::SendId("KILL".into(), RequestType::HardStop(Default::default()).into()));
                }
            }
            for c in &plan.clusters { for b in &c.backends { let id = w.add_actor(Box::new(UdpBackend::new(tag, b.clone()))); w.prime_actor(id); bk_ids.push(id); } }
            cli_id = w.add_actor(Box::new(UdpClients::new(tag, plan.clients.clone(), plan.listeners.iter().map(|l| l.addr).collect(), plan.rounds.clone())));
        });
        let mut out = NetOutcome::default();
        out.panicked = end.panicked;
        out.aborted = end.aborted;
        out.boot_error = end.boot_error;
        out.left_open = w.udp_local.values().copied().collect();
        out.foreign_dropped = w.udp_foreign_dropped;
        {
            let m: &Master = w.actor_ref(mid);
            let obs = |id: &str| -> CmdObs {
                let sent_t = m.data.sent.iter().find(|(i, _, _)| i == id).map(|(_, _, t)| *t);
                let fin = m.data.responses.iter().find(|(_, r)| r.id == id && r.status != ResponseStatus::Processing as i32);
                CmdObs { id: id.to_string(), sent_t, ack_t: fin.map(|(t, _)| *t), ok: fin.map(|(_, r)| r.status == ResponseStatus::Ok as i32), msg: fin.map(|(_, r)| r.message.clone()).unwrap_or_default() }
            };
            for k in 0..plan.cmds.len() { out.cmds.push(obs(&format!("C{k}"))); }
            out.stop = obs("STOP");
            for (i, (id, _, _)) in m.data.sent.iter().enumerate().take(n_cfg) {
                let r = m.data.last_response(id);
                match r { Some(r) if r.status == ResponseStatus::Ok as i32 => {}, Some(r) => out.config_failures.push(format!("#{i} {}: {}", id, r.message)), None => out.config_failures.push(format!("#{i} {id}: no answer")) }
                if m.data.finals.get(id).copied().unwrap_or(0) != 1 { out.config_finals_bad = true; }
            }
        }
        {
            let c: &UdpClients = w.actor_ref(cli_id);
            out.t0 = c.t0.unwrap_or(0);
            out.sent = c.sent.clone();
            out.got = c.got.clone();
            out.audits = c.audits.clone();
            out.client_send_eagain = c.send_eagain;
            out.peer_error = c.error();
        }
        for id in &bk_ids {
            let b: &UdpBackend = w.actor_ref(*id);
            if let Some(e) = b.error() { out.peer_error = Some(e); }
            out.backends.push(BkObs { got: b.got.clone(), sent: b.sent.clone(), closed_at: b.closed_at, send_eagain: b.send_eagain });
        }
        out.tap = std::mem::take(&mut w.udp_log);
        out.stats = w.stats.clone();
        out.trace_hash = w.trace.0;
        out.t_end = w.now;
        out.log = std::mem::take(&mut w.log);
        out
    })
}

// =========================================================================== minimisation

pub fn shrink(p: &NetPlan) -> Vec<NetPlan> {
    let mut out: Vec<NetPlan> = Vec::new();
    let me = serde_json::to_string(p).unwrap();
    let push = |q: NetPlan, out: &mut Vec<NetPlan>| { if serde_json::to_string(&q).unwrap() != me { out.push(q); } };
    // drop a round / a command
    for i in 0..p.rounds.len() {
        if matches!(p.rounds[i].kind, RoundKind::Send(_)) { let mut q = p.clone(); q.rounds.remove(i); push(q, &mut out); }
    }
    for i in 0..p.cmds.len() { let mut q = p.clone(); q.cmds.remove(i); push(q, &mut out); }
    // drop one datagram of a round
    for i in 0..p.rounds.len() {
        if let RoundKind::Send(v) = &p.rounds[i].kind {
            if v.len() > 1 { for j in 0..v.len() { let mut q = p.clone(); if let RoundKind::Send(x) = &mut q.rounds[i].kind { x.remove(j); } push(q, &mut out); } }
        }
    }
    // unused tail elements of the topology (positional indices: only the last one of a list can go)
    {
        let nl = p.listeners.len();
        let l_used = |l: usize| p.rounds.iter().any(|r| matches!(&r.kind, RoundKind::Send(v) if v.iter().any(|s| s.lst == l))) || p.cmds.iter().any(|c| matches!(&c.kind, CmdKind::UpdateListener { lst, .. } | CmdKind::Deactivate { lst } | CmdKind::RemoveFrontend { lst, .. } | CmdKind::AddFrontend { lst, .. } | CmdKind::RemoveListener { lst } | CmdKind::AddListener { lst } | CmdKind::Activate { lst } if *lst == l));
        if nl > 1 && !l_used(nl - 1) { let mut q = p.clone(); q.listeners.pop(); push(q, &mut out); }
        let nc = p.clusters.len();
        let c_used = |c: usize| p.listeners.iter().any(|l| l.cluster == c) || p.cmds.iter().any(|k| matches!(&k.kind, CmdKind::AddBackend { clu, .. } | CmdKind::RemoveBackend { clu, .. } | CmdKind::Recluster { clu, .. } | CmdKind::RemoveCluster { clu } | CmdKind::RemoveFrontend { clu, .. } | CmdKind::AddFrontend { clu, .. } if *clu == c));
        if nc > 1 && !c_used(nc - 1) { let mut q = p.clone(); q.clusters.pop(); push(q, &mut out); }
        let ncl = p.clients.len();
        let cl_used = |c: usize| p.rounds.iter().any(|r| matches!(&r.kind, RoundKind::Send(v) if v.iter().any(|s| s.cli == c)));
        if ncl > 1 && !cl_used(ncl - 1) { let mut q = p.clone(); q.clients.pop(); push(q, &mut out); }
        for c in 0..nc {
            let nb = p.clusters[c].backends.len();
            let b_used = p.cmds.iter().any(|k| matches!(&k.kind, CmdKind::AddBackend { clu, bk } | CmdKind::RemoveBackend { clu, bk } if *clu == c && *bk == nb - 1));
            if nb > 1 && !b_used && p.clusters[c].initial[..nb - 1].iter().any(|x| *x) { let mut q = p.clone(); q.clusters[c].backends.pop(); q.clusters[c].initial.pop(); push(q, &mut out); }
        }
    }
    // scheduler, injected faults
    let mut q = p.clone();
    q.sched.ev_truncate_pm = 0; q.sched.ev_permute_pm = 0; q.sched.preempt_pm = 0; q.sched.actor_burst = 2; q.udp_eagain_pm = 0; q.udp_icmp = false;
    push(q, &mut out);
    for f in 0..5 {
        let mut q = p.clone();
        match f { 0 => q.sched.preempt_pm = 0, 1 => { q.sched.ev_truncate_pm = 0; q.sched.ev_permute_pm = 0 }, 2 => q.udp_eagain_pm = 0, 3 => q.udp_icmp = false, _ => q.sched.actor_burst = 2 }
        push(q, &mut out);
    }
    if p.end == End::SoftStop { let mut q = p.clone(); q.end = End::HardStop; push(q, &mut out); }
    // peers: plain behaviour
    for c in 0..p.clusters.len() {
        for b in 0..p.clusters[c].backends.len() {
            let mut q = p.clone();
            { let x = &mut q.clusters[c].backends[b]; x.stall = None; x.close_at = None; x.unsolicited.clear(); x.late_pm = 0; }
            push(q, &mut out);
            if p.clusters[c].backends[b].replies > 1 { let mut q = p.clone(); q.clusters[c].backends[b].replies = 1; push(q, &mut out); }
        }
        let k = &p.clusters[c].knob;
        if k.pp || k.responses != 0 || k.requests != 0 { let mut q = p.clone(); q.clusters[c].knob = Knob { with_port: k.with_port, responses: 0, requests: 0, pp: false, pp_every: false }; push(q, &mut out); }
        if k.pp { let mut q = p.clone(); q.clusters[c].knob.pp = false; q.clusters[c].knob.pp_every = false; push(q, &mut out); }
        if k.responses != 0 { let mut q = p.clone(); q.clusters[c].knob.responses = 0; push(q, &mut out); }
        if k.requests != 0 { let mut q = p.clone(); q.clusters[c].knob.requests = 0; push(q, &mut out); }
    }
    for i in 0..p.clients.len() { if p.clients[i].stall.is_some() { let mut q = p.clone(); q.clients[i].stall = None; push(q, &mut out); } }
    for i in 0..p.listeners.len() { if p.listeners[i].max_flows != 64 { let mut q = p.clone(); q.listeners[i].max_flows = 64; push(q, &mut out); } }
    // datagram lengths to the smallest attributable size
    for i in 0..p.rounds.len() {
        if let RoundKind::Send(v) = &p.rounds[i].kind {
            if v.iter().any(|s| s.len != HDR) { let mut q = p.clone(); if let RoundKind::Send(x) = &mut q.rounds[i].kind { for s in x.iter_mut() { s.len = HDR; } } push(q, &mut out); }
        }
    }
    // earlier rounds closer together
    for i in 1..p.rounds.len() {
        let gap = p.rounds[i].at - p.rounds[i - 1].at;
        if gap > 10 * US && matches!(p.rounds[i].kind, RoundKind::Send(_)) {
            let mut q = p.clone();
            let cut = if p.late_phase { gap / (100 * MS) * (100 * MS) } else { gap - 10 * US };
            if cut == 0 { continue; }
            for r in q.rounds.iter_mut().skip(i) { r.at -= cut; }
            for c in q.cmds.iter_mut() { if c.at >= p.rounds[i].at { c.at -= cut; } }
            push(q, &mut out);
        }
    }
    out
}
