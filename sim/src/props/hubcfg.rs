//! hubcfg — the *main-process configuration tier* shared by C05, C06, C07 and C20.
//!
//! Engine: hubsim (the real `sozu::command::server::CommandHub::run()` as a coroutine of the simulator), with
//! *recording* workers (`hubcfg_run.rs`: every `WorkerRequest` is applied to the worker's own `ConfigState`,
//! the answer is OK / FAILURE accordingly; the accumulated state and the ordered request list are "what the
//! workers were told") and one scripted CLI client on the real unix command socket that sends its requests
//! one after the other. What is judged is what the main process does with *configuration* on those paths:
//! `bin/src/command/requests.rs` (`worker_request`, `save_state`, `load_state`, `load_static_config`),
//! `bin/src/command/server.rs` (`scatter_on`, `generate_upgrade_data`, `CommandHub::from_upgrade_data`) and
//! `bin/src/command/upgrade.rs` (`UpgradeData`).
//!
//! The main process's state is only ever observed the way an operator can observe it: `SaveState` to a file
//! (read back with the state-file reader and replayed on an empty `ConfigState`), `ListFrontends`,
//! `ListListeners`, `QueryCertificatesFromTheState`, `QueryHealthChecks`, `QueryClustersHashes` (its `main`
//! entry). `CountRequests` is excluded (a census, not configuration).
//!
//! Kinds (plan field `kind`; `family` in the report names the tier):
//! * `Rejected` (`hub_rejected`, C07): a history with many invalid / partly invalid commands; an observation
//!   block after every command.
//! * `SaveLoad` (`hub_saveload`, C05): history -> `SaveState` -> a second main process (other hash seed, fresh
//!   recording workers) -> `LoadState` of that file -> `SaveState`. One plan in eight (`hub_saveload_large`, and
//!   `hub_load_over_large` for C06) carries a `Bulk`: hundreds to thousands of small records, so that the state
//!   file spans more than one / two (thorough: five, ten) of `load_state`'s 200000-byte read buffers with record
//!   boundaries at varied offsets; the first main process receives them by `LoadState` of harness-written
//!   chunks that each fit the buffer, the big file is the one it saves itself.
//! * `Upgrade` (`hub_upgrade`, C05): history -> `generate_upgrade_data()` -> serde_json text -> a second main
//!   process built by `CommandHub::from_upgrade_data` (descriptor numbers replaced by fresh socket pairs, the
//!   workers keep their accumulated state) -> observations, one more command, `ListWorkers`.
//! * `LoadOver` (`hub_load_over`, C06): the main process holds A, `LoadState(B)` where B's file was written by
//!   the harness with `write_requests_to_file`.
//! * `Reload` (`hub_reload_over` for C06 with a non-empty A, `hub_scatter` for C20 with an empty one):
//!   `ReloadConfiguration(path to a generated TOML)`; for C20 with workers that read slowly / in bursts /
//!   pause, small `command_buffer_size` / `max_command_buffer_size` and a small SO_SNDBUF, optionally a second
//!   reload of the same file, or a reload of a constraint-violating neighbour.
//!
//! **Which semantics of "state load" / "reload" is judged (C06).** Neither `load_state` nor
//! `load_static_config` computes a difference: both dispatch the records of the file on the *current* state
//! and scatter exactly the records the state accepted (`requests.rs::load_state` "if
//! server.state.dispatch(..).is_ok() { scatter_on }", `load_static_config` "Could not execute request on
//! state ... continue"). `ConfigState::diff` has no caller in `bin/` at all. The documentation presents
//! `state load` as restoring a dump into a freshly started sozu (doc/configure_cli.md "Dump and restore
//! state") and `reload` as "Reloads routing configuration"; nowhere is either documented as "converge to the
//! file". The tier therefore judges the **additive** reading: after `LoadState(B)` / `ReloadConfiguration(B)`
//! on a main process holding A, the main process and every worker hold the same configuration, namely A with
//! B's records applied in file order and the records A's state refuses skipped (reference: the same fold on
//! a harness-side `ConfigState`), every accepted record reached every worker exactly once and in order, no
//! refused record reached any worker. With A empty the result must be exactly B (that is C05 / C20). How
//! often the result differs from B is counted in the probe `result_differs_from_loaded_file` - it is what
//! the property's "whatever it held before" clause would forbid under a converge reading, and is reported
//! as a remark, not as a violation.
//!
//! Known-defect triggers (computed from the plan only, at most one per plan, none in half of the plans):
//! `replace_certificate_in_history` (CFG-S1/S2), `listener_patch_with_invalid_field` (CFG-S4),
//! `scatter_larger_than_max_command_buffer_size` (C09-D8 / D4), `reload_of_rejected_file`.
#![allow(dead_code)]
use std::collections::BTreeSet;

use serde::{Deserialize, Serialize};
use serde_json::Value;
use sozu_command_lib::proto::command::{request::RequestType, Request};

use super::c20::gen_ as c20gen;
use super::c20::model as c20model;
use super::cfggen::{self, GenOpts, Mem};
use super::hubcfg_run::{ReadPace, WorkerSpec};
use crate::actors::Quantum;
use crate::framework::*;
use crate::hubsim::HubKnobs;
use crate::netsim;
use crate::prng::Prng;
use crate::world::{SchedCfg, MS, SEC};

#[path = "hubcfg_judge.rs"]
pub mod judge;

// ------------------------------------------------------------------------------------ plan

#[derive(Clone, Debug, Serialize, Deserialize, PartialEq)]
pub enum Kind { Rejected, SaveLoad, Upgrade, LoadOver, Reload }

#[derive(Clone, Debug, Serialize, Deserialize)]
pub struct TomlSpec {
    pub cfg: c20gen::Cfg,
    pub style: u8,
    /// reload this constraint-violating neighbour of `cfg` instead of `cfg`
    pub mutation: Option<c20gen::Mutation>,
    /// send the reload twice
    pub twice: bool,
}

#[derive(Clone, Debug, Serialize, Deserialize)]
pub struct HubCfgPlan {
    pub seed: u64,
    pub kind: Kind,
    pub family: String,
    /// hash / entropy / scheduler seed of the first and of the second main process
    pub hub1_seed: u64,
    pub hub2_seed: u64,
    pub sched: SchedCfg,
    pub knobs: HubKnobs,
    pub workers: Vec<WorkerSpec>,
    /// workers of the second main process (`SaveLoad`)
    pub workers2: Vec<WorkerSpec>,
    pub client_wq: Quantum,
    pub think_ns: u64,
    /// history A (cfggen requests, certificates symbolic)
    pub ops: Value,
    /// history b and its base (`LoadOver`): B = (A or empty) + b
    pub ops_b: Value,
    pub b_on_a: bool,
    pub toml: Option<TomlSpec>,
    /// state files on disk (the writer fsyncs, ~10 ms each) instead of anonymous in-memory files
    #[serde(default)]
    pub real_files: bool,
    /// many small records (`SaveLoad`: loaded into the first main process in chunks below the reader's buffer
    /// before the history, so that the file it saves spans several read buffers; `LoadOver`: part of B)
    #[serde(default)]
    pub bulk: Option<Bulk>,
}

/// Hundreds to thousands of small, valid records (AddCluster / AddBackend / AddHttp(s)Frontend / AddTcpFrontend
/// with short fields, ids padded by 0..=`pad_max` characters so that record lengths vary): a pure function of
/// these fields. `target_bytes` is the size of the `\n\0` separated JSON the records make (every record is a
/// few hundred bytes - far below half of `load_state`'s 200000-byte buffer, the precondition of CFG-S10).
#[derive(Clone, Debug, Serialize, Deserialize, PartialEq)]
pub struct Bulk {
    pub seed: u64,
    pub target_bytes: u64,
    pub pad_max: u32,
    /// 0 backends, 1 clusters, 2 frontends, 3 even
    pub mix: u8,
    /// size of the chunks in which `SaveLoad` feeds the records to the first main process
    pub chunk_bytes: u64,
}

/// one record of a state file, as `write_requests_to_file` frames it
pub fn state_file_record(n: usize, r: &Request) -> Vec<u8> {
    let mut v = serde_json::to_vec(&sozu_command_lib::proto::command::WorkerRequest { id: format!("BULK-{n}"), content: r.clone() }).unwrap_or_default();
    v.extend_from_slice(b"\n\0");
    v
}

pub fn bulk_records(b: &Bulk) -> Vec<Request> {
    use sozu_command_lib::proto::command::{AddBackend, Cluster, LoadBalancingParams, PathRule, RequestHttpFrontend, RequestTcpFrontend, SocketAddress};
    let mut rng = Prng::derive(b.seed, "hubcfg/bulk");
    let mut pad = |rng: &mut Prng| -> String { let n = rng.below(b.pad_max as u64 + 1); (0..n).map(|_| *rng.pick(b"abcdefghijklmnopqrstuvwxyz0123456789") as char).collect() };
    let mut out: Vec<Request> = Vec::new();
    let mut bytes = 0u64;
    let mut addr = 0u32;
    let mut ci = 0u32;
    while bytes < b.target_bytes && out.len() < 40_000 {
        let start = out.len();
        let cid = format!("k{ci}{}", pad(&mut rng));
        out.push(RequestType::AddCluster(Cluster { cluster_id: cid.clone(), sticky_session: rng.chance(1, 3), https_redirect: rng.chance(1, 4), load_balancing: rng.below(4) as i32, ..Default::default() }).into());
        let (nb, nf, nt) = match b.mix { 0 => (3 + rng.below(6), rng.below(2), 0), 1 => (rng.below(2), 0, 0), 2 => (1, 2 + rng.below(4), rng.below(2)), _ => (1 + rng.below(3), 1 + rng.below(2), rng.below(2)) };
        for j in 0..nb {
            addr += 1;
            let address: SocketAddress = if rng.chance(1, 4) { cfggen::sa(std::net::SocketAddr::new(std::net::IpAddr::V6(std::net::Ipv6Addr::new(0xfd00, 0, 0, 0, 0, 0, (addr >> 16) as u16, addr as u16)), 8000 + (addr % 1000) as u16)) } else { SocketAddress::new_v4(10, (addr >> 16) as u8, (addr >> 8) as u8, addr as u8, 8000 + (addr % 1000) as u16) };
            out.push(RequestType::AddBackend(AddBackend {
                cluster_id: cid.clone(), backend_id: format!("b{j}{}", pad(&mut rng)), address,
                sticky_id: if rng.chance(1, 3) { Some(format!("s{j}")) } else { None },
                load_balancing_parameters: if rng.chance(1, 3) { Some(LoadBalancingParams { weight: rng.below(100) as i32 }) } else { None },
                backup: if rng.chance(1, 4) { Some(rng.chance(1, 2)) } else { None },
            }).into());
        }
        for j in 0..nf {
            let f = RequestHttpFrontend { cluster_id: Some(cid.clone()), address: SocketAddress::new_v4(127, 0, 0, 1, if rng.chance(1, 2) { 8080 } else { 8443 }), hostname: format!("h{ci}-{j}{}.test", pad(&mut rng)), path: PathRule::prefix(format!("/{}", pad(&mut rng))), position: 2, ..Default::default() };
            out.push(if rng.chance(1, 2) { RequestType::AddHttpFrontend(f) } else { RequestType::AddHttpsFrontend(f) }.into());
        }
        for _ in 0..nt {
            addr += 1;
            out.push(RequestType::AddTcpFrontend(RequestTcpFrontend { cluster_id: cid.clone(), address: SocketAddress::new_v4(10, 200 + (addr >> 16) as u8 % 50, (addr >> 8) as u8, addr as u8, 1024 + (addr % 60000) as u16), tags: Default::default() }).into());
        }
        for (k, r) in out[start..].iter().enumerate() { bytes += state_file_record(start + k, r).len() as u64; }
        ci += 1;
    }
    out
}

fn draw_bulk(rng: &mut Prng, tier: Tier) -> Bulk {
    // one control class below the reader's buffer, the others beyond one and two buffers (thorough: beyond 1 MB, 2 MB)
    let class = match tier { Tier::Quick => *rng.pick(&[0u8, 1, 1, 1, 2, 2]), Tier::Thorough => *rng.pick(&[0u8, 1, 1, 2, 2, 3, 3, 4]) };
    let target_bytes = match class { 0 => rng.range(90_000, 170_000), 1 => rng.range(215_000, 380_000), 2 => rng.range(470_000, 720_000), 3 => rng.range(1_050_000, 1_600_000), _ => rng.range(2_100_000, 2_600_000) };
    Bulk { seed: rng.next_u64(), target_bytes, pad_max: *rng.pick(&[0u32, 3, 11, 24]), mix: rng.below(4) as u8, chunk_bytes: rng.range(60_000, 150_000) }
}
const BULK_ONE_IN: u64 = 8;
/// thousands of requests per worker: whole-frame writes (a byte-wise writer costs one main-loop iteration per
/// byte; fragmentation of answers is the business of the small plans), at most two workers, room for the scatter
fn large_plan_pacing(p: &mut HubCfgPlan) {
    p.knobs.max_command_buffer_size = 16_000_000;
    p.workers.truncate(2);
    p.workers2.truncate(2);
    for w in p.workers.iter_mut().chain(p.workers2.iter_mut()) { w.wq = Quantum::All; }
    p.client_wq = Quantum::All;
}

pub fn wrap(p: &HubCfgPlan) -> Value { serde_json::json!({ "hub": p }) }
pub fn unwrap(plan: &Value) -> Option<Result<HubCfgPlan, RunReport>> {
    let h = plan.get("hub")?;
    Some(serde_json::from_value(h.clone()).map_err(|e| RunReport { harness_error: Some(format!("bad hub plan: {e}")), ..Default::default() }))
}

/// SIMK_HUBCFG_ONLY=hub|model restricts a batch to one tier (development / sensitivity runs)
pub fn is_hub_seed(seed: u64, one_in: u64) -> bool {
    match std::env::var("SIMK_HUBCFG_ONLY").as_deref() { Ok("hub") => true, Ok("model") => false, _ => (seed >> 9) % one_in == 0 }
}

// ------------------------------------------------------------------------------------ plan-level triggers

pub fn is_token(s: &str) -> bool { !s.is_empty() && s.bytes().all(|b| b.is_ascii_alphanumeric() || b"!#$%&'*+-.^_`|~".contains(&b)) }

/// known-defect trigger carried by one request, from the request alone
pub fn trigger_of_request(r: &Request) -> Option<&'static str> {
    match r.request_type.as_ref()? {
        RequestType::ReplaceCertificate(_) => Some("replace_certificate_in_history"),
        RequestType::UpdateHttpListener(p) if p.sozu_id_header.as_ref().is_some_and(|h| !is_token(h)) => Some("listener_patch_with_invalid_field"),
        RequestType::UpdateHttpsListener(p) if p.sozu_id_header.as_ref().is_some_and(|h| !is_token(h)) || p.alpn_protocols.as_ref().is_some_and(|a| a.values.iter().any(|v| v != "h2" && v != "http/1.1")) => Some("listener_patch_with_invalid_field"),
        _ => None,
    }
}
pub fn triggers_of_ops(ops: &[Request]) -> BTreeSet<&'static str> { ops.iter().filter_map(trigger_of_request).collect() }

/// keep the requests that carry no known-defect trigger or the allowed one; drop empty requests (the main
/// process does not answer them at all, see `handle_client_request`; a CLI never sends one)
fn sanitize(ops: Vec<Request>, allowed: &str) -> Vec<Request> {
    ops.into_iter().filter(|r| r.request_type.is_some() && trigger_of_request(r).is_none_or(|t| t == allowed)).collect()
}

fn draw_ops_trigger(rng: &mut Prng) -> &'static str {
    match rng.below(4) { 0 => "replace_certificate_in_history", 1 => "listener_patch_with_invalid_field", _ => "none" }
}

/// the plan's trigger, recomputed from the plan (so that shrunk plans keep honest keys)
pub fn plan_trigger(p: &HubCfgPlan) -> String {
    let mut t: BTreeSet<String> = BTreeSet::new();
    for v in [&p.ops, &p.ops_b] { if let Ok(ops) = cfggen::ops_from_value(v) { for x in triggers_of_ops(&ops) { t.insert(x.to_string()); } } }
    if let Some(ts) = &p.toml {
        if ts.mutation.is_some() { t.insert("reload_of_rejected_file".into()); }
        else if volume_bound(&ts.cfg) > p.knobs.max_command_buffer_size { t.insert("scatter_larger_than_max_command_buffer_size".into()); }
    }
    if t.is_empty() { "none".into() } else { t.into_iter().collect::<Vec<_>>().join("+") }
}

/// Upper bound (from the plan alone) of the bytes one reload of this configuration scatters to one worker:
/// every string of the configuration, every file it names, a fixed allowance per entry.
pub fn volume_bound(cfg: &c20gen::Cfg) -> u64 {
    fn weight(v: &Value) -> u64 {
        match v {
            Value::String(s) => s.len() as u64 + 8 + if s.starts_with('/') { std::fs::metadata(s).map(|m| m.len()).unwrap_or(0) } else { 0 },
            Value::Array(a) => a.iter().map(weight).sum(),
            Value::Object(o) => o.iter().map(|(k, v)| k.len() as u64 + weight(v)).sum(),
            _ => 16,
        }
    }
    let obj = |o: &c20gen::Obj| -> u64 { o.iter().map(|(k, v)| k.len() as u64 + weight(v)).sum() };
    let canon = |o: &c20gen::Obj| -> String { o.get("address").and_then(|a| a.as_str()).map(|a| a.parse::<std::net::SocketAddr>().map(|x| x.to_string()).unwrap_or_else(|_| a.to_string())).unwrap_or_default() };
    let mut w = 0u64;
    let mut entries = 0u64;
    // a frontend without certificate of its own is served with (a copy of) its listener's
    let mut listener_weight: std::collections::BTreeMap<String, u64> = Default::default();
    for l in &cfg.listeners { let x = obj(l); w += x; entries += 1; listener_weight.insert(canon(l), x); }
    for c in &cfg.clusters {
        w += c.id.len() as u64 + obj(&c.fields); entries += 1;
        for f in &c.frontends { w += obj(f) + c.id.len() as u64 + listener_weight.get(&canon(f)).copied().unwrap_or(0); entries += 1; }
        for b in &c.backends { w += obj(b) + c.id.len() as u64; entries += 1; }
    }
    2 * w + 900 * entries + 4096
}

// ------------------------------------------------------------------------------------ generation

fn base_plan(seed: u64, rng: &mut Prng, kind: Kind, family: &str) -> HubCfgPlan {
    let mut sched = netsim::default_sched(rng, false);
    sched.preempt_pm = 0;
    let n_workers = *rng.pick(&[1usize, 2, 2, 3]);
    let worker = |rng: &mut Prng| WorkerSpec {
        pace: ReadPace::greedy(),
        wq: if rng.below(4) == 0 { Quantum::random(rng) } else { Quantum::All },
        answer_delay_ns: *rng.pick(&[0u64, 0, 0, 50_000, MS, 200 * MS]),
    };
    HubCfgPlan {
        seed, kind, family: family.into(), hub1_seed: rng.next_u64(), hub2_seed: rng.next_u64(), sched,
        knobs: HubKnobs { worker_timeout: 10, command_buffer_size: *rng.pick(&[16_384u64, 1_000_000]), max_command_buffer_size: 2_000_000, worker_sndbuf: None },
        workers: (0..n_workers).map(|_| worker(rng)).collect(),
        workers2: (0..*rng.pick(&[1usize, 2, 3])).map(|_| worker(rng)).collect(),
        client_wq: if rng.below(4) == 0 { Quantum::random(rng) } else { Quantum::All },
        think_ns: *rng.pick(&[0u64, 0, MS]),
        ops: Value::Array(vec![]), ops_b: Value::Array(vec![]), b_on_a: true, toml: None, real_files: rng.below(10) == 0, bulk: None,
    }
}

fn history_opts(rng: &mut Prng) -> GenOpts {
    let mut o = GenOpts::swarm(rng);
    o.symbolic_certs = true;
    o.big_text_pm = 0;
    o
}

pub fn gen_c07(seed: u64, _tier: Tier) -> Value {
    let mut rng = Prng::derive(seed, "hubcfg/c07");
    let mut p = base_plan(seed, &mut rng, Kind::Rejected, "hub_rejected");
    let mut o = history_opts(&mut rng);
    match rng.below(4) { 0 => { o.partial_pm = 700; o.invalid_pm = 60; } 1 => { o.partial_pm = 350; o.invalid_pm = 250; } 2 => { o.reuse_pm = 900; o.partial_pm = 400; } _ => {} }
    let len = *rng.pick(&[4usize, 8, 14, 20]);
    let allowed = draw_ops_trigger(&mut rng);
    let ops = sanitize(cfggen::gen_history(&mut rng, len, &o), allowed);
    p.ops = cfggen::ops_to_value(&ops);
    wrap(&p)
}

pub fn gen_c05(seed: u64, tier: Tier) -> Value {
    let mut rng = Prng::derive(seed, "hubcfg/c05");
    let upgrade = rng.below(5) < 2;
    let mut p = base_plan(seed, &mut rng, if upgrade { Kind::Upgrade } else { Kind::SaveLoad }, if upgrade { "hub_upgrade" } else { "hub_saveload" });
    let mut o = history_opts(&mut rng);
    match rng.below(6) { 0 => { o.opt_pm = 800; } 1 => { o.opt_pm = 0; } 2 => { for v in [cfggen::Verb::AddCertificate, cfggen::Verb::ReplaceCertificate, cfggen::Verb::RemoveCertificate] { o.weights.insert(v, 25); } } _ => {} }
    let max = match tier { Tier::Quick => 40, Tier::Thorough => 100 };
    let len = *rng.pick(&[5usize, 10, 20, max]);
    // only the certificate defect concerns save / replay; a trigger in a quarter of the plans
    let allowed = if rng.below(4) == 0 { "replace_certificate_in_history" } else { "none" };
    let mut ops = sanitize(cfggen::gen_history(&mut rng, len, &o), allowed);
    if !upgrade && rng.below(BULK_ONE_IN) == 0 {
        p.bulk = Some(draw_bulk(&mut rng, tier));
        p.family = "hub_saveload_large".into();
        large_plan_pacing(&mut p);
        ops.truncate(10);
    }
    p.ops = cfggen::ops_to_value(&ops);
    wrap(&p)
}

/// a loader-accepted configuration without known-defect feature, of the wanted size class if one turns up
fn draw_toml(rng: &mut Prng, tier: Tier, class: u64) -> c20gen::Plan {
    let want = |n: usize| -> bool { match class { 0 => n == 0, 1 => (1..8).contains(&n), 2 => (8..40).contains(&n), 3 => (40..=130).contains(&n), _ => n > 130 } };
    let mut fallback: Option<c20gen::Plan> = None;
    for _ in 0..120 {
        let q = c20gen::generate(rng.next_u64(), tier);
        let n = entries_of(&q.cfg);
        if want(n) { if clean_toml(&q) { return q; } }
        else if fallback.is_none() && n <= 40 && clean_toml(&q) { fallback = Some(q); }
    }
    fallback.unwrap_or_else(|| c20gen::Plan { seed: 0, family: "empty".into(), world_seed: 0, style: 0, cfg: c20gen::Cfg::default(), mutations: vec![] })
}

/// the independent reading of the file accepts it and sees no feature that is a recorded finding of C20
pub fn clean_toml(q: &c20gen::Plan) -> bool {
    let text = c20gen::render(&q.cfg, q.style);
    let Ok(doc) = toml::from_str::<toml::Table>(&text) else { return false };
    match c20model::read(&doc) { Ok(m) => m.features.is_empty() && m.dup_routes.is_empty() && m.dup_l4.is_empty(), Err(_) => false }
}

pub fn gen_c06(seed: u64, tier: Tier) -> Value {
    let mut rng = Prng::derive(seed, "hubcfg/c06");
    let reload = rng.below(4) == 0;
    let mut p = base_plan(seed, &mut rng, if reload { Kind::Reload } else { Kind::LoadOver }, if reload { "hub_reload_over" } else { "hub_load_over" });
    let mut o = history_opts(&mut rng);
    o.invalid_pm = o.invalid_pm.min(80);
    o.partial_pm = o.partial_pm.min(100);
    let max = match tier { Tier::Quick => 30, Tier::Thorough => 80 };
    let len = *rng.pick(&[4usize, 8, 16, max]);
    let allowed = draw_ops_trigger(&mut rng);
    let (a, mut mem) = cfggen::gen_history_mem(&mut rng, len, &o, Mem::default());
    if reload {
        let class = *rng.pick(&[1u64, 1, 2, 2, 3]);
        let q = draw_toml(&mut rng, tier, class);
        p.toml = Some(TomlSpec { cfg: q.cfg, style: q.style, mutation: None, twice: rng.below(3) == 0 });
        p.ops = cfggen::ops_to_value(&sanitize(a, allowed));
        return wrap(&p);
    }
    let (b_on_a, b): (bool, Vec<Request>) = match rng.below(8) {
        0 | 1 => { let n = 1 + rng.below(len as u64) as usize; (true, cfggen::gen_history_mem(&mut rng, n, &o, mem).0) }
        2 | 3 => { let n = 1 + rng.below(len as u64) as usize; (false, cfggen::gen_history(&mut rng, n, &o)) }
        4 => { let mut b = Vec::new(); for _ in 0..2 + rng.below(3) { b.extend(cfggen::gen_near_mutation(&mut rng, &o, &mut mem)); } (true, b) }
        5 => (true, vec![]),
        _ => (true, cfggen::gen_near_mutation(&mut rng, &o, &mut mem)),
    };
    p.b_on_a = b_on_a;
    if rng.below(BULK_ONE_IN) == 0 {
        p.bulk = Some(draw_bulk(&mut rng, tier));
        p.family = "hub_load_over_large".into();
        large_plan_pacing(&mut p);
    }
    p.ops = cfggen::ops_to_value(&sanitize(a, allowed));
    p.ops_b = cfggen::ops_to_value(&sanitize(b, allowed));
    wrap(&p)
}

fn entries_of(cfg: &c20gen::Cfg) -> usize { cfg.listeners.len() + cfg.clusters.iter().map(|c| 1 + c.frontends.len() + c.backends.len()).sum::<usize>() }

fn random_pace(rng: &mut Prng, volume: u64) -> ReadPace {
    // at most ~2500 paced reads per worker, at most ~200 s of virtual time spent pacing
    let min_q = (volume / 2500).max(16) as usize;
    let mut pace = ReadPace::greedy();
    match rng.below(6) {
        0 => {}
        1 | 2 => {
            let q = min_q.max(*rng.pick(&[64usize, 512, 4096]));
            pace.rq = if rng.below(2) == 0 { Quantum::Fixed(q) } else { Quantum::Uniform(q, 4 * q) };
            let reads = volume / q as u64 + 1;
            pace.gap_ns = (*rng.pick(&[10_000u64, 200_000, 5 * MS])).min(200 * SEC / reads);
        }
        3 => { pace.burst = Some((*rng.pick(&[MS, 20 * MS]), *rng.pick(&[50 * MS, SEC]))); pace.rq = Quantum::Fixed(min_q.max(1024)); }
        4 => { pace.stall = Some((rng.below(volume.max(1)), *rng.pick(&[SEC, 15 * SEC, 60 * SEC]))); }
        _ => {
            let q = min_q.max(256);
            pace.rq = Quantum::Fixed(q);
            pace.gap_ns = (*rng.pick(&[50_000u64, MS])).min(100 * SEC / (volume / q as u64 + 1));
            pace.stall = Some((rng.below(volume.max(1)), *rng.pick(&[SEC, 20 * SEC])));
        }
    }
    pace
}

pub fn gen_c20(seed: u64, tier: Tier) -> Value {
    let mut rng = Prng::derive(seed, "hubcfg/c20");
    let mut p = base_plan(seed, &mut rng, Kind::Reload, "hub_scatter");
    let class = match tier { Tier::Quick => *rng.pick(&[0u64, 1, 1, 2, 2, 2, 3, 3, 3, 4]), Tier::Thorough => *rng.pick(&[0u64, 1, 2, 2, 3, 3, 4, 4, 4]) };
    let q = draw_toml(&mut rng, tier, class);
    let bound = volume_bound(&q.cfg);
    // one known-defect trigger at most, none in half of the plans
    let variant = match rng.below(20) { 0..=9 => "fits", 10..=16 => "overflow", _ => "rejected_file" };
    let mut spec = TomlSpec { cfg: q.cfg, style: q.style, mutation: None, twice: false };
    let mut variant = variant;
    if variant == "rejected_file" {
        let mut kinds: Vec<&str> = c20gen::MUTATION_KINDS.iter().copied().filter(|k| !c20gen::DEFECT_MUTATIONS.contains(k)).collect();
        rng.shuffle(&mut kinds);
        'find: for k in kinds {
            for _ in 0..3 {
                let nl = spec.cfg.listeners.len().max(1) as u64;
                let nc = spec.cfg.clusters.len().max(1) as u64;
                let m = c20gen::Mutation { kind: k.to_string(), a: rng.below(nl.max(nc)) as usize, b: rng.below(8) as usize };
                let Some(c2) = c20gen::mutate(&spec.cfg, &m) else { continue };
                let text = c20gen::render(&c2, spec.style);
                let Ok(doc) = toml::from_str::<toml::Table>(&text) else { continue };
                if matches!(c20model::read(&doc), Err(c20model::Rej::Reject(_))) { spec.mutation = Some(m); break 'find; }
            }
        }
        if spec.mutation.is_none() { variant = "fits"; }
    }
    match variant {
        "overflow" => {
            p.knobs.max_command_buffer_size = (bound / *rng.pick(&[8u64, 16, 64])).max(1024);
            p.knobs.command_buffer_size = 1024;
        }
        _ => {
            p.knobs.max_command_buffer_size = bound * *rng.pick(&[1u64, 1, 2, 4]);
            p.knobs.command_buffer_size = (*rng.pick(&[1024u64, 4096, 16_384])).min(p.knobs.max_command_buffer_size);
            spec.twice = spec.mutation.is_none() && rng.below(3) == 0;
        }
    }
    p.knobs.worker_sndbuf = *rng.pick(&[Some(4608), Some(4608), Some(16_384), None]);
    p.knobs.worker_timeout = *rng.pick(&[2u32, 10, 10]);
    let n_workers = *rng.pick(&[1usize, 2, 2, 3]);
    p.workers = (0..n_workers).map(|_| WorkerSpec {
        pace: random_pace(&mut rng, bound / 3),
        wq: if rng.below(3) == 0 { Quantum::random(&mut rng) } else { Quantum::All },
        answer_delay_ns: *rng.pick(&[0u64, 0, 100_000, 5 * MS, 300 * MS]),
    }).collect();
    p.toml = Some(spec);
    wrap(&p)
}

// ------------------------------------------------------------------------------------ property-facing API

pub fn summarize(p: &HubCfgPlan) -> String {
    let ops = cfggen::ops_from_value(&p.ops).unwrap_or_default();
    let mut s = format!("{} trigger={} w={} buf={}/{} sndbuf={:?} ops=[{}]", p.family, plan_trigger(p), p.workers.len(), p.knobs.command_buffer_size, p.knobs.max_command_buffer_size, p.knobs.worker_sndbuf, cfggen::summarize_ops(&ops));
    if p.kind == Kind::LoadOver { s += &format!(" B={}+[{}]", if p.b_on_a { "A" } else { "empty" }, cfggen::summarize_ops(&cfggen::ops_from_value(&p.ops_b).unwrap_or_default())); }
    if let Some(b) = &p.bulk { s += &format!(" bulk(target={}B pad<={} mix={} chunk={}B)", b.target_bytes, b.pad_max, b.mix, b.chunk_bytes); }
    if let Some(t) = &p.toml { s += &format!(" toml(entries={} bound={} mutation={:?} twice={}) paces=[{}]", entries_of(&t.cfg), volume_bound(&t.cfg), t.mutation.as_ref().map(|m| m.kind.clone()), t.twice, p.workers.iter().map(|w| w.pace.name()).collect::<Vec<_>>().join(",")); }
    s
}

/// Process-global lazily initialised state in sozu and its dependencies (X.509 OID tables, regexes, loader
/// tables, ...) is built by the first run that needs it and shifts that run's per-thread hash-key counter,
/// hence the order in which the main process walks its worker map. Every process therefore executes a fixed
/// set of throw-away plans (one per kind, with certificates, listener patches and a TOML with an HTTPS
/// listener) before its first hub plan; afterwards a plan's trace is a function of the plan alone.
fn warm_up() {
    static WARM: std::sync::Once = std::sync::Once::new();
    WARM.call_once(|| {
        super::c20::warm_up();
        for (i, v) in [gen_c07(3, Tier::Quick), gen_c05(3, Tier::Quick), gen_c05(7, Tier::Quick), gen_c06(3, Tier::Quick), gen_c06(2, Tier::Quick), gen_c20(5, Tier::Quick), gen_c20(9, Tier::Quick)].into_iter().enumerate() {
            if let Some(Ok(mut p)) = unwrap(&v) {
                // every warm-up plan carries certificates
                if i < 5 {
                    let mut rng = Prng::derive(77 + i as u64, "hubcfg/warm");
                    let mut o = GenOpts::full().valid_only();
                    o.symbolic_certs = true;
                    for verb in [cfggen::Verb::AddCertificate, cfggen::Verb::ReplaceCertificate, cfggen::Verb::AddHttpsListener, cfggen::Verb::UpdateHttpsListener] { o.weights.insert(verb, 30); }
                    let extra = cfggen::gen_history(&mut rng, 12, &o);
                    let mut ops = cfggen::ops_from_value(&p.ops).unwrap_or_default();
                    ops.extend(extra);
                    p.ops = cfggen::ops_to_value(&ops);
                }
                let _ = judge::run(&p, false);
            }
        }
    });
}

pub fn run_plan(p: &HubCfgPlan, verbose: bool) -> (RunReport, String) { warm_up(); judge::run(p, verbose) }

pub fn shrink(p: &HubCfgPlan) -> Vec<Value> {
    let mut out: Vec<HubCfgPlan> = Vec::new();
    for which in ["ops_b", "ops"] {
        let cur = if which == "ops" { &p.ops } else { &p.ops_b };
        for cand in cfggen::shrink_ops(cur).into_iter().take(160) { let mut q = p.clone(); if which == "ops" { q.ops = cand; } else { q.ops_b = cand; } out.push(q); }
    }
    if let Some(b) = &p.bulk {
        { let mut q = p.clone(); q.bulk = None; out.push(q); }
        if b.target_bytes > 2_000 { for d in [8u64, 2] { let mut q = p.clone(); q.bulk.as_mut().unwrap().target_bytes = b.target_bytes / d; out.push(q); } let mut q = p.clone(); q.bulk.as_mut().unwrap().target_bytes = b.target_bytes * 9 / 10; out.push(q); }
        if b.pad_max != 0 { let mut q = p.clone(); q.bulk.as_mut().unwrap().pad_max = 0; out.push(q); }
        if b.mix != 1 { let mut q = p.clone(); q.bulk.as_mut().unwrap().mix = 1; out.push(q); }
    }
    if p.workers.len() > 1 { for i in 0..p.workers.len() { let mut q = p.clone(); q.workers.remove(i); out.push(q); } }
    if p.workers2.len() > 1 { let mut q = p.clone(); q.workers2.truncate(1); out.push(q); }
    if p.workers.iter().any(|w| *w != WorkerSpec::plain()) {
        let mut q = p.clone(); for w in q.workers.iter_mut() { *w = WorkerSpec::plain(); } out.push(q);
        for i in 0..p.workers.len() { if p.workers[i] != WorkerSpec::plain() { let mut q = p.clone(); q.workers[i] = WorkerSpec::plain(); out.push(q); } }
    }
    if let Some(t) = &p.toml {
        if t.twice { let mut q = p.clone(); q.toml.as_mut().unwrap().twice = false; out.push(q); }
        // smaller configurations (the knobs stay: the trigger is recomputed from the shrunk plan)
        let c = &t.cfg;
        let (nc, nl) = (c.clusters.len(), c.listeners.len());
        let mut cands: Vec<c20gen::Cfg> = Vec::new();
        {
            if nc > 1 { let mut x = c.clone(); x.clusters.truncate(nc / 2); cands.push(x); let mut x = c.clone(); x.clusters.drain(..nc / 2); cands.push(x); }
            if nl > 1 { let mut x = c.clone(); x.listeners.truncate(nl / 2); cands.push(x); let mut x = c.clone(); x.listeners.drain(..nl / 2); cands.push(x); }
            for i in 0..nc.min(12) { let mut x = c.clone(); x.clusters.remove(i); cands.push(x); }
            for i in 0..nl.min(12) { let mut x = c.clone(); x.listeners.remove(i); cands.push(x); }
            for i in 0..nc.min(8) {
                let (nf, nb) = (c.clusters[i].frontends.len(), c.clusters[i].backends.len());
                if nf > 0 { let mut x = c.clone(); x.clusters[i].frontends.truncate(nf / 2); cands.push(x); }
                if nb > 0 { let mut x = c.clone(); x.clusters[i].backends.truncate(nb / 2); cands.push(x); }
            }
            if !c.globals.is_empty() { let mut x = c.clone(); x.globals.clear(); cands.push(x); }
        }
        let still_rejected = |x: &c20gen::Cfg, m: &c20gen::Mutation| -> bool {
            let Some(c2) = c20gen::mutate(x, m) else { return false };
            let Ok(doc) = toml::from_str::<toml::Table>(&c20gen::render(&c2, t.style)) else { return false };
            matches!(c20model::read(&doc), Err(c20model::Rej::Reject(_)))
        };
        for x in cands {
            // only configurations the independent reading still accepts (and, for a neighbour, still refuses once mutated)
            let q0 = c20gen::Plan { seed: 0, family: String::new(), world_seed: 0, style: t.style, cfg: x.clone(), mutations: vec![] };
            if !clean_toml(&q0) { continue; }
            match &t.mutation {
                None => {
                    let mut q = p.clone(); q.toml.as_mut().unwrap().cfg = x.clone(); out.push(q);
                    // an overflow plan stays one with a smaller configuration if the ceiling shrinks along
                    if volume_bound(c) > p.knobs.max_command_buffer_size && volume_bound(&x) <= p.knobs.max_command_buffer_size {
                        let mut q = p.clone(); q.toml.as_mut().unwrap().cfg = x.clone(); q.knobs.max_command_buffer_size = (volume_bound(&x) / 8).max(1024); q.knobs.command_buffer_size = 1024; out.push(q);
                    }
                }
                Some(m) => {
                    if still_rejected(&x, m) { let mut q = p.clone(); q.toml.as_mut().unwrap().cfg = x.clone(); out.push(q); }
                    // or a simpler neighbour of the smaller configuration
                    for k in ["listener_unknown_protocol", "cluster_unknown_protocol", "bad_address"] {
                        let m2 = c20gen::Mutation { kind: k.to_string(), a: 0, b: 0 };
                        if m2.kind != m.kind && still_rejected(&x, &m2) { let mut q = p.clone(); let ts = q.toml.as_mut().unwrap(); ts.cfg = x.clone(); ts.mutation = Some(m2); out.push(q); break; }
                    }
                }
            }
        }
    }
    if p.client_wq != Quantum::All || p.think_ns != 0 { let mut q = p.clone(); q.client_wq = Quantum::All; q.think_ns = 0; out.push(q); }
    let d = SchedCfg::default();
    if p.sched.ev_truncate_pm != 0 || p.sched.ev_permute_pm != 0 || p.sched.actor_burst != d.actor_burst { let mut q = p.clone(); q.sched = d; out.push(q); }
    out.iter().map(wrap).collect()
}

/// one seed in this many is a hub-tier plan
fn one_in(id: &str) -> u64 { match id { "C05" => 16, "C06" => 48, "C07" => 32, "C20" => 32, _ => u64::MAX } }

pub fn dispatch_gen(id: &str, seed: u64, tier: Tier) -> Option<Value> {
    if !is_hub_seed(seed, one_in(id)) { return None; }
    Some(match id { "C05" => gen_c05(seed, tier), "C06" => gen_c06(seed, tier), "C07" => gen_c07(seed, tier), "C20" => gen_c20(seed, tier), _ => return None })
}
pub fn dispatch_run(plan: &Value) -> Option<RunReport> { Some(match unwrap(plan)? { Ok(p) => run_plan(&p, false).0, Err(r) => r }) }
pub fn dispatch_shrink(plan: &Value) -> Option<Vec<Value>> { Some(match unwrap(plan)? { Ok(p) => shrink(&p), Err(_) => vec![] }) }
pub fn dispatch_debug(plan: &Value) -> Option<String> {
    Some(match unwrap(plan)? { Ok(p) => { let (r, d) = run_plan(&p, true); format!("{}\n{d}\nviolations: {:#?}\nharness_error: {:?}\nprobes: {:?}\n", r.summary, r.violations, r.harness_error, r.probes) } Err(r) => format!("{:?}", r.harness_error) })
}

/// text for the `not_covered` / rule sections of the four properties
pub const RULE: &str = "HUB TIER (plan field `hub`, module props/hubcfg.rs): the real CommandHub::run() with 1-3 recording workers (apply every WorkerRequest to their own ConfigState, answer accordingly) and one sequential CLI client on the real command socket; the main process's state is observed through SaveState files and the main-side list / query verbs only";
