//! C12 — traffic only goes to backends that are eligible right now.
//!
//! modelsim: seeded operation histories against the public `sozu_lib::backends::BackendMap` (the
//! object the worker's `Server` applies AddBackend / RemoveBackend / AddCluster to and every session
//! asks for a backend), under the virtual clock (back-off windows are crossed by `w.now += ..`) and
//! seeded entropy (random policies, back-off jitter), compared after every operation with a small
//! reference model written from the property statement and the documentation.
//!
//! Model: per backend instance (member of its cluster list or removed, status Normal/Closing/Closed,
//! healthy + success/failure streaks, retry state {tries, last failure, drawn wait}, backup, cookie value,
//! weight, open connections, active requests). eligible = member /\ Normal /\ healthy /\ now - last failure >= wait.
//! Allowed set of a selection = eligible primaries, else eligible backups, else (documented fail-open)
//! Normal members outside their back-off regardless of health, else nothing. The drawn back-off is the only
//! random quantity; it is read from the policy's `Debug` text (and range-checked), never recomputed.
//!
//! Violation classes (key): ineligible_selected (lb|<policy>|<reason> or cookie|<reason>),
//! no_backend_despite_eligible (<policy>|<regime>), sticky_ignored, affinity_moved (<policy>|<kind>[|trigger]),
//! counter_mismatch / counter_wrapped / counter_not_zero_at_end (<field>), lifecycle_mismatch, health_mismatch,
//! retry_mismatch, backoff_out_of_range, predicate_mismatch (can_open / is_available against the model's
//! predicate), membership_mismatch, panic. A run stops at the first operation that yields a violation.
#![allow(dead_code)]
use std::cell::RefCell;
use std::collections::BTreeMap;
use std::net::SocketAddr;
use std::rc::{Rc, Weak};

use serde::{Deserialize, Serialize};
use serde_json::Value;
use sozu_command_lib::proto::command::{LoadBalancingAlgorithms, LoadBalancingParams, LoadMetric};
use sozu_lib::backends::{Backend, BackendMap, BackendStatus};
use sozu_lib::retry::RetryPolicy;

use crate::framework::*;
use crate::prng::{Prng, TraceHash};
use crate::world::{ConnectMode, SchedCfg, World, MS, SEC};

#[path = "c12_net.rs"]
pub mod c12_net;
#[path = "c12_netmodel.rs"]
pub mod c12_netmodel;

pub struct C12;

/// one seed in `NET_EVERY` is a traffic-tier plan (real worker, `c12_net.rs`); the others are model-tier plans
const NET_EVERY: u64 = 40;

fn is_net(plan: &Value) -> bool { plan.get("net").is_some() }

fn run_net(plan: &Value, verbose: bool) -> (RunReport, String) {
    let p: c12_net::NetPlan = match serde_json::from_value(plan["net"].clone()) { Ok(p) => p, Err(e) => return (RunReport { harness_error: Some(format!("bad traffic plan: {e}")), ..Default::default() }, String::new()) };
    let (o, side) = c12_net::run(&p, verbose);
    let j = c12_netmodel::judge(&p, &o, &side, verbose);
    let mut h = TraceHash::new();
    h.mix(o.trace_hash);
    for v in &j.violations { h.mix_bytes(v.class.as_bytes()); h.mix_bytes(v.key.as_bytes()); }
    let mut rep = RunReport { seed: p.seed, family: p.family.clone(), violations: j.violations, trace_hash: h.0, nontrivial: j.nontrivial, stats: o.stats.clone(), probes: j.probes, summary: c12_net::summarize(&p), ..Default::default() };
    rep.probes.insert("traffic_plans".into(), 1);
    if let Some(e) = &o.boot_error { rep.harness_error = Some(format!("worker boot failed: {e}")); }
    if let Some(e) = j.harness { rep.harness_error = Some(e); }
    let mut text = String::new();
    if verbose {
        text = c12_net::summarize(&p) + "\n";
        for l in &o.log { text += l; text.push('\n'); }
        text += "---- oracle\n";
        for l in &j.log { text += l; text.push('\n'); }
        for v in &rep.violations { text += &format!("VIOLATION {} {}: {}\n", v.class, v.key, v.detail); }
        if let Some(e) = &rep.harness_error { text += &format!("HARNESS-ERROR {e}\n"); }
    }
    (rep, text)
}

const MAX_TRIES: usize = 6; // Backend::new -> ExponentialBackoffPolicy::new(6) (doc/configure.md: "default 6")
const POLICIES: [&str; 7] = ["round_robin", "random", "least_loaded", "power_of_two", "hrw", "maglev", "default"];

// ------------------------------------------------------------------------------------------ plan

#[derive(Clone, Debug, Serialize, Deserialize, PartialEq)]
pub struct Plan {
    pub seed: u64,
    pub family: String,
    /// second octet of the simulated backend addresses (varies the affinity hashes between plans)
    pub base: u8,
    /// health-check thresholds of every cluster in this plan
    pub thr_up: u32,
    pub thr_down: u32,
    pub ops: Vec<Op>,
}

#[derive(Clone, Debug, Serialize, Deserialize, PartialEq)]
#[serde(tag = "op")]
pub enum Op {
    /// AddCluster / policy change: `set_load_balancing_policy_for_cluster` (algo 0..=5, metric 0 = none, 1..=3)
    Policy { c: u8, algo: u8, metric: u8 },
    /// AddBackend as `Server::add_backend` applies it (sticky 0 = none; backup 0 = unset, 1 = false, 2 = true)
    Add { c: u8, id: u8, addr: u8, sticky: u8, weight: Option<i32>, backup: u8 },
    /// RemoveBackend as `Server::remove_backend` applies it (address keyed)
    Remove { c: u8, addr: u8 },
    /// one health-check result as `HealthChecker::record_check_result` applies it (address keyed)
    Health { c: u8, addr: u8, ok: bool },
    /// `set_health_check_config(cluster, None)` (AddCluster without a health check)
    HealthOff { c: u8 },
    Advance { ms: u64 },
    /// pure selection; via 0 = `BackendMap::backend_from_cluster_id_with_key`, 1 = `BackendList::next_available_backend_with_key`
    Select { c: u8, key: Option<u64>, via: u8 },
    /// pure sticky lookup: `BackendList::find_sticky`
    Sticky { c: u8, s: u8 },
    /// session connect: `backend_from_sticky_session` (s > 0) or `backend_from_cluster_id` (s = 0); the
    /// simulated network answers connect() with EINPROGRESS (net_ok) or a synchronous ENETUNREACH
    Connect { c: u8, s: u8, net_ok: bool, streams: u8 },
    /// outcome of a pending connect as `mux` applies it: ok -> failures = 0, retry.succeed(), requests += streams;
    /// !ok -> failures += 1, retry.fail(), connection closed
    Outcome { conn: u8, ok: bool },
    /// a stream starts / ends on an established connection
    Stream { conn: u8, start: bool },
    Close { conn: u8 },
    /// `Backend::set_closing()` on the backend of an open connection (pub API; the worker itself never calls it)
    SetClosing { conn: u8 },
}

fn op_name(op: &Op) -> &'static str {
    match op {
        Op::Policy { .. } => "policy", Op::Add { .. } => "add", Op::Remove { .. } => "remove", Op::Health { .. } => "health",
        Op::HealthOff { .. } => "health_off", Op::Advance { .. } => "advance", Op::Select { .. } => "select", Op::Sticky { .. } => "sticky",
        Op::Connect { .. } => "connect", Op::Outcome { .. } => "outcome", Op::Stream { .. } => "stream", Op::Close { .. } => "close",
        Op::SetClosing { .. } => "set_closing",
    }
}

/// keep every index inside the fixed alphabets (plans may be edited by hand or by shrinking)
fn normalise(op: &Op) -> Op {
    let mut o = op.clone();
    match &mut o {
        Op::Policy { c, algo, metric } => { *c %= 2; *algo %= 6; *metric %= 4; }
        Op::Add { c, addr, sticky, backup, .. } => { *c %= 2; *addr %= 4; *sticky %= 3; *backup %= 3; }
        Op::Remove { c, addr } | Op::Health { c, addr, .. } => { *c %= 2; *addr %= 4; }
        Op::HealthOff { c } | Op::Select { c, .. } => { *c %= 2; }
        Op::Sticky { c, s } | Op::Connect { c, s, .. } => { *c %= 2; *s %= 3; }
        _ => {}
    }
    o
}

fn addr_of(base: u8, a: u8) -> SocketAddr {
    if a == 3 { format!("[fd00::{:x}]:8443", base as u16 + 1).parse().unwrap() } else { format!("10.{}.0.{}:{}", base, a + 1, 8000 + a as u16).parse().unwrap() }
}
fn cluster_name(c: u8) -> String { format!("c{c}") }
fn sticky_name(s: u8) -> Option<String> { if s == 0 { None } else { Some(format!("s{s}")) } }

pub fn generate(seed: u64, tier: Tier) -> Plan {
    let mut r = Prng::derive(seed, "c12/plan");
    let ncl = if r.below(4) == 0 { 2 } else { 1 };
    let nid = 1 + r.below(4) as u8;
    let naddr = 1 + r.below(4) as u8;
    let nst = r.below(3) as u8;
    let nkeys = 1 + r.below(3) as usize;
    let keypool = [0u64, 1, 2, 65536, 65537, 65538, u64::MAX, r.next_u64(), r.next_u64()];
    let keys: Vec<u64> = (0..nkeys).map(|_| *r.pick(&keypool)).collect();
    let weights: Vec<Option<i32>> = match r.below(4) {
        0 => vec![None],
        1 => vec![None, Some(100), Some(1), Some(255)],
        2 => vec![Some(0), Some(1), Some(50), Some(100)],
        _ => vec![None, Some(0), Some(-5), Some(i32::MAX), Some(i32::MIN), Some(100)],
    };
    let fixed_algo = if r.below(3) > 0 { Some(r.below(6) as u8) } else { None };
    let max_len = match tier { Tier::Quick => 40, Tier::Thorough => 100 };
    let len = 4 + r.below(max_len) as usize;
    // swarm: per-plan operation mix
    //            policy add rem health hoff adv sel sticky conn outc stream close closing
    let preset = r.below(4);
    let mut w: [u64; 13] = match preset {
        0 => [1, 4, 2, 4, 1, 4, 8, 2, 4, 3, 2, 2, 0],
        1 => [1, 3, 1, 1, 0, 6, 4, 1, 8, 5, 1, 2, 0], // flaky network: many connects and time steps
        2 => [2, 5, 4, 2, 1, 2, 8, 3, 3, 2, 1, 2, 1], // churn
        _ => [1, 3, 2, 5, 1, 3, 6, 4, 3, 2, 3, 3, 1],
    };
    for i in 0..13 { if i != 6 && r.below(5) == 0 { w[i] = 0; } }
    if fixed_algo.is_some() && r.below(2) == 0 { w[0] = 0; }
    if nst == 0 { w[7] = 0; }
    let total: u64 = w.iter().sum();
    let advs = [1u64, 400, 999, 1000, 1001, 2000, 3000, 7000, 15000, 31000, 32000, 63000, 64000];
    let mut ops = Vec::new();
    for c in 0..ncl {
        if r.below(4) > 0 { ops.push(Op::Policy { c, algo: fixed_algo.unwrap_or_else(|| r.below(6) as u8), metric: r.below(4) as u8 }); }
    }
    let gen_add = |r: &mut Prng| Op::Add {
        c: r.below(ncl as u64) as u8, id: r.below(nid as u64) as u8, addr: r.below(naddr as u64) as u8,
        sticky: if nst == 0 { 0 } else { r.below(nst as u64 + 1) as u8 }, weight: *r.pick(&weights),
        backup: *r.pick(&[0u8, 0, 1, 2, 2]),
    };
    for _ in 0..(1 + r.below(4)) { ops.push(gen_add(&mut r)); }
    while ops.len() < len {
        let mut x = r.below(total.max(1));
        let mut k = 0;
        while k < 12 && x >= w[k] { x -= w[k]; k += 1; }
        let c = r.below(ncl as u64) as u8;
        let op = match k {
            0 => Op::Policy { c, algo: if r.below(3) == 0 { r.below(6) as u8 } else { fixed_algo.unwrap_or_else(|| r.below(6) as u8) }, metric: r.below(4) as u8 },
            1 => gen_add(&mut r),
            2 => Op::Remove { c, addr: r.below(naddr as u64) as u8 },
            3 => Op::Health { c, addr: r.below(naddr as u64) as u8, ok: r.below(3) == 0 },
            4 => Op::HealthOff { c },
            5 => Op::Advance { ms: if preset == 1 && r.below(2) == 0 { *r.pick(&advs[7..]) } else { *r.pick(&advs) } },
            6 => Op::Select { c, key: if r.below(3) == 0 { None } else { Some(*r.pick(&keys)) }, via: r.below(2) as u8 },
            7 => Op::Sticky { c, s: 1 + r.below(nst.max(1) as u64) as u8 },
            8 => Op::Connect { c, s: if nst > 0 && r.below(2) == 0 { 1 + r.below(nst as u64) as u8 } else { 0 }, net_ok: if preset == 1 { r.below(3) == 0 } else { r.below(3) > 0 }, streams: r.below(3) as u8 },
            9 => Op::Outcome { conn: r.below(4) as u8, ok: if preset == 1 { r.below(4) == 0 } else { r.below(2) == 0 } },
            10 => Op::Stream { conn: r.below(4) as u8, start: r.below(2) == 0 },
            11 => Op::Close { conn: r.below(4) as u8 },
            _ => Op::SetClosing { conn: r.below(4) as u8 },
        };
        ops.push(op);
    }
    let mut p = Plan { seed, family: String::new(), base: 1 + r.below(3) as u8, thr_up: 1 + r.below(3) as u32, thr_down: 1 + r.below(3) as u32, ops };
    p.family = family_of(&p);
    p
}

fn family_of(p: &Plan) -> String {
    let mut algos: Vec<u8> = p.ops.iter().filter_map(|o| if let Op::Policy { algo, .. } = o { Some(*algo) } else { None }).collect();
    algos.sort(); algos.dedup();
    let base = match algos.len() { 0 => "default".to_string(), 1 => POLICIES[algos[0] as usize % 6].to_string(), _ => "mixed".to_string() };
    if p.ops.iter().any(|o| matches!(o, Op::SetClosing { .. })) { format!("{base}+closing") } else { base }
}

pub fn summarize(p: &Plan) -> String {
    let mut s = format!("{} thr={}/{} ", p.family, p.thr_up, p.thr_down);
    for o in &p.ops {
        s += &match o {
            Op::Policy { c, algo, metric } => format!("P{c}:{}{} ", POLICIES[*algo as usize % 6], if *metric > 0 { format!("/{metric}") } else { String::new() }),
            Op::Add { c, id, addr, sticky, weight, backup } => format!("+{c}:b{id}@{addr}{}{}{} ", if *sticky > 0 { format!("s{sticky}") } else { String::new() }, weight.map(|w| format!("w{w}")).unwrap_or_default(), if *backup == 2 { "B" } else { "" }),
            Op::Remove { c, addr } => format!("-{c}:@{addr} "),
            Op::Health { c, addr, ok } => format!("H{c}:@{addr}{} ", if *ok { "+" } else { "-" }),
            Op::HealthOff { c } => format!("H{c}:off "),
            Op::Advance { ms } => format!("T+{ms} "),
            Op::Select { c, key, via } => format!("sel{via}({c},{}) ", key.map(|k| format!("{k:x}")).unwrap_or("-".into())),
            Op::Sticky { c, s } => format!("stk({c},s{s}) "),
            Op::Connect { c, s, net_ok, streams } => format!("conn({c},{}{},{streams}) ", if *s > 0 { format!("s{s},") } else { String::new() }, if *net_ok { "ok" } else { "unreach" }),
            Op::Outcome { conn, ok } => format!("res({conn},{}) ", if *ok { "up" } else { "fail" }),
            Op::Stream { conn, start } => format!("str({conn},{}) ", if *start { "+" } else { "-" }),
            Op::Close { conn } => format!("close({conn}) "),
            Op::SetClosing { conn } => format!("closing({conn}) "),
        };
    }
    s
}

// --------------------------------------------------------------------------------- reference model

#[derive(Clone, Copy, PartialEq, Debug)]
enum St { Normal, Closing, Closed }

#[derive(Clone, Debug)]
struct MB {
    cluster: u8,
    /// currently a member of its cluster's backend list
    present: bool,
    id: u8,
    addr: u8,
    sticky: u8,
    weight: Option<i32>,
    backup: bool,
    st: St,
    healthy: bool,
    succ: u32,
    fails: u32,
    tries: usize,
    last_try: u64,
    wait_ns: u64,
    failures: usize,
    conns: usize,
    reqs: usize,
}

impl MB {
    fn backing_off(&self, now: u64) -> bool { now.saturating_sub(self.last_try) < self.wait_ns }
    /// the property's predicate: belongs to the cluster, not being removed, not marked unhealthy, not inside its back-off
    fn eligible(&self, now: u64) -> bool { self.present && self.st == St::Normal && self.healthy && !self.backing_off(now) }
    fn fail_open_ok(&self, now: u64) -> bool { self.present && self.st == St::Normal && !self.backing_off(now) }
}

#[derive(Clone, Copy, PartialEq, Debug)]
enum Regime { Primary, Backup, FailOpen, Nothing }
impl Regime { fn name(&self) -> &'static str { match self { Regime::Primary => "primary", Regime::Backup => "backup", Regime::FailOpen => "fail_open", Regime::Nothing => "none" } } }

#[derive(Default)]
struct MC {
    exists: bool,
    list: Vec<usize>,
    /// 0..=5, 6 = never set (BackendList default)
    algo: u8,
    /// affinity memo: key -> (full set fingerprint, allowed set fingerprint, winner)
    memo: BTreeMap<u64, (Vec<(usize, u8, i64)>, Vec<(usize, u8, i64)>, usize)>,
}

fn allowed(mc: &MC, mbs: &[MB], now: u64) -> (Vec<usize>, Regime) {
    let p: Vec<usize> = mc.list.iter().copied().filter(|&u| !mbs[u].backup && mbs[u].eligible(now)).collect();
    if !p.is_empty() { return (p, Regime::Primary); }
    let b: Vec<usize> = mc.list.iter().copied().filter(|&u| mbs[u].backup && mbs[u].eligible(now)).collect();
    if !b.is_empty() { return (b, Regime::Backup); }
    let f: Vec<usize> = mc.list.iter().copied().filter(|&u| mbs[u].fail_open_ok(now)).collect();
    if !f.is_empty() { return (f, Regime::FailOpen); }
    (Vec::new(), Regime::Nothing)
}

enum StickyExp {
    /// no (qualifying) holder of this cookie value: normal selection
    Fallback,
    /// exactly this backend
    Must(usize),
    /// several backends share the cookie value (configuration ambiguity): any of `.0`; `.1` = normal selection also acceptable
    Any(Vec<usize>, bool),
}

fn sticky_expect(mc: &MC, mbs: &[MB], s: u8, now: u64) -> StickyExp {
    if s == 0 { return StickyExp::Fallback; }
    let holders: Vec<usize> = mc.list.iter().copied().filter(|&u| mbs[u].sticky == s).collect();
    let elig: Vec<usize> = holders.iter().copied().filter(|&u| mbs[u].eligible(now)).collect();
    if holders.is_empty() || elig.is_empty() { return StickyExp::Fallback; }
    if holders.len() == 1 { return StickyExp::Must(holders[0]); }
    let all = elig.len() == holders.len();
    StickyExp::Any(elig, !all)
}

fn why_not(mbs: &[MB], c: u8, u: usize, regime: Regime, now: u64) -> &'static str {
    let b = &mbs[u];
    if b.cluster != c { return "other_cluster"; }
    if !b.present { return "removed"; }
    match b.st { St::Closing => return "closing", St::Closed => return "closed", St::Normal => {} }
    if b.backing_off(now) { return "in_backoff"; }
    if !b.healthy && regime != Regime::FailOpen { return "unhealthy"; }
    if b.backup && regime == Regime::Primary { return "backup_while_primary_qualifies"; }
    "not_in_allowed_set"
}

// ------------------------------------------------------------------------------------- execution

#[derive(PartialEq)]
enum CState { Connecting, Connected }
struct Conn { uid: usize, rc: Rc<RefCell<Backend>>, state: CState, streams: usize }

struct Exec<'a> {
    plan: &'a Plan,
    map: BackendMap,
    mbs: Vec<MB>,
    weak: Vec<Weak<RefCell<Backend>>>,
    mcs: Vec<MC>,
    conns: Vec<Conn>,
    now: u64,
    v: Vec<Violation>,
    h: TraceHash,
    probes: BTreeMap<String, u64>,
    closing_used: bool,
    judged_with_exclusion: u64,
    log: Option<Vec<String>>,
    cur_op: &'static str,
    ops_done: u64,
}

fn parse_field(s: &str, name: &str) -> Option<u64> {
    let i = s.find(name)? + name.len();
    let d: String = s[i..].chars().take_while(|c| c.is_ascii_digit()).collect();
    d.parse().ok()
}
/// (max_tries, current_tries, last_try ns, wait ns) from the policy's `Debug` text
fn parse_retry(s: &str) -> Option<(u64, u64, u64, u64)> {
    let max = parse_field(s, "max_tries: ")?;
    let cur = parse_field(s, "current_tries: ")?;
    let sec = parse_field(s, "tv_sec: ")?;
    let nsec = parse_field(s, "tv_nsec: ")?;
    let i = s.find("wait: ")? + 6;
    let rest = &s[i..];
    let num: String = rest.chars().take_while(|c| c.is_ascii_digit() || *c == '.').collect();
    let unit: String = rest[num.len()..].chars().take_while(|c| c.is_alphabetic() || *c == 'µ').collect();
    let f: f64 = num.parse().ok()?;
    let mult = match unit.as_str() { "ns" => 1.0, "µs" | "us" => 1e3, "ms" => 1e6, "s" => 1e9, _ => return None };
    Some((max, cur, sec * SEC + nsec, (f * mult).round() as u64))
}

impl<'a> Exec<'a> {
    fn probe(&mut self, k: &str) { *self.probes.entry(k.to_string()).or_insert(0) += 1; }
    fn viol(&mut self, class: &str, key: String, detail: String) {
        let detail = format!("[after {}{}] {detail}", self.cur_op, if self.closing_used { "; set_closing() was used earlier" } else { "" });
        if let Some(l) = self.log.as_mut() { l.push(format!("  !! {class} {key}: {detail}")); }
        if !self.v.iter().any(|x| x.class == class && x.key == key) { self.v.push(Violation::new(class, key, detail)); }
    }
    fn policy(&self, c: u8) -> &'static str { POLICIES[self.mcs[c as usize].algo as usize % 7] }
    fn uid_of(&self, rc: &Rc<RefCell<Backend>>) -> Option<usize> {
        let p = Rc::as_ptr(rc);
        self.weak.iter().position(|w| w.as_ptr() == p)
    }
    fn descr_b(&self, u: usize) -> String {
        let b = &self.mbs[u];
        format!("#{u}(c{} b{}@{} {:?}{}{}{} tries={} wait={}ms since_fail={}ms)", b.cluster, b.id, b.addr, b.st, if b.present { "" } else { " removed" }, if b.healthy { "" } else { " unhealthy" }, if b.backup { " backup" } else { "" }, b.tries, b.wait_ns / MS, (self.now - b.last_try) / MS)
    }
    fn set_now(&mut self, now: u64) {
        self.now = now;
        crate::world::with_world(|w| w.now = now);
    }

    // ---- model transitions shared by several operations

    /// `retry_policy.fail()` was just called on backend `u`: update the model, reading the drawn wait from `Debug`
    fn after_fail(&mut self, u: usize) {
        let Some(rc) = self.weak[u].upgrade() else { return };
        let txt = format!("{:?}", rc.borrow().retry_policy);
        drop(rc);
        let Some((_max, cur, last, wait)) = parse_retry(&txt) else { self.viol("harness", "retry_debug_unparsed".into(), txt); return };
        let now = self.now;
        if self.mbs[u].backing_off(now) {
            self.probe("fail_ignored_inside_backoff");
            // state must be untouched (compared in check_retry)
        } else {
            let tries = self.mbs[u].tries;
            let cap_s = std::cmp::max(1u64, 1u64 << tries.min(20));
            if wait < SEC || wait > cap_s * SEC || wait % SEC != 0 {
                self.viol("backoff_out_of_range", format!("tries={tries}"), format!("after failure #{} the drawn back-off is {} ms, expected 1..={} s: {txt}", tries + 1, wait / MS, cap_s));
            }
            let b = &mut self.mbs[u];
            b.wait_ns = wait;
            b.last_try = now;
            b.tries = (tries + 1).min(MAX_TRIES);
            self.probe(&format!("backoff_armed_tries_{}", (tries + 1).min(MAX_TRIES)));
        }
        self.check_retry(u, cur, last, wait, &txt);
    }
    fn after_succeed(&mut self, u: usize) {
        let now = self.now;
        let b = &mut self.mbs[u];
        if b.tries > 0 { *self.probes.entry("retry_reset_by_success".into()).or_insert(0) += 1; }
        b.tries = 0; b.wait_ns = 0; b.last_try = now;
        self.check_retry_now(u);
    }
    fn check_retry_now(&mut self, u: usize) {
        let Some(rc) = self.weak[u].upgrade() else { return };
        let txt = format!("{:?}", rc.borrow().retry_policy);
        drop(rc);
        let Some((_m, cur, last, wait)) = parse_retry(&txt) else { self.viol("harness", "retry_debug_unparsed".into(), txt); return };
        self.check_retry(u, cur, last, wait, &txt);
    }
    fn check_retry(&mut self, u: usize, cur: u64, last: u64, wait: u64, txt: &str) {
        let b = self.mbs[u].clone();
        if cur as usize != b.tries { self.viol("retry_mismatch", "current_tries".to_string(), format!("{}: model tries {} but {txt}", self.descr_b(u), b.tries)); }
        if wait != b.wait_ns { self.viol("retry_mismatch", "wait".to_string(), format!("{}: model wait {} ms but {txt}", self.descr_b(u), b.wait_ns / MS)); }
        if last != b.last_try { self.viol("retry_mismatch", "last_try".to_string(), format!("{}: model last_try {} ns but {txt}", self.descr_b(u), b.last_try)); }
    }

    /// judge a backend chosen by load balancing (not by cookie)
    fn judge_lb(&mut self, c: u8, via: &str, key: Option<u64>, got: Option<usize>, untracked: bool) {
        let now = self.now;
        let (al, regime) = allowed(&self.mcs[c as usize], &self.mbs, now);
        let pol = self.policy(c);
        let members = self.mcs[c as usize].list.len();
        if al.len() < members { self.judged_with_exclusion += 1; }
        self.probe(&format!("selection_regime_{}", regime.name()));
        self.h.mix(got.map(|u| u as u64 + 1).unwrap_or(0));
        if untracked {
            self.viol("ineligible_selected", format!("lb|{pol}|unknown_backend"), "selection returned a backend object that was never added through add_backend".into());
            return;
        }
        match got {
            None => {
                if !al.is_empty() {
                    let d = format!("no backend returned although {} qualify ({}): {}", al.len(), regime.name(), al.iter().map(|&u| self.descr_b(u)).collect::<Vec<_>>().join(", "));
                    self.viol("no_backend_despite_eligible", format!("{pol}|{}", regime.name()), format!("{via}: {d}"));
                }
            }
            Some(u) => {
                if !al.contains(&u) {
                    let why = why_not(&self.mbs, c, u, regime, now);
                    let d = format!("selected {} but the allowed set ({}) is [{}]", self.descr_b(u), regime.name(), al.iter().map(|&x| self.descr_b(x)).collect::<Vec<_>>().join(", "));
                    self.viol("ineligible_selected", format!("lb|{pol}|{why}"), format!("{via}: {d}"));
                    return;
                }
                if regime == Regime::Backup { self.probe("backup_used"); }
                // affinity: same key -> same backend while the eligible set is unchanged
                let algo = self.mcs[c as usize].algo;
                if let (Some(k), true) = (key, algo == 4 || algo == 5) {
                    let fp = |u: &usize| (*u, self.mbs[*u].addr, self.mbs[*u].weight.map(|w| w as i64).unwrap_or(i64::MIN));
                    let full: Vec<_> = self.mcs[c as usize].list.iter().map(fp).collect();
                    let alf: Vec<_> = al.iter().map(fp).collect();
                    let prev = self.mcs[c as usize].memo.get(&k).cloned();
                    if let Some((pfull, pal, pw)) = prev {
                        if pal == alf && (algo == 4 || pfull == full) {
                            self.probe("affinity_rechecked_same_set");
                            if pw != u {
                                let d = format!("key {k:#x}: eligible set unchanged [{}] but the key moved from {} to {}", al.iter().map(|&x| format!("#{x}")).collect::<Vec<_>>().join(","), self.descr_b(pw), self.descr_b(u));
                                // trigger feature (plan level): a member whose weight share is below one slot of the
                                // documented 65537-slot Maglev table (weights are documented as clamped to >= 1, default 100)
                                let ws: Vec<u128> = self.mcs[c as usize].list.iter().map(|&x| self.mbs[x].weight.unwrap_or(100).max(1) as u128).collect();
                                let total: u128 = ws.iter().sum::<u128>().max(1);
                                let starved = algo == 5 && ws.iter().any(|w| w * 65537 / total == 0);
                                self.viol("affinity_moved", format!("{pol}|same_eligible_set{}", if starved { "|weight_share_below_one_table_slot" } else { "" }), d);
                            }
                        } else if pal == alf && pw != u {
                            // Maglev: table rebuilt because an ineligible member was added/removed/re-weighted (documented: table tracks the full set)
                            self.probe("maglev_key_moved_on_ineligible_member_change");
                        } else if algo == 4 && alf.iter().all(|x| pal.contains(x)) && alf.iter().any(|x| x.0 == pw) {
                            // HRW minimal disruption: removing non-winners cannot change the winner
                            self.probe("affinity_rechecked_subset");
                            if pw != u {
                                let d = format!("key {k:#x}: the eligible set only lost non-winning members but the key moved from {} to {}", self.descr_b(pw), self.descr_b(u));
                                self.viol("affinity_moved", format!("{pol}|subset_without_winner_loss"), d);
                            }
                        }
                    }
                    self.mcs[c as usize].memo.insert(k, (full, alf, u));
                }
            }
        }
    }

    fn new_instance(&mut self, c: u8, id: u8, addr: u8, sticky: u8, weight: Option<i32>, backup: bool) -> usize {
        let now = self.now;
        self.mbs.push(MB { cluster: c, present: true, id, addr, sticky, weight, backup, st: St::Normal, healthy: true, succ: 0, fails: 0, tries: 0, last_try: now, wait_ns: 0, failures: 0, conns: 0, reqs: 0 });
        self.mbs.len() - 1
    }

    fn first_at(&self, c: u8, addr: u8) -> Option<usize> {
        self.mcs[c as usize].list.iter().copied().find(|&u| self.mbs[u].addr == addr)
    }

    // ---- one operation

    fn step(&mut self, op: &Op) {
        self.cur_op = op_name(op);
        self.probe(&format!("op_{}", self.cur_op));
        self.h.mix_bytes(format!("{op:?}").as_bytes());
        let base = self.plan.base;
        match op.clone() {
            Op::Policy { c, algo, metric } => {
                let a = match algo % 6 { 0 => LoadBalancingAlgorithms::RoundRobin, 1 => LoadBalancingAlgorithms::Random, 2 => LoadBalancingAlgorithms::LeastLoaded, 3 => LoadBalancingAlgorithms::PowerOfTwo, 4 => LoadBalancingAlgorithms::Hrw, _ => LoadBalancingAlgorithms::Maglev };
                let m = match metric % 4 { 0 => None, 1 => Some(LoadMetric::Connections), 2 => Some(LoadMetric::Requests), _ => Some(LoadMetric::ConnectionTime) };
                self.map.set_load_balancing_policy_for_cluster(&cluster_name(c), a, m);
                let mc = &mut self.mcs[c as usize];
                mc.exists = true; mc.algo = algo % 6; mc.memo.clear();
                self.probe(&format!("policy_{}", POLICIES[(algo % 6) as usize]));
            }
            Op::Add { c, id, addr, sticky, weight, backup } => {
                let b = Backend::new(&format!("b{id}"), addr_of(base, addr), sticky_name(sticky), weight.map(|weight| LoadBalancingParams { weight }), match backup { 0 => None, 1 => Some(false), _ => Some(true) });
                self.map.add_backend(&cluster_name(c), b);
                self.mcs[c as usize].exists = true;
                let existing = self.mcs[c as usize].list.iter().copied().find(|&u| self.mbs[u].addr == addr && self.mbs[u].id == id);
                match existing {
                    Some(u) => {
                        // documented: "the backend already exists, update the configuration while keeping connection retry state"
                        let m = &mut self.mbs[u];
                        m.sticky = sticky; m.weight = weight; m.backup = backup == 2;
                        self.probe("add_updates_in_place");
                    }
                    None => {
                        if self.mcs[c as usize].list.iter().any(|&u| self.mbs[u].id == id) { self.probe("add_same_id_other_address"); }
                        if self.mcs[c as usize].list.iter().any(|&u| self.mbs[u].addr == addr) { self.probe("add_same_address_other_id"); }
                        if self.mbs.iter().any(|m| m.cluster == c && !m.present && m.id == id && m.addr == addr) { self.probe("re_add_after_remove"); }
                        let u = self.new_instance(c, id, addr, sticky, weight, backup == 2);
                        self.mcs[c as usize].list.push(u);
                        let w = self.map.backends.get(&cluster_name(c)).and_then(|l| l.backends.last()).map(Rc::downgrade).unwrap_or_default();
                        self.weak.push(w);
                    }
                }
            }
            Op::Remove { c, addr } => {
                let a = addr_of(base, addr);
                let removed = self.map.remove_backend(&cluster_name(c), &a);
                let gone: Vec<usize> = self.mcs[c as usize].list.iter().copied().filter(|&u| self.mbs[u].addr == addr).collect();
                self.mcs[c as usize].list.retain(|u| !gone.contains(u));
                let mut want: Vec<String> = gone.iter().map(|&u| format!("b{}", self.mbs[u].id)).collect();
                for &u in &gone {
                    self.mbs[u].present = false;
                    if self.conns.iter().any(|k| k.uid == u) { self.probe("removed_with_open_connections"); }
                }
                let mut got = removed.clone();
                want.sort(); got.sort();
                if want != got { self.viol("membership_mismatch", "remove|returned_ids".into(), format!("remove_backend({a}) returned {removed:?}, model removed {want:?}")); }
                if !gone.is_empty() { self.probe("remove_effective"); }
                if gone.len() > 1 { self.probe("remove_drops_several_ids_at_one_address"); }
            }
            Op::Health { c, addr, ok } => {
                let a = addr_of(base, addr);
                let target = self.first_at(c, addr);
                let rc = self.map.backends.get_mut(&cluster_name(c)).and_then(|l| l.find_backend(&a).cloned());
                match (&rc, target) {
                    (Some(rc), Some(u)) => {
                        if self.uid_of(rc) != Some(u) { self.viol("membership_mismatch", "health|find_backend".into(), format!("find_backend({a}) is not the first member at that address ({})", self.descr_b(u))); }
                        let (up, down) = (self.plan.thr_up, self.plan.thr_down);
                        let tr = if ok { rc.borrow_mut().health.record_success(up) } else { rc.borrow_mut().health.record_failure(down) };
                        let m = &mut self.mbs[u];
                        let was = m.healthy;
                        if ok { m.fails = 0; m.succ += 1; if !m.healthy && m.succ >= up { m.healthy = true; } }
                        else { m.succ = 0; m.fails += 1; if m.healthy && m.fails >= down { m.healthy = false; } }
                        let now_h = m.healthy;
                        if tr != (was != now_h) { self.viol("health_mismatch", format!("transition_flag|{}", if ok { "success" } else { "failure" }), format!("{}: record returned {tr}, model {} -> {}", self.descr_b(u), was, now_h)); }
                        if was && !now_h { self.probe("health_marked_down"); }
                        if !was && now_h { self.probe("health_marked_up"); }
                    }
                    (None, None) => {}
                    _ => self.viol("membership_mismatch", "health|find_backend".into(), format!("find_backend({a}) found={} but model member={:?}", rc.is_some(), target)),
                }
            }
            Op::HealthOff { c } => {
                self.map.set_health_check_config(&cluster_name(c), None);
                let list = self.mcs[c as usize].list.clone();
                for u in list {
                    if !self.mbs[u].healthy { self.probe("health_reset_by_config_removal"); }
                    let m = &mut self.mbs[u];
                    m.healthy = true; m.succ = 0; m.fails = 0;
                }
            }
            Op::Advance { ms } => {
                let before = self.now;
                let after = before + ms * MS;
                let crossed = self.mbs.iter().filter(|b| b.present && b.backing_off(before) && !b.backing_off(after)).count();
                for _ in 0..crossed { self.probe("backoff_window_crossed"); }
                self.set_now(after);
                self.h.mix(ms);
            }
            Op::Select { c, key, via } => {
                let cn = cluster_name(c);
                let mut untracked = false;
                let got: Option<usize> = if via % 2 == 0 {
                    match self.map.backend_from_cluster_id_with_key(&cn, key) {
                        Ok((id, a)) => {
                            let u = self.mcs[c as usize].list.iter().copied().find(|&u| format!("b{}", self.mbs[u].id) == id && addr_of(base, self.mbs[u].addr) == a);
                            let u = u.or_else(|| (0..self.mbs.len()).find(|&u| format!("b{}", self.mbs[u].id) == id && addr_of(base, self.mbs[u].addr) == a));
                            if u.is_none() { untracked = true; }
                            u
                        }
                        Err(_) => None,
                    }
                } else {
                    match self.map.backends.get_mut(&cn).and_then(|l| l.next_available_backend_with_key(key)) {
                        Some(rc) => { let u = self.uid_of(&rc); if u.is_none() { untracked = true; } u }
                        None => None,
                    }
                };
                self.judge_lb(c, if via % 2 == 0 { "select_map" } else { "select_list" }, key, got, untracked);
            }
            Op::Sticky { c, s } => {
                let exp = sticky_expect(&self.mcs[c as usize], &self.mbs, s, self.now);
                let got = self.map.backends.get_mut(&cluster_name(c)).and_then(|l| l.find_sticky(&sticky_name(s).unwrap_or_default()).cloned());
                let gu = got.as_ref().and_then(|rc| self.uid_of(rc));
                self.h.mix(gu.map(|u| u as u64 + 1).unwrap_or(0));
                self.judge_sticky_lookup(c, s, exp, got.is_some(), gu, "find_sticky");
            }
            Op::Connect { c, s, net_ok, streams } => self.connect(c, s, net_ok, streams as usize),
            Op::Outcome { conn, ok } => {
                let pending: Vec<usize> = (0..self.conns.len()).filter(|&i| self.conns[i].state == CState::Connecting).collect();
                if pending.is_empty() { return; }
                let i = pending[conn as usize % pending.len()];
                let u = self.conns[i].uid;
                if ok {
                    {
                        let mut b = self.conns[i].rc.borrow_mut();
                        b.failures = 0;
                        b.set_connection_time(std::time::Duration::from_millis(3));
                        b.retry_policy.succeed();
                        b.active_requests += self.conns[i].streams;
                    }
                    self.conns[i].state = CState::Connected;
                    let n = self.conns[i].streams;
                    let m = &mut self.mbs[u];
                    m.failures = 0; m.reqs += n;
                    self.after_succeed(u);
                    self.probe("connect_established");
                } else {
                    {
                        let mut b = self.conns[i].rc.borrow_mut();
                        b.failures += 1;
                        b.retry_policy.fail();
                    }
                    self.mbs[u].failures += 1;
                    self.after_fail(u);
                    self.probe("connect_failed_async");
                    self.close_conn(i);
                }
            }
            Op::Stream { conn, start } => {
                let est: Vec<usize> = (0..self.conns.len()).filter(|&i| self.conns[i].state == CState::Connected).collect();
                if est.is_empty() { return; }
                let i = est[conn as usize % est.len()];
                let u = self.conns[i].uid;
                if start {
                    self.conns[i].rc.borrow_mut().active_requests += 1;
                    self.conns[i].streams += 1;
                    self.mbs[u].reqs += 1;
                } else if self.conns[i].streams > 0 {
                    let mut b = self.conns[i].rc.borrow_mut();
                    b.active_requests = b.active_requests.saturating_sub(1);
                    drop(b);
                    self.conns[i].streams -= 1;
                    self.mbs[u].reqs -= 1;
                }
            }
            Op::Close { conn } => {
                if self.conns.is_empty() { return; }
                let i = conn as usize % self.conns.len();
                self.close_conn(i);
            }
            Op::SetClosing { conn } => {
                if self.conns.is_empty() { return; }
                let i = conn as usize % self.conns.len();
                let u = self.conns[i].uid;
                if self.mbs[u].st != St::Normal { return; }
                self.conns[i].rc.borrow_mut().set_closing();
                self.mbs[u].st = St::Closing;
                self.closing_used = true;
                self.probe("set_closing_applied");
            }
        }
    }

    fn judge_sticky_lookup(&mut self, c: u8, s: u8, exp: StickyExp, some: bool, gu: Option<usize>, via: &str) {
        let pol = self.policy(c);
        match exp {
            StickyExp::Fallback => {
                self.probe("sticky_no_qualifying_holder");
                if some {
                    let d = match gu { Some(u) => { let w = why_not(&self.mbs, c, u, Regime::Primary, self.now); format!("{} ({w})", self.descr_b(u)) } None => "unknown backend".into() };
                    let why = gu.map(|u| if self.mbs[u].sticky != s || !self.mbs[u].present { "not_holder" } else { why_not(&self.mbs, c, u, Regime::Primary, self.now) }).unwrap_or("unknown_backend");
                    self.viol("ineligible_selected", format!("cookie|{why}"), format!("{via} ({pol}): cookie s{s} resolved to {d} which does not qualify"));
                }
            }
            StickyExp::Must(h) => {
                self.probe("sticky_holder_qualifies");
                if gu != Some(h) { self.viol("sticky_ignored", "single_holder".to_string(), format!("{via} ({pol}): cookie s{s}: {} qualifies but lookup gave {:?}", self.descr_b(h), gu.map(|u| self.descr_b(u)))); }
            }
            StickyExp::Any(set, fallback_ok) => {
                self.probe("sticky_ambiguous_cookie");
                match gu {
                    Some(u) if set.contains(&u) => {}
                    None if !some && fallback_ok => {}
                    _ => self.viol("sticky_ignored", "shared_cookie".to_string(), format!("{via} ({pol}): cookie s{s}: qualifying holders {:?} but lookup gave {:?}", set, gu.map(|u| self.descr_b(u)))),
                }
            }
        }
    }

    fn connect(&mut self, c: u8, s: u8, net_ok: bool, streams: usize) {
        let base = self.plan.base;
        let cn = cluster_name(c);
        let mode = if net_ok { ConnectMode::Blackhole } else { ConnectMode::Unreachable };
        crate::world::with_world(|w| { for a in 0..4 { w.topo.insert(addr_of(base, a), mode.clone()); } });
        let now = self.now;
        let exp = sticky_expect(&self.mcs[c as usize], &self.mbs, s, now);
        let before: Vec<(usize, usize)> = self.mcs[c as usize].list.iter().map(|&u| (u, self.mbs[u].failures)).collect();
        let res = if s > 0 { self.map.backend_from_sticky_session(&cn, &sticky_name(s).unwrap()) } else { self.map.backend_from_cluster_id(&cn) };
        let via = if s > 0 { "connect_sticky" } else { "connect" };
        // who was chosen?
        let mut untracked = false;
        let (chosen, connected): (Option<usize>, bool) = match &res {
            Ok((rc, _stream)) => { let u = self.uid_of(rc); if u.is_none() { untracked = true; } (u, true) }
            Err(_) => {
                let bumped: Vec<usize> = before.iter().filter(|(u, f)| self.weak[*u].upgrade().map(|rc| rc.borrow().failures == f + 1).unwrap_or(false)).map(|x| x.0).collect();
                if bumped.len() > 1 { self.viol("counter_mismatch", "failures_bumped_on_several".to_string(), format!("one failed connect bumped `failures` on {bumped:?}")); }
                (bumped.first().copied(), false)
            }
        };
        if let Err(e) = &res { if let Some(l) = self.log.as_mut() { l.push(format!("  -> Err({e})")); } }
        // sticky judgement first: if the cookie's backend qualifies it must be the one
        let by_cookie = match &exp {
            StickyExp::Must(h) => {
                self.probe("sticky_holder_qualifies");
                if chosen != Some(*h) {
                    let pol = self.policy(c);
                    self.viol("sticky_ignored", "single_holder".to_string(), format!("{via} ({pol}): cookie s{s}: {} qualifies but the session went to {:?}", self.descr_b(*h), chosen.map(|u| self.descr_b(u))));
                }
                true
            }
            StickyExp::Any(set, fallback_ok) => {
                self.probe("sticky_ambiguous_cookie");
                if chosen.map_or(false, |u| set.contains(&u)) { true }
                else if *fallback_ok { false }
                else {
                    let pol = self.policy(c);
                    self.viol("sticky_ignored", "shared_cookie".to_string(), format!("{via} ({pol}): cookie s{s}: every holder {:?} qualifies but the session went to {:?}", set, chosen.map(|u| self.descr_b(u))));
                    true
                }
            }
            StickyExp::Fallback => { if s > 0 { self.probe("sticky_no_qualifying_holder"); } false }
        };
        let cookie_holder_unqualified = !by_cookie && s > 0 && chosen.map_or(false, |u| self.mbs[u].cluster == c && self.mbs[u].present && self.mbs[u].sticky == s && !allowed(&self.mcs[c as usize], &self.mbs, now).0.contains(&u));
        if by_cookie {
            self.h.mix(chosen.map(|u| u as u64 + 1).unwrap_or(0));
        } else if cookie_holder_unqualified {
            let u = chosen.unwrap();
            let why = why_not(&self.mbs, c, u, Regime::Primary, now);
            let pol = self.policy(c);
            self.viol("ineligible_selected", format!("cookie|{why}"), format!("{via} ({pol}): cookie s{s} sent the session to {} which does not qualify", self.descr_b(u)));
        } else {
            self.judge_lb(c, via, None, chosen, untracked);
        }
        // network outcome
        match (chosen, connected) {
            (Some(u), true) => {
                if !net_ok { self.viol("harness", "connect_ok_on_unreachable".into(), "try_connect succeeded although the simulated network is unreachable".into()); }
                let Ok((rc, stream)) = res else { return };
                drop(stream);
                if self.mbs[u].st == St::Normal { self.mbs[u].conns += 1; }
                self.conns.push(Conn { uid: u, rc, state: CState::Connecting, streams });
                self.probe("connect_in_progress");
            }
            (Some(u), false) => {
                if net_ok { self.viol("harness", "connect_failed_on_reachable".into(), "try_connect failed although the simulated network accepts".into()); }
                self.mbs[u].failures += 1;
                self.after_fail(u);
                self.probe("connect_failed_sync");
            }
            (None, true) => {}
            (None, false) => { self.probe("connect_no_backend"); }
        }
    }

    fn close_conn(&mut self, i: usize) {
        let k = self.conns.remove(i);
        let u = k.uid;
        let ret = {
            let mut b = k.rc.borrow_mut();
            if k.state == CState::Connected { b.active_requests = b.active_requests.saturating_sub(k.streams); }
            b.dec_connections()
        };
        if k.state == CState::Connected { self.mbs[u].reqs -= k.streams.min(self.mbs[u].reqs); }
        let m = &mut self.mbs[u];
        let want: Option<usize> = match m.st {
            St::Normal => { m.conns = m.conns.saturating_sub(1); Some(m.conns) }
            St::Closing => {
                m.conns = m.conns.saturating_sub(1);
                if m.conns == 0 { m.st = St::Closed; *self.probes.entry("closing_backend_retired".into()).or_insert(0) += 1; None } else { Some(m.conns) }
            }
            St::Closed => None,
        };
        if ret != want { self.viol("counter_mismatch", "dec_connections_return".to_string(), format!("{}: dec_connections returned {ret:?}, model {want:?}", self.descr_b(u))); }
        drop(k);
    }

    /// compare everything observable with the model
    fn compare(&mut self, fin: bool) {
        let now = self.now;
        // membership and order of every cluster list
        for c in 0..self.mcs.len() {
            let cn = cluster_name(c as u8);
            let real: Option<Vec<Option<usize>>> = self.map.backends.get(&cn).map(|l| l.backends.iter().map(|rc| self.uid_of(rc)).collect());
            let model: Vec<Option<usize>> = self.mcs[c].list.iter().map(|&u| Some(u)).collect();
            match real {
                None => if self.mcs[c].exists { self.viol("membership_mismatch", "cluster_missing".to_string(), format!("cluster {cn} has no backend list")); },
                Some(r) => if r != model { self.viol("membership_mismatch", "list".to_string(), format!("cluster {cn}: backend list {r:?}, model {model:?}")); },
            }
        }
        for u in 0..self.mbs.len() {
            let handles = self.conns.iter().filter(|k| k.uid == u).count();
            let rc = self.weak[u].upgrade();
            let m = self.mbs[u].clone();
            let should_live = m.present || handles > 0;
            match rc {
                None => {
                    if should_live { self.viol("lifecycle_mismatch", "dropped_early".to_string(), format!("{} was dropped while still a member or in use by {handles} connections", self.descr_b(u))); }
                }
                Some(rc) => {
                    // (the upgrade itself holds one reference)
                    if !should_live {
                        self.viol("lifecycle_mismatch", "not_retired_when_drained".to_string(), format!("{} is removed and drained but still referenced ({} strong refs)", self.descr_b(u), Rc::strong_count(&rc) - 1));
                    }
                    let b = rc.borrow();
                    let mut bad: Vec<(&'static str, &'static str, String)> = Vec::new();
                    if b.active_connections > (1usize << 31) { bad.push(("counter_wrapped", "active_connections", format!("{}", b.active_connections))); }
                    if b.active_requests > (1usize << 31) { bad.push(("counter_wrapped", "active_requests", format!("{}", b.active_requests))); }
                    if b.active_connections != m.conns { bad.push(("counter_mismatch", "active_connections", format!("{} != model {}", b.active_connections, m.conns))); }
                    if b.active_requests != m.reqs { bad.push(("counter_mismatch", "active_requests", format!("{} != model {}", b.active_requests, m.reqs))); }
                    if b.failures != m.failures { bad.push(("counter_mismatch", "failures", format!("{} != model {}", b.failures, m.failures))); }
                    let st = match b.status { BackendStatus::Normal => St::Normal, BackendStatus::Closing => St::Closing, BackendStatus::Closed => St::Closed };
                    if st != m.st { bad.push(("lifecycle_mismatch", "status", format!("{:?} != model {:?}", st, m.st))); }
                    if b.health.is_healthy() != m.healthy { bad.push(("health_mismatch", "status", format!("{:?} != model healthy={}", b.health.status, m.healthy))); }
                    if b.health.consecutive_successes != m.succ || b.health.consecutive_failures != m.fails { bad.push(("health_mismatch", "streaks", format!("{}/{} != model {}/{}", b.health.consecutive_successes, b.health.consecutive_failures, m.succ, m.fails))); }
                    if b.backup != m.backup || b.sticky_id != sticky_name(m.sticky) || b.load_balancing_parameters.as_ref().map(|p| p.weight) != m.weight { bad.push(("membership_mismatch", "configuration", format!("backup={} sticky={:?} weight={:?}", b.backup, b.sticky_id, b.load_balancing_parameters))); }
                    // the code's own predicate against the property's predicate
                    if m.present && b.can_open() != m.eligible(now) { bad.push(("predicate_mismatch", "can_open", format!("can_open()={} but model eligible={}", b.can_open(), m.eligible(now)))); }
                    let down = b.retry_policy.is_down();
                    if down != (m.tries >= MAX_TRIES) { bad.push(("retry_mismatch", "is_down", format!("is_down()={down}, model tries {}", m.tries))); }
                    if m.present && b.is_available() != (m.healthy && m.st == St::Normal && m.tries < MAX_TRIES) { bad.push(("predicate_mismatch", "is_available", format!("is_available()={}", b.is_available()))); }
                    drop(b);
                    drop(rc);
                    if m.tries >= MAX_TRIES { self.probe("observed_retry_budget_exhausted"); }
                    for (class, field, d) in bad { let dd = format!("{}: {field}: {d}", self.descr_b(u)); self.viol(class, field.to_string(), dd); }
                    if fin { self.check_retry_now(u); }
                }
            }
            if fin && (m.conns != 0 || m.reqs != 0) { self.viol("harness", "model_not_drained".into(), format!("model counters of #{u} not zero at the end")); }
        }
    }
}

pub struct Outcome {
    pub violations: Vec<Violation>,
    pub hash: u64,
    pub probes: BTreeMap<String, u64>,
    pub nontrivial: bool,
    pub log: Vec<String>,
    pub virtual_ns: u64,
    pub stats: crate::world::Stats,
}

pub fn execute(plan: &Plan, verbose: bool) -> Outcome {
    let plan = plan.clone();
    crate::netsim::on_fresh_thread(move || {
        let mut w = World::new(plan.seed, SchedCfg::default());
        World::install(&mut w);
        let start = crate::world::with_world(|w| w.now).unwrap();
        let r = std::panic::catch_unwind(std::panic::AssertUnwindSafe(|| {
            let mut ex = Exec {
                plan: &plan, map: BackendMap::new(), mbs: Vec::new(), weak: Vec::new(), mcs: vec![MC { algo: 6, ..Default::default() }, MC { algo: 6, ..Default::default() }],
                conns: Vec::new(), now: start, v: Vec::new(), h: TraceHash::new(), probes: BTreeMap::new(), closing_used: false, judged_with_exclusion: 0,
                log: if verbose { Some(Vec::new()) } else { None }, cur_op: "init", ops_done: 0,
            };
            let mut panicked: Option<(usize, String)> = None;
            let mut stopped = false;
            for (i, op) in plan.ops.iter().enumerate() {
                let op = normalise(op);
                if let Some(l) = ex.log.as_mut() { l.push(format!("[{:>9.3}s] #{i} {:?}", (ex.now - start) as f64 / 1e9, op)); }
                let r = std::panic::catch_unwind(std::panic::AssertUnwindSafe(|| ex.step(&op)));
                if let Err(e) = r {
                    let msg = e.downcast_ref::<String>().cloned().or_else(|| e.downcast_ref::<&str>().map(|s| s.to_string())).unwrap_or_else(|| "panic".into());
                    panicked = Some((i, msg));
                    break;
                }
                ex.compare(false);
                ex.ops_done += 1;
                if ex.log.is_some() {
                    let mut s = String::from("    state:");
                    for u in 0..ex.mbs.len() { if ex.mbs[u].present || ex.conns.iter().any(|k| k.uid == u) { s += &format!(" {} conns={} reqs={} fails={}", ex.descr_b(u), ex.mbs[u].conns, ex.mbs[u].reqs, ex.mbs[u].failures); } }
                    if let Some(l) = ex.log.as_mut() { l.push(s); }
                }
                // model and code have diverged: later operations would only report consequences
                if !ex.v.is_empty() { stopped = true; break; }
            }
            if let Some((i, msg)) = panicked {
                let c = match &plan.ops[i] { Op::Policy { c, .. } | Op::Add { c, .. } | Op::Remove { c, .. } | Op::Health { c, .. } | Op::HealthOff { c } | Op::Select { c, .. } | Op::Sticky { c, .. } | Op::Connect { c, .. } => *c % 2, _ => 0 };
                let key = format!("{}|{}", op_name(&plan.ops[i]), ex.policy(c));
                ex.viol("panic", key, format!("operation #{i} {:?} panicked: {msg}", plan.ops[i]));
            } else if !stopped {
                // traffic ends: every connection is closed, then every counter must be back to zero
                ex.cur_op = "drain";
                while !ex.conns.is_empty() { ex.close_conn(0); }
                ex.compare(true);
                for u in 0..ex.mbs.len() {
                    if let Some(rc) = ex.weak[u].upgrade() {
                        let (ac, ar) = { let b = rc.borrow(); (b.active_connections, b.active_requests) };
                        drop(rc);
                        if ac != 0 || ar != 0 { let d = format!("{}: active_connections={ac} active_requests={ar} after all traffic ended", ex.descr_b(u)); ex.viol("counter_not_zero_at_end", if ac != 0 { "active_connections".into() } else { "active_requests".into() }, d); }
                        ex.h.mix(ac as u64); ex.h.mix(ar as u64);
                    }
                }
            }
            let nontrivial = ex.judged_with_exclusion > 0;
            let virtual_ns = ex.now - start;
            ex.h.mix(ex.v.len() as u64);
            ex.probes.insert("operations_applied".into(), ex.ops_done);
            Outcome { violations: std::mem::take(&mut ex.v), hash: ex.h.0, probes: std::mem::take(&mut ex.probes), nontrivial, log: ex.log.take().unwrap_or_default(), virtual_ns, stats: Default::default() }
        }));
        World::uninstall();
        match r {
            Ok(mut o) => { o.stats = w.stats.clone(); o.stats.virtual_ns = o.virtual_ns; o }
            Err(_) => Outcome { violations: vec![Violation::new("panic", "harness", "panic outside an operation")], hash: 0, probes: BTreeMap::new(), nontrivial: false, log: Vec::new(), virtual_ns: 0, stats: Default::default() },
        }
    })
}

// ------------------------------------------------------------------------------------- property

impl Property for C12 {
    fn id(&self) -> &'static str { "C12" }
    fn runs(&self, tier: Tier) -> u64 { match tier { Tier::Quick => 250_000, Tier::Thorough => 4_000_000 } }
    fn gen_plan(&self, seed: u64, tier: Tier) -> Value {
        if seed % NET_EVERY == 0 { return serde_json::json!({ "net": c12_net::generate(seed, tier) }); }
        serde_json::to_value(generate(seed, tier)).unwrap()
    }
    fn run_plan(&self, plan: &Value) -> RunReport {
        if is_net(plan) { return run_net(plan, false).0; }
        let p: Plan = match serde_json::from_value(plan.clone()) { Ok(p) => p, Err(e) => return RunReport { harness_error: Some(format!("bad plan: {e}")), ..Default::default() } };
        let o = execute(&p, false);
        let mut rep = RunReport { seed: p.seed, family: if p.family.starts_with("enum:") { p.family.clone() } else { family_of(&p) }, trace_hash: o.hash, nontrivial: o.nontrivial, probes: o.probes, summary: summarize(&p), ..Default::default() };
        rep.stats = o.stats;
        for v in o.violations {
            if v.class == "harness" { rep.harness_error = Some(format!("{}: {}", v.key, v.detail)); } else { rep.violations.push(v); }
        }
        rep
    }
    fn shrink(&self, plan: &Value) -> Vec<Value> {
        if is_net(plan) {
            let Ok(p) = serde_json::from_value::<c12_net::NetPlan>(plan["net"].clone()) else { return vec![] };
            return c12_net::shrink(&p).into_iter().map(|q| serde_json::json!({ "net": q })).collect();
        }
        let Ok(p) = serde_json::from_value::<Plan>(plan.clone()) else { return vec![] };
        let mut out: Vec<Plan> = Vec::new();
        let n = p.ops.len();
        // drop halves, quarters, then single operations
        let mut chunk = n / 2;
        while chunk >= 2 {
            let mut i = 0;
            while i < n { let mut q = p.clone(); q.ops.drain(i..(i + chunk).min(n)); out.push(q); i += chunk; }
            chunk /= 2;
        }
        for i in (0..n).rev() { let mut q = p.clone(); q.ops.remove(i); out.push(q); }
        // simplify arguments
        for i in 0..n {
            let mut q = p.clone();
            let changed = match &mut q.ops[i] {
                Op::Add { sticky, weight, backup, .. } => {
                    if weight.is_some() { *weight = None; true } else if *backup == 1 { *backup = 0; true } else if *sticky != 0 && !p.ops.iter().any(|o| matches!(o, Op::Sticky { .. } | Op::Connect { s: 1.., .. })) { *sticky = 0; true } else { false }
                }
                Op::Advance { ms } => { if *ms > 1000 && *ms % 1000 != 0 { *ms = *ms / 1000 * 1000; true } else { false } }
                Op::Select { key: Some(k), .. } if *k > 2 => { *k = 1; true }
                Op::Select { via, .. } if *via != 1 => { *via = 1; true }
                Op::Connect { streams, .. } if *streams > 0 => { *streams = 0; true }
                Op::Policy { metric, .. } if *metric != 0 => { *metric = 0; true }
                _ => false,
            };
            if changed { out.push(q); }
        }
        if p.thr_up != 1 || p.thr_down != 1 { let mut q = p.clone(); q.thr_up = 1; q.thr_down = 1; out.push(q); }
        out.into_iter().map(|mut q| { q.family = family_of(&q); serde_json::to_value(q).unwrap() }).collect()
    }
    fn enumerated(&self, _tier: Tier) -> Vec<Value> {
        // systematic core scenarios for every policy (fault enumeration): health cascade, back-off window edges,
        // cookies, removal with open connections and re-add, weights
        let k = [1u64, 65537, u64::MAX];
        let add = |id: u8, addr: u8, sticky: u8, weight: Option<i32>, backup: u8| Op::Add { c: 0, id, addr, sticky, weight, backup };
        let sel = |key: Option<u64>, via: u8| Op::Select { c: 0, key, via };
        let mut out = Vec::new();
        for algo in 0..6u8 {
            let pol = Op::Policy { c: 0, algo, metric: 0 };
            let scenarios: Vec<Vec<Op>> = vec![
                vec![pol.clone(), add(0, 0, 0, None, 0), add(1, 1, 0, None, 2), sel(Some(k[0]), 0), Op::Health { c: 0, addr: 0, ok: false }, sel(Some(k[0]), 0), sel(Some(k[0]), 1),
                     Op::Health { c: 0, addr: 1, ok: false }, sel(Some(k[0]), 0), sel(None, 1), Op::Health { c: 0, addr: 0, ok: true }, sel(Some(k[0]), 0), Op::HealthOff { c: 0 }, sel(Some(k[0]), 1)],
                vec![pol.clone(), add(0, 0, 0, None, 0), add(1, 1, 0, None, 0), Op::Connect { c: 0, s: 0, net_ok: false, streams: 1 }, sel(Some(k[1]), 0), sel(Some(k[1]), 0), Op::Advance { ms: 999 }, sel(Some(k[1]), 1),
                     Op::Advance { ms: 1 }, sel(Some(k[1]), 1), Op::Connect { c: 0, s: 0, net_ok: false, streams: 0 }, Op::Connect { c: 0, s: 0, net_ok: false, streams: 0 }, sel(None, 0), Op::Connect { c: 0, s: 0, net_ok: true, streams: 0 },
                     Op::Advance { ms: 64000 }, sel(Some(k[1]), 0), Op::Connect { c: 0, s: 0, net_ok: true, streams: 2 }, Op::Outcome { conn: 0, ok: true }, Op::Close { conn: 0 }],
                vec![pol.clone(), add(0, 0, 1, None, 0), add(1, 1, 2, None, 0), Op::Connect { c: 0, s: 1, net_ok: true, streams: 1 }, Op::Outcome { conn: 0, ok: true }, Op::Health { c: 0, addr: 0, ok: false }, Op::Sticky { c: 0, s: 1 },
                     Op::Connect { c: 0, s: 1, net_ok: true, streams: 1 }, Op::Remove { c: 0, addr: 0 }, Op::Connect { c: 0, s: 1, net_ok: true, streams: 0 }, Op::Sticky { c: 0, s: 2 }, Op::Close { conn: 0 }, Op::Close { conn: 0 }, Op::Close { conn: 0 }],
                vec![pol.clone(), add(0, 0, 0, None, 0), Op::Connect { c: 0, s: 0, net_ok: true, streams: 1 }, Op::Outcome { conn: 0, ok: true }, Op::Remove { c: 0, addr: 0 }, sel(Some(k[2]), 0), sel(None, 1), add(0, 0, 0, None, 0),
                     Op::Connect { c: 0, s: 0, net_ok: true, streams: 1 }, Op::Outcome { conn: 0, ok: false }, sel(Some(k[2]), 0), Op::Stream { conn: 0, start: true }, Op::Close { conn: 0 }, Op::Advance { ms: 1000 }, sel(Some(k[2]), 1)],
                vec![pol.clone(), add(0, 0, 0, Some(255), 0), add(1, 1, 0, Some(1), 0), add(2, 2, 0, Some(0), 0), sel(Some(k[0]), 0), sel(Some(k[1]), 0), sel(Some(k[2]), 0), sel(Some(k[0]), 1), sel(Some(k[1]), 1), sel(Some(k[2]), 1),
                     Op::Health { c: 0, addr: 0, ok: false }, sel(Some(k[0]), 0), sel(Some(k[1]), 0), sel(Some(k[2]), 0), Op::Remove { c: 0, addr: 1 }, sel(Some(k[0]), 0), sel(Some(k[1]), 0), sel(Some(k[2]), 0), add(0, 0, 0, Some(1), 2), sel(Some(k[0]), 1)],
            ];
            for (i, ops) in scenarios.into_iter().enumerate() {
                let mut p = Plan { seed: 0xC12_0000 + algo as u64 * 16 + i as u64, family: String::new(), base: 1, thr_up: 1, thr_down: 1, ops };
                p.family = format!("enum:{}", family_of(&p));
                out.push(serde_json::to_value(p).unwrap());
            }
        }
        for p in c12_net::enumerated() { out.push(serde_json::json!({ "net": p })); }
        out
    }
    fn debug_plan(&self, plan: &Value) -> String {
        if is_net(plan) { return run_net(plan, true).1; }
        let Ok(p) = serde_json::from_value::<Plan>(plan.clone()) else { return "bad plan".into() };
        let o = execute(&p, true);
        let mut s = summarize(&p) + "\n";
        for l in &o.log { s += l; s.push('\n'); }
        for v in &o.violations { s += &format!("VIOLATION {} {}: {}\n", v.class, v.key, v.detail); }
        s
    }
    fn descr(&self) -> Descr {
        Descr {
            level: "exploration",
            rule: "two tiers, chosen per seed (one seed in 40 is a traffic plan). MODEL TIER: seeded operation histories (swarm: 1-2 clusters, 1-4 ids x 1-4 addresses, 0-2 cookie values, per-plan operation mix, weights incl. 0/negative/extreme, six policies, virtual-time steps of 1 ms..64 s) on one BackendMap; plus 30 enumerated core scenarios (5 per policy: health cascade, back-off window edges, cookies, removal with open connections + re-add, weights); non-trivial when >=1 selection was judged while >=1 member of that cluster was outside the allowed set; a run stops at its first violating operation. TRAFFIC TIER (family net:*): one real worker on the H1 scenario; explicit timelines of 3-25 s (thorough: up to 70 s) of virtual time with 1-2 clusters of 2-5 backends (primaries/backups, weights, cookie values, six policies, optional address shared by both clusters), simulated servers that accept / accept after a delay / accept then close / refuse synchronously or after a delay / never answer / are unreachable and change at seeded times, master commands at seeded times (AddBackend at a new address, RemoveBackend incl. a wrong id, re-add at a removed address with another or the same id, in-place backup-flag update, AddCluster policy change with or without health check, SetHealthCheck, RemoveHealthCheck), health probes answered 200 / 500 / never / by a refusing or silent address with answers flipping at seeded times, 2-7 (thorough 2-11) clients sending 1-8 short requests each on a kept-alive connection with think times 0-2.5 s, optional cookie naming an existing / later removed / unknown member or a backend id; plus 32 enumerated traffic scenarios (per policy: removal with open keep-alive connections + re-add with another id, a refusing member through several back-off windows, backups behind a primary that fails and is removed, cookies, a member failing its health check and recovering; once: a healthy member whose probe answer is not UTF-8; once, least_loaded: a member that refuses, recovers and must be preferred to the one holding a kept-alive connection). Oracle: history-based and three-valued (see c12_netmodel.rs): every connect() made for a request must go to a member of the request's cluster that is in the allowed set in some admissible state at the instant of the connect (commands atomic inside [sent, acknowledged]; back-off definite for the first second after a failure and possible up to the largest wait the policy can draw; health from the probe answers the mocks produced); cookie holder wins when it definitely qualifies; under least_loaded/connections the chosen primary may not certainly hold more open connections (as the simulated network counts them) than a certainly qualifying primary; 503 only when the allowed set may be empty at some instant of the request's window or one of its connect attempts failed; 502/504 only after a backend fault; QueryMetrics gauges connections_per_backend / backend.connections / backend.pool.size / http.active_requests are zero (and not wrapped) 3 s after the last client left. Non-trivial traffic run: >=1 connect judged while >=1 member was definitely excluded (removed, in back-off, unhealthy, or a backup behind a qualifying primary). distinct = distinct hashes of (operations with arguments, selections, final counters) resp. of the simulator trace",
            assumptions: vec![
                "release semantics (debug assertions off)",
                "model tier: connect/stream/close bookkeeping on Backend (failures, retry_policy.fail/succeed, active_requests +/-) is replayed by the harness the way protocol/mux/mod.rs does it; only inc/dec_connections, try_connect, selection, membership, health and retry code are the real thing",
                "health-check results and removal are address keyed as in health_check.rs / server.rs (first member at the address; every member at the address)",
                "several members sharing one cookie value is treated as ambiguous configuration: any qualifying holder, or normal selection when the holders disagree, is accepted",
                "Maglev: a key may move when the full member set (not only the eligible set) changes, as documented for the table rebuild",
                "traffic tier: AF_UNIX stands in for TCP; the worker acts on a network event within 2 ms of virtual time",
                "traffic tier: a connect that never completes (connect_timeout) may or may not arm the back-off (doc/configure.md calls every connect failure a failure, the mux does not feed timeouts to the retry policy): both accepted",
                "traffic tier: a server that accepts and closes at once may count as a failed or as a successful connect (depends on what the worker polls first): both accepted",
                "traffic tier: RemoveHealthCheck leaves the last health marks in place (server.rs) while AddCluster without health_check resets them (backends.rs): modelled as coded, both documented in code comments only",
                "traffic tier: probes are told from request connects by the epoll token range the health checker registers its sockets in (1<<24..); plans with health checks contain no synchronous connect failure (such a connect is never registered)",
                "traffic tier: in a plan where a probed server answers with a body that is not UTF-8 every eligibility violation is reported under the key probe_answer_not_utf8 (one recorded defect, several symptoms)",
            ],
            real: vec!["sozu_lib::backends::{BackendMap, BackendList, Backend, HealthState}", "sozu_lib::load_balancing::* (all six policies, seeded rand)", "sozu_lib::retry::ExponentialBackoffPolicy (virtual clock, seeded jitter)", "mio::net::TcpStream::connect through the simulated libc", "traffic tier: sozu_lib::server::Server::run with AddBackend/RemoveBackend/AddCluster/SetHealthCheck/RemoveHealthCheck handling, protocol::mux (router connect/retry, H1 backend connections, connect failure and success feeding the retry policy, counters and gauges on real session lifecycles), health_check::HealthChecker driven by the worker loop, metrics local drain + QueryMetrics"],
            stub: vec!["clock", "entropy", "network (model tier: connect answers only; traffic tier: simulated addresses with scripted behaviour)", "model tier: sessions / mux bookkeeping (replayed by the harness), health checker (results injected)", "traffic tier: clients, backend servers, master"],
            not_covered: vec!["affinity of HRW / Maglev on real traffic (the HTTP path selects without a key; affinity is judged in the model tier only)", "load quality of power_of_two and of the requests / connection_time metrics; Backend.active_requests (not exported; Backend.active_connections only through least_loaded choices)", "a request whose cookie differs from the one its kept-alive backend connection was opened with (connection reuse bypasses selection)", "HTTP/2, TLS, TCP and UDP listeners in the traffic tier (H1 only)", "h2c health probes (cluster.http2)", "two live ids at one address inside one cluster in the traffic tier (model tier only)", "requests left unanswered by a closed connection (C02); only a client that waits 120 s is flagged"],
        }
    }
}
