//! C17 handshake tier — actors (own master on the worker's command channel, TLS clients that send a
//! sequence of requests over HTTP/1.1 keep-alive or HTTP/2 streams, one HTTP/1.1 backend per tenant) and the run.
//!
//! Every observation is stamped with the world's global event counter (`World.trace.1`: one tick per
//! actor step, per sozu syscall, per epoll delivery), which totally orders what the master and the
//! clients did and saw.
#![allow(dead_code)]
use std::any::Any;
use std::collections::{BTreeMap, BTreeSet};
use std::net::SocketAddr;

use prost::Message;
use sozu_command_lib::config::ListenerBuilder;
use sozu_command_lib::proto::command::{
    request::RequestType, ActivateListener, AddBackend, AddCertificate, Cluster, HardStop, ListenerType, LoadBalancingParams, PathRule, RemoveCertificate, ReplaceCertificate, Request,
    RequestHttpFrontend, ResponseStatus, RulePosition, WorkerRequest, WorkerResponse,
};
use sozu_command_lib::scm_socket::Listeners;
use sozu_command_lib::state::ConfigState;

use super::hs::*;
use super::{build_ck, resolve_ref, Fx, Op};
use crate::actors::h1::{BackendPlan, BodySpec, H1Backend, RespSpec};
use crate::actors::h1codec::{Kind, Parser};
use crate::actors::h2codec::{FrameReader, HpackDecoder, HpackEncoder, RawFrame, Repr};
use crate::actors::master::{frame, Master};
use crate::actors::tls::{ReadOutcome, TlsPlan, TlsTransport, TlsVersions, Transport};
use crate::actors::{rd, wr, Io, Pace};
use crate::prng::Prng;
use crate::netsim::{self, Knobs};
use crate::world::{Actor, ConnectMode, Step, World, SEC};

pub fn seq(w: &World) -> u64 { w.trace.1 }

fn gate_open(w: &World, g: &Gate) -> bool {
    match g {
        Gate::None => true,
        Gate::Client(i, ph) => w.board_get(&format!("c{i}")) >= *ph as i64,
        Gate::Cmd(k, ph) => w.board_get(&format!("k{k}")) >= *ph as i64,
    }
}

// ------------------------------------------------------------------------------------- master

#[derive(Clone, Debug, Default)]
pub struct CmdObs {
    /// stamp taken before the first byte of the command was written
    pub sent: Option<u64>,
    pub sent_done: Option<u64>,
    /// stamp taken when the final answer was read
    pub acked: Option<u64>,
    pub ok: Option<bool>,
    pub message: String,
    pub t_sent: u64,
    pub t_acked: u64,
    pub gate_timed_out: bool,
}

pub struct HsMaster {
    fd: i32,
    conf: Vec<Request>,
    cmds: Vec<(CmdPlan, Request)>,
    nclients: i64,
    out: Vec<u8>,
    inbuf: Vec<u8>,
    state: u8,
    t0: u64,
    cur: usize,
    cur_started: bool,
    cur_bytes: Vec<u8>,
    cur_off: usize,
    next_frag_at: u64,
    gate_deadline: Option<u64>,
    give_up_at: u64,
    conf_finals: usize,
    pub conf_failures: Vec<String>,
    pub obs: Vec<CmdObs>,
    pub eof: bool,
    pub garbage: Option<String>,
    pub stop_sent: bool,
}

impl HsMaster {
    pub fn new(fd: i32, conf: Vec<Request>, cmds: Vec<(CmdPlan, Request)>, nclients: usize) -> HsMaster {
        let n = cmds.len();
        HsMaster { fd, conf, cmds, nclients: nclients as i64, out: Vec::new(), inbuf: Vec::new(), state: 0, t0: 0, cur: 0, cur_started: false, cur_bytes: Vec::new(), cur_off: 0, next_frag_at: 0, gate_deadline: None, give_up_at: 0, conf_finals: 0, conf_failures: Vec::new(), obs: vec![CmdObs::default(); n], eof: false, garbage: None, stop_sent: false }
    }

    fn pump(&mut self, w: &mut World) -> bool {
        let mut progressed = false;
        let mut buf = [0u8; 16384];
        loop {
            match rd(self.fd, &mut buf) {
                Io::N(n) => { progressed = true; self.inbuf.extend_from_slice(&buf[..n]); }
                Io::WouldBlock => break,
                Io::Eof | Io::Err(_) => { if !self.eof { progressed = true; } self.eof = true; break; }
            }
        }
        loop {
            if self.inbuf.len() < 8 { break; }
            let len = u64::from_le_bytes(self.inbuf[..8].try_into().unwrap()) as usize;
            if len < 8 || len > 64 << 20 { self.garbage = Some(format!("bad frame length {len} from worker")); self.inbuf.clear(); break; }
            if self.inbuf.len() < len { break; }
            let fr: Vec<u8> = self.inbuf.drain(..len).collect();
            match WorkerResponse::decode(&fr[8..]) {
                Ok(resp) => {
                    if resp.status == ResponseStatus::Processing as i32 { continue; }
                    let ok = resp.status == ResponseStatus::Ok as i32;
                    if let Some(k) = resp.id.strip_prefix('K').and_then(|s| s.parse::<usize>().ok()) {
                        if let Some(o) = self.obs.get_mut(k) {
                            if o.acked.is_none() {
                                o.acked = Some(seq(w));
                                o.t_acked = w.now;
                                o.ok = Some(ok);
                                o.message = resp.message.clone();
                                w.board_set(&format!("k{k}"), 2);
                            }
                        }
                    } else if resp.id.starts_with('I') {
                        self.conf_finals += 1;
                        if !ok { self.conf_failures.push(format!("{}: {}", resp.id, resp.message)); }
                    }
                }
                Err(e) => { self.garbage = Some(format!("undecodable response: {e}")); }
            }
        }
        progressed
    }

    fn flush_all(&mut self) -> bool {
        let mut progressed = false;
        while !self.out.is_empty() {
            match wr(self.fd, &self.out) {
                Io::N(n) => { self.out.drain(..n); progressed = true; }
                Io::WouldBlock => break,
                _ => { self.eof = true; self.out.clear(); break; }
            }
        }
        progressed
    }
}

impl Actor for HsMaster {
    fn name(&self) -> String { "hs-master".into() }
    fn as_any(&mut self) -> &mut dyn Any { self }
    fn as_any_ref(&self) -> &dyn Any { self }
    fn class(&self) -> u8 { 2 }
    fn step(&mut self, w: &mut World) -> Step {
        let progressed = self.pump(w);
        let idle = |p: bool, t: u64, now: u64| if p || t <= now { Step::Progress } else { Step::Idle(t) };
        if self.eof && self.state < 4 { self.state = 5; }
        match self.state {
            0 => {
                if !self.conf.is_empty() {
                    for (i, r) in std::mem::take(&mut self.conf).into_iter().enumerate() {
                        self.out.extend_from_slice(&frame(&WorkerRequest { id: format!("I{i}"), content: r }));
                        self.cur_off = i + 1;
                    }
                }
                let p = self.flush_all();
                if self.out.is_empty() { self.state = 1; return Step::Progress; }
                if p || progressed { Step::Progress } else { Step::Blocked }
            }
            1 => {
                if self.conf_finals >= self.cur_off {
                    self.t0 = w.now;
                    self.give_up_at = w.now + 8 * SEC;
                    self.cur_off = 0;
                    w.board_set("t0", w.now as i64);
                    w.board_set("configured", 1);
                    self.state = 2;
                    return Step::Progress;
                }
                if progressed { Step::Progress } else { Step::Blocked }
            }
            2 => {
                if self.cur >= self.cmds.len() { self.state = 3; return Step::Progress; }
                if w.now >= self.give_up_at { self.state = 3; return Step::Progress; }
                let (plan, _) = &self.cmds[self.cur];
                if !self.cur_started {
                    let at = self.t0 + plan.at_ns;
                    if w.now < at { return idle(progressed, at, w.now); }
                    if !gate_open(w, &plan.gate) {
                        let d = *self.gate_deadline.get_or_insert(w.now + GATE_TIMEOUT_NS);
                        if w.now < d { return idle(progressed, d, w.now); }
                        self.obs[self.cur].gate_timed_out = true;
                    }
                    self.gate_deadline = None;
                    self.cur_started = true;
                    self.obs[self.cur].sent = Some(seq(w));
                    self.obs[self.cur].t_sent = w.now;
                    self.cur_bytes = frame(&WorkerRequest { id: format!("K{}", self.cur), content: self.cmds[self.cur].1.clone() });
                    self.cur_off = 0;
                    self.next_frag_at = 0;
                }
                if w.now < self.next_frag_at { return idle(progressed, self.next_frag_at, w.now); }
                let (plan, _) = &self.cmds[self.cur];
                let left = self.cur_bytes.len() - self.cur_off;
                let q = if plan.wq == 0 { left } else { plan.wq.min(left) };
                match wr(self.fd, &self.cur_bytes[self.cur_off..self.cur_off + q]) {
                    Io::N(n) => {
                        self.cur_off += n;
                        if plan.gap_ns > 0 { self.next_frag_at = w.now + plan.gap_ns; }
                    }
                    Io::WouldBlock => return if progressed { Step::Progress } else { Step::Blocked },
                    _ => { self.eof = true; return Step::Progress; }
                }
                if self.cur_off == self.cur_bytes.len() {
                    self.obs[self.cur].sent_done = Some(seq(w));
                    if w.board_get(&format!("k{}", self.cur)) < 1 { w.board_set(&format!("k{}", self.cur), 1); }
                    self.cur += 1;
                    self.cur_started = false;
                    self.cur_bytes.clear();
                }
                Step::Progress
            }
            3 => {
                let all_acked = self.obs.iter().all(|o| o.sent.is_none() || o.acked.is_some());
                if (all_acked && w.board_get("clients_done") >= self.nclients) || w.now >= self.give_up_at {
                    self.out.extend_from_slice(&frame(&WorkerRequest { id: "STOP".into(), content: Request { request_type: Some(RequestType::HardStop(HardStop {})) } }));
                    self.stop_sent = true;
                    self.state = 4;
                    return Step::Progress;
                }
                idle(progressed, self.give_up_at, w.now)
            }
            4 => {
                let p = self.flush_all();
                if p || progressed { Step::Progress } else { Step::Blocked }
            }
            _ => Step::Done,
        }
    }
}

impl Drop for HsMaster {
    fn drop(&mut self) { if self.fd >= 0 { crate::sys::close(self.fd); self.fd = -1; } }
}

// ------------------------------------------------------------------------------------- clients

#[derive(Clone, Debug, Default)]
pub struct ClientObs {
    pub started: bool,
    pub connect_err: Option<i32>,
    pub setup_err: Option<String>,
    /// stamp taken before connecting
    pub hs_start: u64,
    pub t_start: u64,
    /// stamp taken when the first part of a split ClientHello was on the wire
    pub part1: Option<u64>,
    pub resumed: Option<u64>,
    /// stamp taken when the server certificate was first seen, or when the handshake was seen to fail
    pub hs_end: Option<u64>,
    pub t_end: u64,
    pub cert: Option<Vec<u8>>,
    pub handshake_done: bool,
    pub error: Option<String>,
    /// raw client: (level, description) of a received alert
    pub alert: Option<(u8, u8)>,
    pub eof_before_cert: bool,
    pub version: Option<String>,
    pub alpn: Option<String>,
    /// one entry per planned request (first, then `more`), in sending order
    pub reqs: Vec<ReqObs>,
    /// connection-level end of the HTTP exchange (GOAWAY, unparsable answer)
    pub h2_end: Option<String>,
    pub gave_up: bool,
    pub gate_timed_out: bool,
    pub hello_len: usize,
    /// stamp taken when a held Finished flight was released
    pub released: Option<u64>,
}

#[derive(Clone, Debug, Default)]
pub struct ReqObs {
    /// stamp taken before the first byte of the request was handed to the TLS layer
    pub sent_start: Option<u64>,
    /// every byte of the request was written to the socket
    pub sent: bool,
    pub status: Option<u16>,
    /// `x-tenant` of the answer: set by the mock backend of the tenant that answered
    pub tenant: Option<String>,
    /// `x-sim-id` of the answer (the backend echoes the id of the request it answers)
    pub echo: Option<u64>,
    /// stamp taken when the status was read, or when the exchange ended without one
    pub status_seq: Option<u64>,
    /// the answer (or the stream) is over
    pub complete: bool,
    /// stream-level end without an answer (RST_STREAM, refused by GOAWAY)
    pub end: Option<String>,
}

/// id carried in `x-sim-id` by request `k` of client `i`
pub fn sim_id(client: usize, k: usize) -> u64 { client as u64 * 10 + k as u64 + 1 }

/// TLS 1.2-only ClientHello carrying `sni` verbatim
pub fn hello12(sni: Option<&[u8]>, salt: u8) -> Vec<u8> {
    fn push_ext(out: &mut Vec<u8>, ty: u16, body: &[u8]) { out.extend(ty.to_be_bytes()); out.extend((body.len() as u16).to_be_bytes()); out.extend(body); }
    let mut ext = Vec::new();
    if let Some(sni) = sni {
        let mut sn = vec![0u8];
        sn.extend((sni.len() as u16).to_be_bytes());
        sn.extend(sni);
        let mut snl = (sn.len() as u16).to_be_bytes().to_vec();
        snl.extend(sn);
        push_ext(&mut ext, 0x0000, &snl);
    }
    push_ext(&mut ext, 0x000a, &[0x00, 0x04, 0x00, 0x1d, 0x00, 0x17]);
    push_ext(&mut ext, 0x000b, &[0x01, 0x00]);
    push_ext(&mut ext, 0x000d, &[0x00, 0x12, 0x08, 0x07, 0x04, 0x03, 0x05, 0x03, 0x08, 0x04, 0x08, 0x05, 0x08, 0x06, 0x04, 0x01, 0x05, 0x01, 0x06, 0x01]);
    push_ext(&mut ext, 0x0017, &[]);
    push_ext(&mut ext, 0xff01, &[0x00]);
    let mut body = vec![0x03, 0x03];
    body.extend((0..32u8).map(|i| i.wrapping_mul(7) ^ salt));
    body.push(0);
    body.extend([0x00, 0x0c, 0xc0, 0x2b, 0xc0, 0x2f, 0xc0, 0x2c, 0xc0, 0x30, 0xcc, 0xa9, 0xcc, 0xa8]);
    body.extend([0x01, 0x00]);
    body.extend((ext.len() as u16).to_be_bytes());
    body.extend(ext);
    let mut hs = vec![0x01, 0, (body.len() >> 8) as u8, body.len() as u8];
    hs.extend(body);
    let mut rec = vec![0x16, 0x03, 0x01, (hs.len() >> 8) as u8, hs.len() as u8];
    rec.extend(hs);
    rec
}

pub struct HsClient {
    idx: usize,
    plan: ClientPlan,
    src: SocketAddr,
    dst: SocketAddr,
    state: u8,
    start_at: u64,
    gate_deadline: Option<u64>,
    paused_at: u64,
    give_up_at: u64,
    tr: Option<TlsTransport>,
    raw_fd: i32,
    hello: Vec<u8>,
    hello_off: usize,
    /// raw client: bytes received, handshake-message stream reassembled from the records
    rec_buf: Vec<u8>,
    hs_stream: Vec<u8>,
    plain_in: Vec<u8>,
    req: Vec<u8>,
    req_off: usize,
    /// authorities of the planned requests and whether each is opened together with its predecessor
    seq_plan: Vec<(String, bool)>,
    h2: bool,
    /// requests handed to the TLS layer so far
    emitted: usize,
    h1p: Parser,
    goaway: bool,
    h2r: FrameReader,
    hdec: Option<HpackDecoder>,
    pub obs: ClientObs,
}

impl HsClient {
    pub fn new(idx: usize, plan: ClientPlan, dst: SocketAddr) -> HsClient {
        let src: SocketAddr = format!("192.0.2.{}:{}", 10 + idx, 40000 + idx).parse().unwrap();
        HsClient { idx, plan, src, dst, state: 0, start_at: 0, gate_deadline: None, paused_at: 0, give_up_at: 0, tr: None, raw_fd: -1, hello: Vec::new(), hello_off: 0, rec_buf: Vec::new(), hs_stream: Vec::new(), plain_in: Vec::new(), req: Vec::new(), req_off: 0, seq_plan: Vec::new(), h2: false, emitted: 0, h1p: Parser::new(Kind::Response), goaway: false, h2r: FrameReader::new(false), hdec: None, obs: ClientObs::default() }
    }

    fn phase(&self, w: &mut World, ph: i64) {
        let k = format!("c{}", self.idx);
        if w.board_get(&k) < ph { w.board_set(&k, ph); }
    }

    fn finish(&mut self, w: &mut World) -> Step {
        if self.obs.started && self.obs.hs_end.is_none() { self.obs.hs_end = Some(seq(w)); self.obs.t_end = w.now; }
        let now = seq(w);
        for r in self.obs.reqs.iter_mut() { if r.sent_start.is_some() && r.status_seq.is_none() { r.status_seq = Some(now); } }
        if let Some(t) = self.tr.as_mut() { t.close(); }
        if self.raw_fd >= 0 { crate::sys::close(self.raw_fd); self.raw_fd = -1; }
        self.state = 9;
        self.phase(w, 3);
        w.board_add("clients_done", 1);
        Step::Done
    }

    fn note_tls(&mut self, w: &World) {
        let Some(t) = self.tr.as_ref() else { return };
        if self.obs.cert.is_none() {
            if let Some(c) = &t.rec.cert_der { self.obs.cert = Some(c.clone()); self.obs.hs_end = Some(seq(w)); self.obs.t_end = w.now; }
        }
        if t.rec.handshake_done && !self.obs.handshake_done {
            self.obs.handshake_done = true;
            self.obs.version = t.rec.version.clone();
            self.obs.alpn = t.rec.alpn.clone();
        }
        if self.obs.error.is_none() { if let Some(e) = &t.rec.error { self.obs.error = Some(e.clone()); } }
    }

    /// raw client: digest received bytes; true when the exchange is over (certificate, alert)
    fn raw_digest(&mut self, w: &World) -> bool {
        loop {
            if self.rec_buf.len() < 5 { break; }
            let len = ((self.rec_buf[3] as usize) << 8) | self.rec_buf[4] as usize;
            if self.rec_buf.len() < 5 + len { break; }
            let ty = self.rec_buf[0];
            let payload: Vec<u8> = self.rec_buf[5..5 + len].to_vec();
            self.rec_buf.drain(..5 + len);
            match ty {
                22 => self.hs_stream.extend_from_slice(&payload),
                21 if payload.len() >= 2 => { self.obs.alert = Some((payload[0], payload[1])); self.obs.error = Some(format!("alert {} {}", payload[0], payload[1])); return true; }
                _ => {}
            }
        }
        loop {
            if self.hs_stream.len() < 4 { break; }
            let len = ((self.hs_stream[1] as usize) << 16) | ((self.hs_stream[2] as usize) << 8) | self.hs_stream[3] as usize;
            if self.hs_stream.len() < 4 + len { break; }
            let ty = self.hs_stream[0];
            let body: Vec<u8> = self.hs_stream[4..4 + len].to_vec();
            self.hs_stream.drain(..4 + len);
            if ty == 2 && body.len() >= 2 { self.obs.version = Some(format!("{:02x}{:02x}", body[0], body[1])); }
            if ty == 11 && body.len() >= 6 {
                let l = ((body[3] as usize) << 16) | ((body[4] as usize) << 8) | body[5] as usize;
                if body.len() >= 6 + l { self.obs.cert = Some(body[6..6 + l].to_vec()); self.obs.hs_end = Some(seq(w)); self.obs.t_end = w.now; }
                return true;
            }
        }
        false
    }

    fn begin_requests(&mut self, w: &World) {
        let Some(r) = self.plan.request.clone() else { return };
        self.h2 = r.h2;
        self.seq_plan = std::iter::once((r.host.clone(), false)).chain(self.plan.more.iter().map(|m| (m.host.clone(), m.concurrent && r.h2))).collect();
        self.obs.reqs = vec![ReqObs::default(); self.seq_plan.len()];
        if self.h2 {
            self.req = b"PRI * HTTP/2.0\r\n\r\nSM\r\n\r\n".to_vec();
            self.req.extend(RawFrame::new(4, 0, 0, vec![]).encode());
            self.hdec = Some(HpackDecoder::new());
        }
        self.emit_next(w);
    }

    /// hand the next request (and, on HTTP/2, the requests opened together with it) to the TLS layer
    fn emit_next(&mut self, w: &World) {
        loop {
            let k = self.emitted;
            if k >= self.seq_plan.len() { return; }
            let host = self.seq_plan[k].0.clone();
            let id = sim_id(self.idx, k);
            self.obs.reqs[k].sent_start = Some(seq(w));
            if self.h2 {
                let mut block = Vec::new();
                HpackEncoder::indexed(&mut block, 2);
                HpackEncoder::indexed(&mut block, 7);
                HpackEncoder::indexed(&mut block, 4);
                HpackEncoder::literal(&mut block, b":authority", host.as_bytes(), Repr::NoIndex, Some(1), false);
                HpackEncoder::literal(&mut block, b"x-sim-id", id.to_string().as_bytes(), Repr::NoIndex, None, false);
                self.req.extend(RawFrame::new(1, 0x05, 2 * k as u32 + 1, block).encode());
            } else {
                let last = k + 1 == self.seq_plan.len();
                self.req.extend_from_slice(format!("GET / HTTP/1.1\r\nHost: {host}\r\nx-sim-id: {id}\r\n{}\r\n", if last { "Connection: close\r\n" } else { "" }).as_bytes());
                self.h1p.expect.push_back("GET".into());
            }
            self.emitted += 1;
            if !(self.h2 && self.emitted < self.seq_plan.len() && self.seq_plan[self.emitted].1) { return; }
        }
    }

    fn note_answer(&mut self, w: &World, k: usize, status: Option<u16>, tenant: Option<String>, echo: Option<u64>) {
        let Some(r) = self.obs.reqs.get_mut(k) else { return };
        if r.status_seq.is_some() { return; }
        r.status = status;
        r.tenant = tenant;
        r.echo = echo;
        r.status_seq = Some(seq(w));
    }

    /// digest plaintext; true when the exchange is over (every planned request has its answer, or no
    /// further answer can come)
    fn digest_response(&mut self, w: &World) -> bool {
        let data = std::mem::take(&mut self.plain_in);
        if !self.h2 {
            self.h1p.feed(&data, w.now);
            if let Some(e) = self.h1p.error.clone() { self.obs.h2_end = Some(format!("unparsable answer: {e}")); return true; }
            let heads: Vec<(Option<u16>, Option<String>, Option<u64>, bool)> = self.h1p.done.iter().map(|m| (m, true)).chain(self.h1p.cur.iter().map(|m| (m, false)))
                .map(|(m, done)| (Some(m.status()).filter(|s| *s != 0), m.header("x-tenant").map(|s| s.to_string()), m.sim_id, done)).collect();
            for (k, (st, tenant, echo, done)) in heads.into_iter().enumerate() {
                self.note_answer(w, k, st, tenant, echo);
                if done { if let Some(r) = self.obs.reqs.get_mut(k) { r.complete = true; } }
            }
        } else {
            self.h2r.feed(&data);
            while let Some(f) = self.h2r.next() {
                let k = if f.head.stream % 2 == 1 { (f.head.stream as usize - 1) / 2 } else { usize::MAX };
                match f.head.ty {
                    4 if f.head.flags & 1 == 0 => { self.req.extend(RawFrame::new(4, 1, 0, vec![]).encode()); }
                    1 => {
                        let mut pl = &f.payload[..];
                        if f.head.flags & 0x08 != 0 && !pl.is_empty() { let pad = pl[0] as usize; pl = &pl[1..]; if pad <= pl.len() { pl = &pl[..pl.len() - pad]; } }
                        if f.head.flags & 0x20 != 0 && pl.len() >= 5 { pl = &pl[5..]; }
                        if f.head.flags & 0x04 == 0 { self.obs.h2_end = Some("HEADERS without END_HEADERS (CONTINUATION is not supported by this client)".into()); return true; }
                        match self.hdec.as_mut().map(|d| d.decode(pl)) {
                            Some(Ok(b)) => {
                                let get = |n: &str| b.fields.iter().find(|(name, _)| name == n).map(|(_, v)| v.clone());
                                let st: Option<u16> = get(":status").and_then(|v| v.parse().ok());
                                // trailers carry no :status
                                if st.is_some() { self.note_answer(w, k, st, get("x-tenant"), get("x-sim-id").and_then(|v| v.trim().parse().ok())); }
                            }
                            Some(Err(e)) => { self.obs.h2_end = Some(format!("hpack: {e}")); return true; }
                            None => {}
                        }
                        if f.head.flags & 0x01 != 0 { if let Some(r) = self.obs.reqs.get_mut(k) { r.complete = true; } }
                    }
                    0 => { if f.head.flags & 0x01 != 0 { if let Some(r) = self.obs.reqs.get_mut(k) { r.complete = true; } } }
                    3 => {
                        let code = f.payload.get(0..4).map(|b| u32::from_be_bytes([b[0], b[1], b[2], b[3]])).unwrap_or(u32::MAX);
                        let now = seq(w);
                        if let Some(r) = self.obs.reqs.get_mut(k) { if !r.complete { r.complete = true; if r.status_seq.is_none() { r.end = Some(format!("RST_STREAM {code}")); r.status_seq = Some(now); } } }
                    }
                    7 => {
                        let last = f.payload.get(0..4).map(|b| u32::from_be_bytes([b[0] & 0x7f, b[1], b[2], b[3]])).unwrap_or(0);
                        self.obs.h2_end = Some(format!("GOAWAY last_stream={last} code={:?}", f.payload.get(4..8)));
                        self.goaway = true;
                        let now = seq(w);
                        for (j, r) in self.obs.reqs.iter_mut().enumerate() {
                            if 2 * j as u32 + 1 > last && r.sent_start.is_some() && !r.complete { r.complete = true; if r.status_seq.is_none() { r.end = Some("refused by GOAWAY".into()); r.status_seq = Some(now); } }
                        }
                    }
                    _ => {}
                }
            }
        }
        // the next request follows once everything sent so far has been answered completely
        let all_done = self.obs.reqs.iter().take(self.emitted).all(|r| r.complete);
        if all_done && self.emitted < self.seq_plan.len() && !self.goaway { self.emit_next(w); return false; }
        all_done
    }
}

impl Actor for HsClient {
    fn name(&self) -> String { format!("hs-client{}", self.idx) }
    fn as_any(&mut self) -> &mut dyn Any { self }
    fn as_any_ref(&self) -> &dyn Any { self }
    fn step(&mut self, w: &mut World) -> Step {
        if self.state >= 1 && self.state < 9 && w.now >= self.give_up_at { self.obs.gave_up = true; return self.finish(w); }
        match self.state {
            0 => {
                if w.board_get("configured") == 0 { return Step::Blocked; }
                if self.start_at == 0 { self.start_at = w.board_get("t0") as u64 + self.plan.at_ns; }
                if w.now < self.start_at { return Step::Sleep(self.start_at); }
                if !gate_open(w, &self.plan.gate) {
                    let d = *self.gate_deadline.get_or_insert(w.now + GATE_TIMEOUT_NS);
                    if w.now < d { return Step::Idle(d); }
                    self.obs.gate_timed_out = true;
                }
                self.gate_deadline = None;
                self.obs.started = true;
                self.obs.hs_start = seq(w);
                self.obs.t_start = w.now;
                self.give_up_at = w.now + 3 * SEC;
                let fd = match w.peer_connect(&self.src.clone(), &self.dst.clone(), None) {
                    Ok(fd) => fd,
                    Err(e) => { self.obs.connect_err = Some(e); return self.finish(w); }
                };
                if self.plan.raw {
                    self.raw_fd = fd;
                    self.hello = hello12(self.plan.sni.as_ref().map(|s| s.as_bytes()), self.idx as u8);
                    self.obs.hello_len = self.hello.len();
                } else {
                    let alpn: Vec<String> = match &self.plan.request { Some(r) if r.h2 => vec!["h2".into()], Some(_) => vec!["http/1.1".into()], None => vec!["h2".into(), "http/1.1".into()] };
                    let tp = TlsPlan { sni: self.plan.sni.clone(), alpn, versions: match self.plan.version { 2 => TlsVersions::Tls12, 3 => TlsVersions::Tls13, _ => TlsVersions::Both }, max_fragment_size: None };
                    match TlsTransport::new(fd, &tp) {
                        Ok(t) => self.tr = Some(t),
                        Err(e) => { crate::sys::close(fd); self.obs.setup_err = Some(e); return self.finish(w); }
                    }
                }
                self.state = if self.plan.split > 0 { 1 } else { 3 };
                Step::Progress
            }
            // first part of a split ClientHello
            1 => {
                let done = if self.plan.raw {
                    let want = self.plan.split.min(self.hello.len().saturating_sub(1)).max(1);
                    if self.hello_off < want {
                        match wr(self.raw_fd, &self.hello[self.hello_off..want]) { Io::N(n) => self.hello_off += n, Io::WouldBlock => return Step::Blocked, _ => return self.finish(w) }
                    }
                    self.hello_off >= want
                } else {
                    let t = self.tr.as_mut().unwrap();
                    let written = t.wire_written() as usize;
                    if written < self.plan.split { t.write(w, &[], self.plan.split - written); }
                    let t = self.tr.as_ref().unwrap();
                    if self.obs.hello_len == 0 { self.obs.hello_len = t.wire_written() as usize + t.pending_out(); }
                    t.wire_written() as usize >= self.plan.split || t.pending_out() == 0 || t.write_error().is_some()
                };
                if done {
                    self.obs.part1 = Some(seq(w));
                    self.paused_at = w.now;
                    self.phase(w, 1);
                    self.state = 2;
                }
                Step::Progress
            }
            2 => {
                let at = self.paused_at + self.plan.resume_ns;
                if w.now < at { return Step::Idle(at); }
                if !gate_open(w, &self.plan.resume) {
                    let d = *self.gate_deadline.get_or_insert(w.now + GATE_TIMEOUT_NS);
                    if w.now < d { return Step::Idle(d); }
                    self.obs.gate_timed_out = true;
                }
                self.gate_deadline = None;
                self.obs.resumed = Some(seq(w));
                self.state = 3;
                Step::Progress
            }
            // handshake
            3 => {
                let mut progressed = false;
                let q = if self.plan.wq == 0 { usize::MAX } else { self.plan.wq };
                if self.plan.raw {
                    if self.hello_off < self.hello.len() {
                        let end = self.hello.len().min(self.hello_off.saturating_add(q));
                        match wr(self.raw_fd, &self.hello[self.hello_off..end]) { Io::N(n) => { self.hello_off += n; progressed = true; } Io::WouldBlock => {}, _ => return self.finish(w) }
                        if self.hello_off == self.hello.len() { self.phase(w, 1); }
                    }
                    let mut buf = [0u8; 16384];
                    match rd(self.raw_fd, &mut buf) {
                        Io::N(n) => { progressed = true; self.rec_buf.extend_from_slice(&buf[..n]); if self.raw_digest(w) { self.phase(w, 2); return self.finish(w); } }
                        Io::WouldBlock => {}
                        Io::Eof | Io::Err(_) => { self.obs.eof_before_cert = true; self.phase(w, 2); return self.finish(w); }
                    }
                } else {
                    // hold the client's last flight once the certificate has been seen
                    if self.obs.cert.is_some() && self.obs.released.is_none() && self.plan.hold != Gate::None {
                        if !gate_open(w, &self.plan.hold) {
                            let d = *self.gate_deadline.get_or_insert(w.now + GATE_TIMEOUT_NS);
                            if w.now < d { return Step::Idle(d); }
                            self.obs.gate_timed_out = true;
                        }
                        self.gate_deadline = None;
                        self.obs.released = Some(seq(w));
                    }
                    let t = self.tr.as_mut().unwrap();
                    let before = t.wire_written();
                    if t.pending_out() > 0 { t.write(w, &[], q); }
                    if t.wire_written() != before { progressed = true; }
                    if t.pending_out() == 0 { let k = format!("c{}", self.idx); if w.board_get(&k) < 1 { w.board_set(&k, 1); } }
                    let t = self.tr.as_mut().unwrap();
                    let mut sink = Vec::new();
                    let r = t.read(w, &mut sink, 16384);
                    self.plain_in.extend_from_slice(&sink);
                    self.note_tls(w);
                    if self.obs.cert.is_some() { self.phase(w, 2); }
                    match r {
                        ReadOutcome::Data(_) => progressed = true,
                        ReadOutcome::WouldBlock => {}
                        ReadOutcome::Eof => { if self.obs.cert.is_none() { self.obs.eof_before_cert = true; } self.phase(w, 2); return self.finish(w); }
                        ReadOutcome::Err(_) => {
                            // flush the alert rustls queued, then stop
                            if let Some(t) = self.tr.as_mut() { t.write(w, &[], usize::MAX); }
                            self.note_tls(w);
                            self.phase(w, 2);
                            return self.finish(w);
                        }
                    }
                    if self.obs.handshake_done {
                        if self.plan.hold != Gate::None && self.obs.released.is_none() { return Step::Progress; }
                        let t = self.tr.as_mut().unwrap();
                        if t.pending_out() > 0 { t.write(w, &[], usize::MAX); return Step::Progress; }
                        if self.plan.request.is_none() { return self.finish(w); }
                        self.begin_requests(w);
                        self.state = 4;
                        return Step::Progress;
                    }
                }
                if progressed { Step::Progress } else { Step::Idle(self.give_up_at) }
            }
            // the request sequence
            4 => {
                let mut progressed = false;
                let q = if self.plan.wq == 0 { usize::MAX } else { self.plan.wq.max(16) };
                let t = self.tr.as_mut().unwrap();
                if self.req_off < self.req.len() {
                    let n = t.write(w, &self.req[self.req_off..], q);
                    self.req_off += n;
                    if n > 0 { progressed = true; }
                } else if t.pending_out() > 0 {
                    let before = t.wire_written();
                    t.write(w, &[], q);
                    if t.wire_written() != before { progressed = true; }
                }
                let t = self.tr.as_ref().unwrap();
                if self.req_off >= self.req.len() && t.pending_out() == 0 { for r in self.obs.reqs.iter_mut().take(self.emitted) { r.sent = true; } }
                let t = self.tr.as_mut().unwrap();
                let mut sink = Vec::new();
                let r = t.read(w, &mut sink, 16384);
                self.plain_in.extend_from_slice(&sink);
                self.note_tls(w);
                if !self.plain_in.is_empty() {
                    let emitted = self.emitted;
                    if self.digest_response(w) { return self.finish(w); }
                    if self.emitted != emitted || self.req_off < self.req.len() { progressed = true; }
                }
                match r {
                    ReadOutcome::Data(_) => progressed = true,
                    ReadOutcome::WouldBlock => {}
                    ReadOutcome::Eof | ReadOutcome::Err(_) => { self.h1p.on_eof(w.now); return self.finish(w); }
                }
                if progressed { Step::Progress } else { Step::Idle(self.give_up_at) }
            }
            _ => Step::Done,
        }
    }
}

// ------------------------------------------------------------------------------------- the run

pub struct HsOutcome {
    pub cmds: Vec<CmdObs>,
    pub clients: Vec<ClientObs>,
    pub conf_failures: Vec<String>,
    pub panicked: Option<String>,
    pub aborted: Option<String>,
    pub boot_error: Option<String>,
    pub garbage: Option<String>,
    pub eof_before_stop: bool,
    pub trace_hash: u64,
    pub stats: crate::world::Stats,
    pub t_end: u64,
    pub log: Vec<String>,
    /// requests seen by the tenants' backends: `x-sim-id` -> (tenant whose backend received it, Host header as received)
    pub delivered: BTreeMap<u64, Vec<(String, String)>>,
}

/// every hostname that has (or may get) a frontend in this plan is a tenant of its own
pub fn tenants(p: &HsPlan) -> Vec<String> {
    let mut t: BTreeSet<String> = BTreeSet::new();
    for l in &p.listeners { for f in &l.fronts { t.insert(f.clone()); } }
    for c in &p.cmds { if let HsOp::AddFront(h) | HsOp::RemoveFront(h) = &c.op { t.insert(h.clone()); } }
    t.into_iter().collect()
}
pub fn cluster_of(host: &str) -> String { format!("t_{host}") }
fn backend_addr(k: usize) -> SocketAddr { format!("10.1.{}.{}:8080", k / 200, 10 + k % 200).parse().unwrap() }

pub fn to_request(addr: SocketAddr, op: &HsOp, fx: &[Fx]) -> Request {
    match op {
        HsOp::Cert(Op::Add(a)) => RequestType::AddCertificate(AddCertificate { address: addr.into(), certificate: build_ck(a, fx), expired_at: a.expired_at }).into(),
        HsOp::Cert(Op::Remove(r)) => RequestType::RemoveCertificate(RemoveCertificate { address: addr.into(), fingerprint: resolve_ref(r, fx).0 }).into(),
        HsOp::Cert(Op::Replace { old, new }) => RequestType::ReplaceCertificate(ReplaceCertificate { address: addr.into(), new_certificate: build_ck(new, fx), old_fingerprint: resolve_ref(old, fx).0, new_expired_at: new.expired_at }).into(),
        HsOp::AddFront(h) => RequestType::AddHttpsFrontend(RequestHttpFrontend { cluster_id: Some(cluster_of(h)), address: addr.into(), hostname: h.clone(), path: PathRule::prefix("/".to_string()), position: RulePosition::Tree.into(), ..Default::default() }).into(),
        HsOp::PatchAlpn => RequestType::UpdateHttpsListener(sozu_command_lib::proto::command::UpdateHttpsListenerConfig { address: addr.into(), alpn_protocols: Some(sozu_command_lib::proto::command::AlpnProtocols { values: vec!["h2".into(), "http/1.1".into()] }), ..Default::default() }).into(),
        HsOp::RemoveFront(h) => RequestType::RemoveHttpsFrontend(RequestHttpFrontend { cluster_id: Some(cluster_of(h)), address: addr.into(), hostname: h.clone(), path: PathRule::prefix("/".to_string()), position: RulePosition::Tree.into(), ..Default::default() }).into(),
    }
}

pub fn run(plan: &HsPlan, fx: &'static [Fx], log: bool) -> HsOutcome {
    let p = plan.clone();
    netsim::on_fresh_thread(move || {
        let mut w = World::new(p.world_seed, p.sched.clone());
        World::install(&mut w);
        w.log_on = log;
        let addrs: Vec<SocketAddr> = p.listeners.iter().map(|l| l.addr.parse().expect("listener address")).collect();
        let knobs = Knobs::default();
        let mut conf: Vec<Request> = Vec::new();
        let tenants = tenants(&p);
        for (k, t) in tenants.iter().enumerate() {
            conf.push(RequestType::AddCluster(Cluster { cluster_id: cluster_of(t), ..Default::default() }).into());
            conf.push(RequestType::AddBackend(AddBackend { cluster_id: cluster_of(t), backend_id: format!("{}-0", cluster_of(t)), address: backend_addr(k).into(), load_balancing_parameters: Some(LoadBalancingParams::default()), sticky_id: None, backup: None }).into());
        }
        for (l, a) in p.listeners.iter().zip(addrs.iter()) {
            let mut lb = ListenerBuilder::new_https((*a).into());
            lb.with_front_timeout(Some(knobs.front_timeout)).with_back_timeout(Some(knobs.back_timeout)).with_connect_timeout(Some(knobs.connect_timeout)).with_request_timeout(Some(knobs.request_timeout));
            let mut cfg = lb.to_tls(None).expect("https listener config");
            cfg.strict_sni_binding = l.strict;
            conf.push(RequestType::AddHttpsListener(cfg).into());
            for c in &l.initial { conf.push(to_request(*a, &HsOp::Cert(Op::Add(c.clone())), fx)); }
            for f in &l.fronts { conf.push(to_request(*a, &HsOp::AddFront(f.clone()), fx)); }
            conf.push(RequestType::ActivateListener(ActivateListener { address: (*a).into(), proxy: ListenerType::Https.into(), from_scm: false }).into());
        }
        let cmds: Vec<(CmdPlan, Request)> = p.cmds.iter().map(|c| (c.clone(), to_request(addrs[c.listener.min(addrs.len() - 1)], &c.op, fx))).collect();
        let mut my_master = 0usize;
        let mut client_ids: Vec<usize> = Vec::new();
        let mut backend_ids: Vec<usize> = Vec::new();
        let (end, _mid) = netsim::run_worker(&mut w, knobs.server_config(), ConfigState::new(), Listeners::default(), |w, m: &mut Master| {
            // the command channel is driven by this tier's own master actor (per-response stamps,
            // per-command fragmentation, gates): take the descriptor over from the stock one
            let fd = m.fd;
            m.fd = -1;
            m.closed = true;
            my_master = w.add_actor(Box::new(HsMaster::new(fd, conf, cmds, p.clients.len())));
            // one HTTP/1.1 backend per tenant; its answers name the tenant and echo the request id
            for (k, t) in tenants.iter().enumerate() {
                let default = RespSpec { headers: vec![("x-tenant".to_string(), t.clone())], ..RespSpec::ok(BodySpec::None) };
                let bp = BackendPlan { name: format!("backend-{t}"), addr: backend_addr(k), pace: Pace::greedy(), responses: BTreeMap::new(), default, close_on_accept: vec![], listen_from_ns: 0, listen_until_ns: 0 };
                w.topo.insert(backend_addr(k), ConnectMode::Listen { delay_ns: 0 });
                backend_ids.push(w.add_actor(Box::new(H1Backend::new(bp, Prng::derive(p.world_seed, &format!("c17/backend/{k}"))))));
            }
            for (i, c) in p.clients.iter().enumerate() {
                let dst = addrs[c.listener.min(addrs.len() - 1)];
                client_ids.push(w.add_actor(Box::new(HsClient::new(i, c.clone(), dst))));
            }
        });
        let m: &HsMaster = w.actor_ref(my_master);
        let mut o = HsOutcome {
            cmds: m.obs.clone(),
            clients: Vec::new(),
            conf_failures: m.conf_failures.clone(),
            panicked: end.panicked,
            aborted: end.aborted,
            boot_error: end.boot_error,
            garbage: m.garbage.clone(),
            eof_before_stop: m.eof && !m.stop_sent,
            trace_hash: w.trace.0,
            stats: w.stats.clone(),
            t_end: w.now,
            log: Vec::new(),
            delivered: BTreeMap::new(),
        };
        for (k, id) in backend_ids.iter().enumerate() {
            let b: &H1Backend = w.actor_ref(*id);
            for rec in b.all_records() { for m in rec.requests.iter().chain(rec.partial.iter()) { if let Some(sid) = m.sim_id { o.delivered.entry(sid).or_default().push((tenants[k].clone(), m.header("host").unwrap_or("").to_string())); } } }
        }
        for id in &client_ids { let c: &HsClient = w.actor_ref(*id); o.clients.push(c.obs.clone()); }
        o.log = std::mem::take(&mut w.log);
        o
    })
}
