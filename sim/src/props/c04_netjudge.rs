//! C04, traffic tier: the history-based oracle.
//!
//! The reference model is the flat-list model of the model tier (`super::Model`), one instance per
//! listener, advanced command by command in the order the master sent them (one FIFO channel). A
//! command takes effect atomically at one instant between the moment the master queued it (`sent`)
//! and the moment the master read its answer (`ack`). A request is routed at one instant between its
//! first byte leaving the client and its response head arriving. Hence for a request with window
//! [start, head] the configuration it was routed under is "the first j commands", for some j with
//! jmin <= j <= jmax, jmin = number of commands acknowledged strictly before `start`, jmax = number
//! of commands sent at or before `head`. The observed outcome must be acceptable for one such j.
#![allow(dead_code)]
use std::collections::{BTreeMap, BTreeSet};

use super::net::*;
use super::{full_match, host_class, host_matches, hc_name, ident, path_matches, pk_name, pos_name, show_front, wrong_key_specific, Front, HostClass, Model, Obs, Out, Probe, RouteSpec, Sig, EQUALS, TREE};
use crate::framework::Violation;

pub struct Verdict {
    pub violations: Vec<Violation>,
    pub probes: BTreeMap<String, u64>,
    pub nontrivial: bool,
    pub harness_error: Option<String>,
    pub log: Vec<String>,
}

/// what a request served by this frontend looks like at the client
fn sig_match(seen: &Seen, nf: &NFront, tagged: bool) -> bool {
    match (&nf.f.route, seen) {
        (RouteSpec::Cluster, Seen::Forward { cluster, front }) => *cluster == Some(nf.cluster) && (!tagged || *front == Some(nf.f.uid)),
        (RouteSpec::Deny, Seen::Deny { realm }) => realm.is_none(),
        (RouteSpec::PolicyDeny { .. }, Seen::Deny { realm }) => *realm == Some(nf.cluster),
        (RouteSpec::Redirect { policy, .. }, Seen::Redirect { status, port, .. }) => *status == match policy { 1 => 301, 3 => 302, _ => 308 } && *port == Some(redirect_port(nf.f.uid)),
        _ => false,
    }
}

fn show_seen(s: &Seen) -> String {
    match s {
        Seen::Forward { cluster, front } => format!("200 from cluster {}{}", cluster.map(|c| format!("c{c}")).unwrap_or("?".into()), front.map(|f| format!(" via frontend #{f}")).unwrap_or_default()),
        Seen::Deny { realm } => format!("401{}", realm.map(|c| format!(" (realm of c{c})")).unwrap_or_default()),
        Seen::Redirect { status, location, .. } => format!("{status} Location: {location}"),
        Seen::NotFound => "404".into(),
        Seen::Other(s) => format!("status {s}"),
        Seen::Nothing(w) => format!("no answer ({w})"),
    }
}

/// the part of an observation that identifies the routing decision
fn decision(s: &Seen) -> String {
    match s {
        Seen::Forward { cluster, front } => format!("F{cluster:?}{front:?}"),
        Seen::Deny { realm } => format!("D{realm:?}"),
        Seen::Redirect { status, port, .. } => format!("R{status}:{port:?}"),
        Seen::NotFound => "N".into(),
        Seen::Other(s) => format!("O{s}"),
        Seen::Nothing(_) => "-".into(),
    }
}

struct State {
    /// per listener
    models: Vec<Model>,
}

struct Hist<'a> {
    plan: &'a NetPlan,
    /// states[j] = configuration after the first j commands (model view)
    states: Vec<State>,
    /// did command i change the model
    changed: Vec<bool>,
    /// tree host entry created / deleted by command i
    entry_changed: Vec<bool>,
    fronts: BTreeMap<u32, (usize, NFront)>,
}

impl<'a> Hist<'a> {
    fn nf(&self, uid: u32) -> Option<&NFront> { self.fronts.get(&uid).map(|x| &x.1) }

    /// acceptable outcomes of a request under configuration j: the frontends (and "no route")
    fn accept(&self, j: usize, li: usize, p: &WireProbe) -> BTreeSet<Out> {
        let mut set = BTreeSet::new();
        for h in readings(&p.host) { set.extend(self.states[j].models[li].accept(&probe_of(p, &h)).set); }
        set
    }
    fn acceptable(&self, j: usize, li: usize, p: &WireProbe, seen: &Seen) -> bool {
        self.accept(j, li, p).iter().any(|o| match o {
            None => *seen == Seen::NotFound,
            Some(u) => self.nf(*u).map_or(false, |nf| sig_match(seen, nf, self.plan.tagged)),
        })
    }
}

/// plan-level triggers of the recorded model-tier findings (same wording as the model tier)
fn ntkey(h: &Hist, li: usize, upto: usize, specific: String) -> String {
    let m = &h.states[upto].models[li];
    let tree: Vec<&Front> = m.ever.values().chain(m.refused.values()).filter(|f| f.pos == TREE).collect();
    let r4 = tree.iter().any(|a| host_class(&a.host) == HostClass::Regex && tree.iter().any(|b| b.host != a.host && tree_domain(&b.host) == tree_domain(&a.host)));
    if r4 { return "regex_host_in_tree".into(); }
    if m.ever.values().any(|f| f.pos == TREE && f.pk == EQUALS && m.rule(f.uid).is_none()) { return "after_removal_of_tree_EQUALS_frontend".into(); }
    specific
}
fn nfeature(h: &Hist, li: usize, upto: usize, f: &Front) -> String {
    if f.pk == EQUALS { "EQUALS".into() } else { ntkey(h, li, upto, format!("{}:{}", pos_name(f.pos), pk_name(f.pk))) }
}

fn lname(p: &NetPlan, li: usize) -> &'static str { if p.listeners[li] == HTTPS { "https" } else { "http" } }

pub fn judge(plan: &NetPlan, o: &NetOutcome, verbose: bool) -> Verdict {
    let mut v: Vec<Violation> = Vec::new();
    let mut probes: BTreeMap<String, u64> = BTreeMap::new();
    let mut log: Vec<String> = Vec::new();
    macro_rules! count { ($k:expr, $n:expr) => { { let n: u64 = $n; if n > 0 { *probes.entry(($k).to_string()).or_insert(0) += n; } } }; }
    fn viol(v: &mut Vec<Violation>, class: &str, key: String, detail: String) { if !v.iter().any(|x| x.class == class && x.key == key) { v.push(Violation::new(class, key, detail)); } }
    let mut harness_error = None;
    if let Some(e) = &o.boot_error { harness_error = Some(format!("worker boot failed: {e}")); }
    if !o.config_failures.is_empty() { harness_error = Some(format!("configuration refused: {}", o.config_failures.join("; "))); }
    if let Some(pn) = &o.panicked { viol(&mut v, "panic", "worker".into(), pn.clone()); }
    if let Some(a) = &o.aborted { viol(&mut v, "no_exit", a.clone(), format!("run aborted: {a}")); }
    let nl = plan.listeners.len();
    let n = plan.cmds.len();

    // ---- the model's history, and the worker's answer to every command
    let mut h = Hist { plan, states: vec![State { models: vec![Model::default(); nl] }], changed: Vec::new(), entry_changed: Vec::new(), fronts: BTreeMap::new() };
    let mut first_bad: Option<usize> = None;
    for (i, c) in plan.cmds.iter().enumerate() {
        let mut models = h.states[i].models.clone();
        let f = &c.front.f;
        let groups_before: BTreeSet<String> = models[c.listener].rules.iter().filter(|r| r.pos == TREE).map(|r| r.host.clone()).collect();
        let changed = if c.add { models[c.listener].add(f) } else { models[c.listener].remove(f) };
        let groups_after: BTreeSet<String> = models[c.listener].rules.iter().filter(|r| r.pos == TREE).map(|r| r.host.clone()).collect();
        if c.add { h.fronts.entry(f.uid).or_insert((c.listener, c.front.clone())); }
        h.changed.push(changed);
        h.entry_changed.push(f.pos == TREE && groups_before.contains(&f.host) != groups_after.contains(&f.host));
        h.states.push(State { models });
        let ob = o.cmds.get(i).cloned().unwrap_or_default();
        let what = format!("{} [{}] on the {} listener L{}", if c.add { "add" } else { "remove" }, show_front(f), lname(plan, c.listener), c.listener);
        if verbose { log.push(format!("  K{} sent={:?} ack={:?} ok={:?} model_changed={} {} {}", c.id, ob.sent_t.map(|t| t - o.t0.min(t)), ob.ack_t.map(|t| t.saturating_sub(o.t0)), ob.ok, changed, what, ob.message)); }
        if o.aborted.is_some() || o.panicked.is_some() { continue; }
        let li = c.listener;
        let bad = match (c.add, changed, ob.ok) {
            (_, _, None) => { viol(&mut v, "command_unanswered", format!("{}|finals={}", if c.add { "add" } else { "remove" }, ob.finals.min(2)), format!("{what}: {} final answers", ob.finals)); true }
            (true, true, Some(true)) => { count!("cmd_add_ok", 1); count!(&format!("cmd_add_ok_{}_{}_{}", pos_name(f.pos), hc_name(&f.host), pk_name(f.pk)), 1); false }
            (true, true, Some(false)) => { viol(&mut v, "add_refused", nfeature(&h, li, i + 1, f), format!("{what}: a frontend that is not configured on this listener was refused ({}); configured there: [{}]", ob.message, super::history(&h.states[i].models[li]))); true }
            (true, false, Some(false)) => { count!("cmd_add_duplicate_refused", 1); false }
            (true, false, Some(true)) => { viol(&mut v, "add_duplicate_accepted", nfeature(&h, li, i + 1, f), format!("{what}: a second frontend with the position/hostname/path rule/method of a configured one was accepted; configured there: [{}]", super::history(&h.states[i].models[li]))); true }
            (false, true, Some(true)) => { count!("cmd_remove_ok", 1); count!(&format!("cmd_remove_ok_{}_{}_{}", pos_name(f.pos), hc_name(&f.host), pk_name(f.pk)), 1); false }
            (false, true, Some(false)) => { viol(&mut v, "remove_refused", nfeature(&h, li, i + 1, f), format!("{what}: removal of a configured frontend was refused ({}); configured there: [{}]", ob.message, super::history(&h.states[i].models[li]))); true }
            (false, false, Some(ok)) => { count!(if ok { "cmd_remove_unknown_answered_ok" } else { "cmd_remove_unknown_answered_error" }, 1); false }
        };
        if ob.ok.is_some() && ob.finals != 1 { viol(&mut v, "command_answer_count", format!("finals={}", ob.finals.min(2)), format!("{what}: {} final answers", ob.finals)); }
        if bad && first_bad.is_none() { first_bad = Some(i); }
        if !c.initial && ob.ok.is_some() { count!("cmd_during_traffic", 1); }
    }
    if o.aborted.is_some() || o.panicked.is_some() {
        return Verdict { violations: v, probes, nontrivial: false, harness_error, log };
    }
    for n in &o.h2_notes { if verbose { log.push(format!("  h2: {n}")); } count!("h2_notes", 1); }

    // ---- every request against the admissible configurations
    let sent = |i: usize| o.cmds.get(i).and_then(|c| c.sent_t).unwrap_or(u64::MAX);
    let ack = |i: usize| o.cmds.get(i).and_then(|c| c.ack_t).unwrap_or(u64::MAX);
    struct Judged { ri: usize, jmin: usize, jmax: usize }
    let mut judged: Vec<Judged> = Vec::new();
    let mut routed = 0u64;
    let mut reqs: Vec<usize> = (0..o.reqs.len()).collect();
    reqs.sort_by_key(|i| (o.reqs[*i].t_start, o.reqs[*i].id));
    // per (client, connection): frontends that served it so far
    let mut conn_served: BTreeMap<(usize, usize), BTreeSet<String>> = BTreeMap::new();
    for ri in reqs {
        let r = &o.reqs[ri];
        let p = &plan.probes[r.probe];
        let li = r.listener;
        let jmin = (0..n).filter(|i| ack(*i) < r.t_start).map(|i| i + 1).max().unwrap_or(0);
        let jmax = (0..n).filter(|i| sent(*i) <= r.t_head).map(|i| i + 1).max().unwrap_or(0).max(jmin);
        count!("requests", 1);
        count!(if r.h2 { "requests_h2" } else { "requests_h1" }, 1);
        if jmax > jmin { count!("requests_overlapping_a_command", 1); }
        if r.conn > 1 { count!("requests_on_a_reconnected_h1_connection", 1); }
        if r.attempts > 1 { count!("requests_resent_after_idle_close", 1); }
        count!(&format!("host_spelling_{}", spelling(&p.host)), 1);
        let what = format!("{} request #{} {} {}{} on the {} listener L{} (client {}, connection {}), window [{}us,{}us] after the start of the traffic, admissible configurations {}..={}", if r.h2 { "HTTP/2" } else { "HTTP/1.1" }, r.id, p.method, p.host, p.path, lname(plan, li), li, plan.clients[r.client].name, r.conn, r.t_start.saturating_sub(o.t0) / US, r.t_head.saturating_sub(o.t0) / US, jmin, jmax);
        if verbose {
            let acc: Vec<String> = (jmin..=jmax).map(|j| format!("{}:{{{}}}", j, h.accept(j, li, p).iter().map(|o| match o { None => "404".to_string(), Some(u) => format!("#{u}") }).collect::<Vec<_>>().join(","))).collect();
            log.push(format!("  {what}: {} ; acceptable {}", show_seen(&r.seen), acc.join(" ")));
        }
        if let Some(b) = first_bad { if jmax > b { count!("requests_not_judged_after_command_divergence", 1); continue; } }
        match &r.seen {
            Seen::Nothing(why) => { count!("requests_unanswered", 1); count!(format!("requests_unanswered_{}", if r.h2 { "h2" } else { "h1" }), 1); if verbose { log.push(format!("    unanswered: {why}")); } continue; }
            Seen::Forward { .. } | Seen::Deny { .. } | Seen::Redirect { .. } => { routed += 1; count!("requests_served_by_a_frontend", 1); }
            Seen::NotFound => count!("requests_404", 1),
            Seen::Other(_) => {}
        }
        match &r.seen { Seen::Forward { .. } => count!("seen_forward", 1), Seen::Deny { .. } => count!("seen_401", 1), Seen::Redirect { .. } => count!("seen_3xx", 1), _ => {} }
        let conn_key = (r.client, r.conn);
        let dec = decision(&r.seen);
        let before_on_conn = conn_served.get(&conn_key).map_or(false, |s| s.contains(&dec));
        let any_on_conn = conn_served.contains_key(&conn_key);
        conn_served.entry(conn_key).or_default().insert(dec);
        if r.seen == Seen::NotFound && spelling(&p.host) != "plain" && spelling(&p.host) != "port" {
            let norm = strip_port(&p.host).trim_end_matches('.').to_ascii_lowercase();
            if (jmin..=jmax).all(|j| !h.states[j].models[li].accept(&probe_of(p, &norm)).set.contains(&None)) { count!(format!("observed_404_for_{}_spelling_of_a_routed_host", spelling(&p.host)), 1); }
        }
        if (jmin..=jmax).any(|j| h.acceptable(j, li, p, &r.seen)) {
            if (jmin..=jmax).any(|j| h.accept(j, li, p).len() > 1) { count!("acceptable_set_not_singleton", 1); }
            judged.push(Judged { ri, jmin, jmax });
            continue;
        }
        let acc_txt = (jmin..=jmax).map(|j| format!("after {j} commands: [{}]", h.accept(j, li, p).iter().map(|o| match o { None => "no route (404)".to_string(), Some(u) => h.nf(*u).map(|nf| show_front(&nf.f)).unwrap_or_default() }).collect::<Vec<_>>().join(" | "))).collect::<Vec<_>>().join("; ");
        if let Seen::Other(s) = &r.seen {
            viol(&mut v, "unexpected_answer", format!("status={s}|{}", if r.h2 { "h2" } else { "h1" }), format!("{what}: {}; acceptable: {acc_txt}", show_seen(&r.seen)));
            continue;
        }
        // a frontend of this listener that is not configured in any admissible configuration
        let active = |u: u32, l: usize| (jmin..=jmax).any(|j| h.states[j].models[l].rule(u).is_some());
        let ghost = h.fronts.values().find(|(l, nf)| *l == li && !active(nf.f.uid, li) && h.states[jmin].models[li].ever.contains_key(&nf.f.uid) && sig_match(&r.seen, nf, plan.tagged) && any_full_match(&nf.f, p));
        if let Some((_, nf)) = ghost {
            let conn_kind = if r.h2 { if before_on_conn { "h2_connection_it_served_before" } else { "h2_connection" } } else if before_on_conn { "keepalive_connection_it_served_before" } else if any_on_conn { "keepalive_connection" } else { "new_connection" };
            viol(&mut v, "removed_frontend_still_routes", format!("{}|{}", nfeature(&h, li, jmax, &nf.f), conn_kind), format!("{what}: {} - that is frontend [{}], whose removal was acknowledged before the request was sent; acceptable: {acc_txt}", show_seen(&r.seen), show_front(&nf.f)));
            continue;
        }
        // a frontend of another listener
        let foreign = h.fronts.values().find(|(l, nf)| *l != li && sig_match(&r.seen, nf, plan.tagged) && any_full_match(&nf.f, p) && !h.states[jmax].models[li].ever.contains_key(&nf.f.uid));
        if let Some((l, nf)) = foreign {
            viol(&mut v, "listener_isolation", format!("{}_frontend_serves_{}_listener|{}", lname(plan, *l), lname(plan, li), pos_name(nf.f.pos)), format!("{what}: {} - that is frontend [{}], configured on listener L{} only; acceptable: {acc_txt}", show_seen(&r.seen), show_front(&nf.f), l));
            continue;
        }
        // wrong route: name the broken relation with the model tier's wording
        let m = &h.states[jmin].models[li];
        let mut best: Option<String> = None;
        for hr in readings(&p.host) {
            let pr: Probe = probe_of(p, &hr);
            let a = m.accept(&pr).set;
            let got_uid = m.rules.iter().filter(|f| h.nf(f.uid).map_or(false, |nf| sig_match(&r.seen, nf, plan.tagged))).max_by_key(|f| (full_match(f, &pr), host_matches(&f.host, &pr.host), path_matches(f, &pr.path))).map(|f| f.uid);
            let obs = match (&r.seen, got_uid) {
                (Seen::NotFound, _) => Obs::NotFound,
                (_, Some(u)) => Obs::Route { uid: Some(u), sig: Sig { cluster: None, redirect: 0, scheme: 0, template: None, auth: false, port: None } },
                (_, None) => Obs::Route { uid: Some(u32::MAX), sig: Sig { cluster: None, redirect: 0, scheme: 0, template: None, auth: false, port: None } },
            };
            let k = wrong_key_specific(m, &obs, &a, &pr);
            if best.is_none() || k.starts_with("want=") { best = Some(k); }
        }
        let mut specific = best.unwrap_or_default();
        if r.seen == Seen::NotFound {
            // no frontend answered although one must: name the frontend kind that was skipped
            if let Some(f) = h.accept(jmin, li, p).iter().flatten().filter_map(|u| h.nf(*u)).next() { specific = format!("got=no_route want={}:{}", pos_name(f.f.pos), super::short(&f.f)); }
        }
        let sp = spelling(&p.host);
        let key = ntkey(&h, li, jmax, if sp == "plain" { specific } else { format!("host_spelling={sp}|{specific}") });
        viol(&mut v, "wrong_route", key, format!("{what}: {}; acceptable: {acc_txt}; configured on L{} after {jmin} commands (insertion order): [{}]", show_seen(&r.seen), li, super::history(m)));
    }

    // ---- an unrelated add/remove never changes a request's route
    let mut by_probe: BTreeMap<(usize, usize), Vec<&Judged>> = BTreeMap::new();
    for j in &judged { let r = &o.reqs[j.ri]; by_probe.entry((r.listener, r.probe)).or_default().push(j); }
    for ((li, pi), list) in &by_probe {
        let p = &plan.probes[*pi];
        for w in list.windows(2) {
            let (a, b) = (w[0], w[1]);
            if a.jmax > b.jmin { continue; }
            count!("same_probe_pairs_compared", 1);
            let (ra, rb) = (&o.reqs[a.ri], &o.reqs[b.ri]);
            if decision(&ra.seen) == decision(&rb.seen) { continue; }
            // commands that may have taken effect between the two routing instants
            let between: Vec<usize> = (a.jmin..b.jmax).collect();
            let mut related = false;
            let mut cross = false;
            let mut why = "no_command_between".to_string();
            for i in &between {
                let c = &plan.cmds[*i];
                let f = &c.front.f;
                let would = any_full_match(f, p) || (any_host_match(f, p) && h.entry_changed[*i]);
                if c.listener != *li { if would && h.changed[*i] { cross = true; } continue; }
                if !h.changed[*i] { why = format!("{}:nothing_configured_changed", if c.add { "add" } else { "remove" }); continue; }
                if would { related = true; break; }
                why = format!("{}:{}", if c.add { "add" } else { "remove" }, if !any_host_match(f, p) { "host_does_not_match" } else if !path_matches(f, &p.path) { "path_does_not_match" } else { "method_does_not_match" });
            }
            if related { continue; }
            let what = format!("{} {}{} on listener L{}: request #{} -> {}, later request #{} -> {}; commands in between: [{}]", p.method, p.host, p.path, li, ra.id, show_seen(&ra.seen), rb.id, show_seen(&rb.seen), between.iter().map(|i| show_cmd(&plan.cmds[*i])).collect::<Vec<_>>().join(" "));
            if cross {
                viol(&mut v, "listener_isolation", "command_for_another_listener_changed_route".into(), format!("{what} - only a command addressed to another listener matches this request"));
            } else {
                viol(&mut v, "unrelated_change", ntkey(&h, *li, b.jmax, why), format!("{what} - none of them matches this request"));
            }
        }
    }
    let nontrivial = routed > 0 && o.cmds.iter().zip(plan.cmds.iter()).any(|(ob, c)| !c.initial && ob.ok == Some(true));
    Verdict { violations: v, probes, nontrivial, harness_error, log }
}

// ----------------------------------------------------------------------------------------- shrink

pub fn shrink(p: &NetPlan) -> Vec<NetPlan> {
    let mut out: Vec<NetPlan> = Vec::new();
    // fewer clients
    if p.clients.len() > 1 { for i in 0..p.clients.len() { let mut q = p.clone(); q.clients.remove(i); out.push(q); } }
    // fewer commands (never one whose removal would create an R1 shape: only drops)
    let n = p.cmds.len();
    if n > 1 { let mut q = p.clone(); q.cmds.truncate(n / 2); out.push(q); }
    for i in (0..n).rev() { let mut q = p.clone(); q.cmds.remove(i); out.push(q); }
    // fewer requests
    for (ci, c) in p.clients.iter().enumerate() {
        if c.reqs.len() > 2 { let mut q = p.clone(); let h = c.reqs.len() / 2; q.clients[ci].reqs.truncate(h); out.push(q); let mut q = p.clone(); q.clients[ci].reqs.drain(..h); out.push(q); }
        if c.reqs.len() > 1 { for ri in 0..c.reqs.len() { let mut q = p.clone(); q.clients[ci].reqs.remove(ri); out.push(q); } }
    }
    // simpler scheduling / fragmentation
    if p.master_wq != crate::actors::Quantum::All { let mut q = p.clone(); q.master_wq = crate::actors::Quantum::All; out.push(q); }
    for (ci, c) in p.clients.iter().enumerate() { if !c.h2 && c.wq != crate::actors::Quantum::All { let mut q = p.clone(); q.clients[ci].wq = crate::actors::Quantum::All; out.push(q); } }
    let d = crate::world::SchedCfg::default();
    if p.sched.ev_permute_pm != 0 || p.sched.ev_truncate_pm != 0 || p.sched.preempt_pm != 0 || p.sched.actor_burst != d.actor_burst { let mut q = p.clone(); q.sched = d; out.push(q); }
    // commands before the traffic instead of during it; no gates, no barriers
    for i in 0..n { if !p.cmds[i].initial && p.cmds[..i].iter().all(|c| c.initial) { let mut q = p.clone(); q.cmds[i].initial = true; q.cmds[i].at_ns = 0; q.cmds[i].barrier = false; out.push(q); } }
    for (ci, c) in p.clients.iter().enumerate() { for (ri, r) in c.reqs.iter().enumerate() { if r.gate.is_some() { let mut q = p.clone(); q.clients[ci].reqs[ri].gate = None; out.push(q); } } }
    // simpler arguments
    if p.tagged { let mut q = p.clone(); q.tagged = false; out.push(q); }
    if p.ka_answers { let mut q = p.clone(); q.ka_answers = false; out.push(q); }
    for i in 0..n {
        let f = &p.cmds[i].front.f;
        if p.cmds[i].tags { let mut q = p.clone(); q.cmds[i].tags = false; out.push(q); }
        if f.route != RouteSpec::Cluster && p.cmds[i].add { let mut q = p.clone(); q.cmds[i].front.f.route = RouteSpec::Cluster; out.push(q); }
        if f.method.is_some() { let id = ident(f); let li = p.cmds[i].listener; let mut q = p.clone(); for c in q.cmds.iter_mut() { if c.listener == li && ident(&c.front.f) == id { c.front.f.method = None; } } out.push(q); }
    }
    // probes nobody sends
    {
        let used: BTreeSet<usize> = p.clients.iter().flat_map(|c| c.reqs.iter().map(|r| r.probe)).collect();
        if used.len() < p.probes.len() {
            let keep: Vec<usize> = used.into_iter().collect();
            let mut q = p.clone();
            q.probes = keep.iter().map(|i| p.probes[*i].clone()).collect();
            for c in q.clients.iter_mut() { for r in c.reqs.iter_mut() { r.probe = keep.iter().position(|k| *k == r.probe).unwrap_or(0); } }
            out.push(q);
        }
    }
    // plain host spelling
    for (pi, pr) in p.probes.iter().enumerate() { if spelling(&pr.host) != "plain" { let mut q = p.clone(); q.probes[pi].host = strip_port(&pr.host).trim_end_matches('.').to_ascii_lowercase(); out.push(q); } }
    out
}
