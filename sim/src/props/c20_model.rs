//! C20 reference model: an independent reading of a sozu TOML configuration file.
//!
//! Written from doc/configure.md, doc/health_checks.md, bin/config.toml and the *documentation
//! comments* of command/src/config.rs — it never calls the loader. It answers two questions about a
//! parsed `toml::Table`:
//!   * must the loader reject this file (a documented constraint is violated)?  -> `Rej::Reject(reason)`
//!   * if not, which listeners / clusters / frontends / backends / certificates does it declare, with
//!     the documented defaults applied?  -> `Model`
//! Where the documentation is silent the attribute value is "*" (any answer acceptable), and inputs
//! outside the modelled grammar yield `Rej::Unmodelled` (a harness error, never a verdict).
use std::collections::{BTreeMap, BTreeSet};
use std::net::SocketAddr;

use toml::{Table, Value as T};

pub type Attrs = BTreeMap<String, String>;

#[derive(Debug, Clone)]
pub struct DeclBackend {
    pub cluster: String,
    pub addr: String,
    pub id: Option<String>,
    pub attrs: Attrs,
}

#[derive(Debug, Default, Clone)]
pub struct Model {
    /// object key -> acceptable attribute maps (more than one when the file declares the same
    /// object twice: either declaration is an acceptable reading)
    pub facts: BTreeMap<String, Vec<Attrs>>,
    pub backends: Vec<DeclBackend>,
    /// route keys declared more than once
    pub dup_routes: BTreeSet<String>,
    /// tcp/udp frontend keys declared more than once within a cluster
    pub dup_l4: BTreeSet<String>,
    /// documented-valid but noteworthy features present in the file (used to key violations)
    pub features: BTreeSet<String>,
    pub n_listeners: usize,
    pub n_implicit: usize,
    pub n_clusters: usize,
    pub n_frontends: usize,
    pub n_backends: usize,
    pub n_certs: usize,
}

#[derive(Debug, Clone)]
pub enum Rej {
    /// a documented constraint is violated: the loader must refuse the file
    Reject(String),
    /// outside the modelled grammar (harness problem)
    Unmodelled(String),
}

fn rej<X>(s: impl Into<String>) -> Result<X, Rej> { Err(Rej::Reject(s.into())) }
fn unm<X>(s: impl Into<String>) -> Result<X, Rej> { Err(Rej::Unmodelled(s.into())) }

/// content fingerprint used on both sides of the comparison (never sozu's own fingerprint)
pub fn h(bytes: &[u8]) -> String {
    let mut x = 0xcbf29ce484222325u64;
    for b in bytes { x ^= *b as u64; x = x.wrapping_mul(0x100000001b3); }
    format!("{:016x}/{}", x, bytes.len())
}

const U32: u64 = u32::MAX as u64;

fn opt_str<'a>(t: &'a Table, k: &str) -> Result<Option<&'a str>, Rej> {
    match t.get(k) { None => Ok(None), Some(T::String(s)) => Ok(Some(s.as_str())), Some(_) => rej(format!("type_error:{k}")) }
}
fn opt_bool(t: &Table, k: &str) -> Result<Option<bool>, Rej> {
    match t.get(k) { None => Ok(None), Some(T::Boolean(b)) => Ok(Some(*b)), Some(_) => rej(format!("type_error:{k}")) }
}
fn opt_int(t: &Table, k: &str, max: u64) -> Result<Option<u64>, Rej> {
    match t.get(k) {
        None => Ok(None),
        Some(T::Integer(i)) => if *i < 0 || (*i as u64) > max { rej(format!("int_out_of_range:{k}")) } else { Ok(Some(*i as u64)) },
        Some(_) => rej(format!("type_error:{k}")),
    }
}
fn opt_table<'a>(t: &'a Table, k: &str) -> Result<Option<&'a Table>, Rej> {
    match t.get(k) { None => Ok(None), Some(T::Table(x)) => Ok(Some(x)), Some(_) => rej(format!("type_error:{k}")) }
}
fn opt_array<'a>(t: &'a Table, k: &str) -> Result<Option<&'a Vec<T>>, Rej> {
    match t.get(k) { None => Ok(None), Some(T::Array(x)) => Ok(Some(x)), Some(_) => rej(format!("type_error:{k}")) }
}
fn opt_strs(t: &Table, k: &str) -> Result<Option<Vec<String>>, Rej> {
    match opt_array(t, k)? {
        None => Ok(None),
        Some(a) => {
            let mut v = Vec::new();
            for x in a { match x { T::String(s) => v.push(s.clone()), _ => return rej(format!("type_error:{k}")) } }
            Ok(Some(v))
        }
    }
}
fn str_map(t: &Table, k: &str) -> Result<Option<BTreeMap<String, String>>, Rej> {
    match opt_table(t, k)? {
        None => Ok(None),
        Some(tb) => {
            let mut m = BTreeMap::new();
            for (kk, v) in tb { match v { T::String(s) => { m.insert(kk.clone(), s.clone()); } _ => return rej(format!("type_error:{k}")) } }
            Ok(Some(m))
        }
    }
}
fn known(t: &Table, keys: &[&str], what: &str) -> Result<(), Rej> {
    for k in t.keys() { if !keys.contains(&k.as_str()) { return rej(format!("unknown_field:{what}")); } }
    Ok(())
}
fn sockaddr(s: &str, what: &str) -> Result<String, Rej> {
    match s.parse::<SocketAddr>() { Ok(a) => Ok(a.to_string()), Err(_) => rej(format!("bad_address:{what}")) }
}
fn file(path: &str) -> Result<String, Rej> {
    std::fs::read_to_string(path).map_err(|e| Rej::Unmodelled(format!("fixture {path}: {e}")))
}
fn ob(v: Option<bool>) -> String { match v { None => "default".into(), Some(b) => b.to_string() } }
fn oi(v: Option<u64>) -> String { match v { None => "none".into(), Some(b) => b.to_string() } }
fn os(v: Option<&str>) -> String { match v { None => "none".into(), Some(b) => format!("s:{b}") } }
pub fn kv(m: &BTreeMap<String, String>) -> String {
    m.iter().map(|(k, v)| format!("{k}={v}")).collect::<Vec<_>>().join(",")
}

/// certificates of a PEM bundle, each trimmed (documented: "certificate_chain should contain
/// intermediate CA certificates", one PEM block each)
pub fn chain_blocks(text: &str) -> Vec<String> {
    let end = "-----END CERTIFICATE-----";
    let mut out = Vec::new();
    let mut rest = text;
    while let Some(i) = rest.find(end) {
        out.push(rest[..i + end.len()].trim().to_string());
        rest = &rest[i + end.len()..];
    }
    out
}
pub fn chain_h(blocks: &[String]) -> String {
    format!("{}:{}", blocks.len(), blocks.iter().map(|b| h(b.as_bytes())).collect::<Vec<_>>().join("+"))
}

pub const H2_KNOBS_U32: [&str; 15] = [
    "h2_max_rst_stream_per_window", "h2_max_ping_per_window", "h2_max_settings_per_window", "h2_max_empty_data_per_window",
    "h2_max_window_update_stream0_per_window", "h2_max_continuation_frames", "h2_max_glitch_count", "h2_initial_connection_window",
    "h2_max_concurrent_streams", "h2_stream_shrink_ratio", "h2_max_header_list_size", "h2_max_header_table_size",
    "h2_max_header_fields", "h2_stream_idle_timeout_seconds", "h2_graceful_shutdown_deadline_seconds",
];
pub const H2_KNOBS_U64: [&str; 3] = ["h2_max_rst_stream_lifetime", "h2_max_rst_stream_abusive_lifetime", "h2_max_rst_stream_emitted_lifetime"];
pub const LEGACY_ANSWERS: [&str; 12] = ["301", "400", "401", "404", "408", "413", "421", "502", "503", "504", "507", "429"];

const LISTENER_KEYS: [&str; 57] = [
    "address", "protocol", "public_address", "answer_301", "answer_400", "answer_401", "answer_404", "answer_408", "answer_413", "answer_421",
    "answer_502", "answer_503", "answer_504", "answer_507", "answer_429", "tls_versions", "cipher_list", "groups_list", "expect_proxy",
    "sticky_name", "certificate", "certificate_chain", "key", "front_timeout", "back_timeout", "connect_timeout", "request_timeout",
    "send_tls13_tickets", "alpn_protocols", "h2_max_rst_stream_per_window", "h2_max_ping_per_window", "h2_max_settings_per_window",
    "h2_max_empty_data_per_window", "h2_max_window_update_stream0_per_window", "sozu_id_header", "h2_max_continuation_frames",
    "h2_max_glitch_count", "h2_initial_connection_window", "h2_max_concurrent_streams", "h2_stream_shrink_ratio", "h2_max_rst_stream_lifetime",
    "h2_max_rst_stream_abusive_lifetime", "h2_max_rst_stream_emitted_lifetime", "h2_max_header_list_size", "h2_max_header_table_size",
    "h2_max_header_fields", "h2_stream_idle_timeout_seconds", "h2_graceful_shutdown_deadline_seconds", "strict_sni_binding", "disable_http11",
    "elide_x_real_ip", "send_x_real_ip", "answers", "hsts", "max_rx_datagram_size", "max_flows", "cipher_suites",
];
const FRONT_KEYS: [&str; 20] = [
    "address", "hostname", "path", "path_type", "method", "certificate", "key", "certificate_chain", "tls_versions", "position", "tags",
    "redirect", "redirect_scheme", "redirect_template", "rewrite_host", "rewrite_path", "rewrite_port", "required_auth", "headers", "hsts",
];
const BACKEND_KEYS: [&str; 5] = ["address", "weight", "sticky_id", "backup", "backend_id"];
const CLUSTER_KEYS: [&str; 18] = [
    "frontends", "backends", "protocol", "sticky_session", "https_redirect", "send_proxy", "load_balancing", "answer_503", "load_metric", "http2",
    "answers", "https_redirect_port", "authorized_hashes", "www_authenticate", "max_connections_per_ip", "retry_after", "health_check", "udp",
];
const HSTS_KEYS: [&str; 5] = ["enabled", "max_age", "include_subdomains", "preload", "force_replace_backend"];
const HC_KEYS: [&str; 6] = ["uri", "interval", "timeout", "healthy_threshold", "unhealthy_threshold", "expected_status"];
const UDP_KEYS: [&str; 6] = ["affinity_key", "responses", "requests", "send_proxy_protocol", "proxy_protocol_every_datagram", "health"];
const UDPH_KEYS: [&str; 8] = ["mode", "tcp_port", "rise", "fall", "fail_open", "udp_probe_payload", "probe_interval_seconds", "probe_timeout_seconds"];

fn tls_versions(v: &[String]) -> Result<String, Rej> {
    let mut out = Vec::new();
    for s in v {
        out.push(match s.as_str() { "SSL_V2" => 0, "SSL_V3" => 1, "TLS_V10" => 2, "TLS_V11" => 3, "TLS_V12" => 4, "TLS_V13" => 5, _ => return rej("unknown_tls_version") });
    }
    Ok(out.iter().map(|x: &i32| x.to_string()).collect::<Vec<_>>().join(","))
}

/// `[hsts]` block -> canonical string (doc/configure.md "Validation matrix")
fn hsts(t: &Table, scope: &str) -> Result<String, Rej> {
    known(t, &HSTS_KEYS, "hsts")?;
    let enabled = match opt_bool(t, "enabled")? { Some(e) => e, None => return rej(format!("hsts_without_enabled:{scope}")) };
    let max_age = match (enabled, opt_int(t, "max_age", U32)?) { (true, None) => Some(31_536_000), (_, m) => m };
    Ok(format!("enabled={enabled};max_age={};include_subdomains={};preload={};force_replace_backend={}", oi(max_age), ob(opt_bool(t, "include_subdomains")?), ob(opt_bool(t, "preload")?), ob(opt_bool(t, "force_replace_backend")?)))
}

/// answers map (status -> template): legacy `answer_NNN = "/path"` first, then the `answers` table
/// (inline literal, or `file://path`); empty values are skipped
fn answers(t: &Table, legacy: bool) -> Result<(String, String), Rej> {
    let mut out: BTreeMap<String, String> = BTreeMap::new();
    let mut leg: BTreeMap<String, String> = BTreeMap::new();
    if legacy {
        for code in LEGACY_ANSWERS {
            if let Some(p) = opt_str(t, &format!("answer_{code}"))? {
                let body = file(p)?;
                out.insert(code.to_string(), h(body.as_bytes()));
                leg.insert(code.to_string(), h(body.as_bytes()));
            }
        }
    }
    if let Some(m) = str_map(t, "answers")? {
        for (code, v) in m {
            if v.is_empty() { continue; }
            let body = match v.strip_prefix("file://") { Some(p) => file(p)?, None => v.clone() };
            out.insert(code, h(body.as_bytes()));
        }
    }
    Ok((kv(&out), kv(&leg)))
}

struct L {
    proto: &'static str,
    expect_proxy: bool,
    /// default certificate of an HTTPS listener: (cert text, key text, chain blocks)
    default_cert: Option<(String, String, Vec<String>)>,
    advertises_h2: bool,
}

fn timeouts(lt: Option<&Table>, g: &[u64; 4], a: &mut Attrs, n: usize) -> Result<(), Rej> {
    for (i, k) in ["front_timeout", "back_timeout", "connect_timeout", "request_timeout"].iter().enumerate().take(n) {
        let v = match lt { Some(t) => opt_int(t, k, U32)?, None => None };
        a.insert(k.to_string(), v.unwrap_or(g[i]).to_string());
    }
    Ok(())
}

fn http_listener_attrs(lt: Option<&Table>, proto: &str, g: &[u64; 4], active: bool) -> Result<Attrs, Rej> {
    let empty = Table::new();
    let t = lt.unwrap_or(&empty);
    let mut a = Attrs::new();
    a.insert("proto".into(), proto.into());
    a.insert("public_address".into(), match opt_str(t, "public_address")? { Some(p) => sockaddr(p, "public_address")?, None => "none".into() });
    a.insert("expect_proxy".into(), opt_bool(t, "expect_proxy")?.unwrap_or(false).to_string());
    a.insert("sticky_name".into(), opt_str(t, "sticky_name")?.unwrap_or("SOZUBALANCEID").to_string());
    timeouts(lt, g, &mut a, 4)?;
    a.insert("active".into(), active.to_string());
    let (ans, leg) = answers(t, true)?;
    a.insert("answers".into(), ans);
    a.insert("legacy_answers".into(), leg);
    for k in H2_KNOBS_U32 { a.insert(k.into(), oi(opt_int(t, k, U32)?)); }
    for k in H2_KNOBS_U64 { a.insert(k.into(), oi(opt_int(t, k, u64::MAX)?)); }
    a.insert("sozu_id_header".into(), os(opt_str(t, "sozu_id_header")?));
    a.insert("elide_x_real_ip".into(), opt_bool(t, "elide_x_real_ip")?.unwrap_or(false).to_string());
    a.insert("send_x_real_ip".into(), opt_bool(t, "send_x_real_ip")?.unwrap_or(false).to_string());
    Ok(a)
}

const DEFAULT_CIPHERS: [&str; 9] = [
    "TLS13_AES_256_GCM_SHA384", "TLS13_AES_128_GCM_SHA256", "TLS13_CHACHA20_POLY1305_SHA256", "TLS_ECDHE_ECDSA_WITH_AES_256_GCM_SHA384",
    "TLS_ECDHE_ECDSA_WITH_AES_128_GCM_SHA256", "TLS_ECDHE_ECDSA_WITH_CHACHA20_POLY1305_SHA256", "TLS_ECDHE_RSA_WITH_AES_256_GCM_SHA384",
    "TLS_ECDHE_RSA_WITH_AES_128_GCM_SHA256", "TLS_ECDHE_RSA_WITH_CHACHA20_POLY1305_SHA256",
];

fn https_listener(lt: Option<&Table>, g: &[u64; 4], active: bool) -> Result<(Attrs, L), Rej> {
    let empty = Table::new();
    let t = lt.unwrap_or(&empty);
    let mut a = http_listener_attrs(lt, "https", g, active)?;
    a.insert("versions".into(), match opt_strs(t, "tls_versions")? { Some(v) => tls_versions(&v)?, None => "4,5".into() });
    a.insert("cipher_list".into(), match opt_strs(t, "cipher_list")? { Some(v) => v.join(","), None => DEFAULT_CIPHERS.join(",") });
    a.insert("groups_list".into(), match opt_strs(t, "groups_list")? { Some(v) => v.join(","), None => "X25519MLKEM768,x25519,P-256,P-384".into() });
    let disable_h11 = opt_bool(t, "disable_http11")?;
    let alpn: Vec<String> = match opt_strs(t, "alpn_protocols")? {
        Some(v) if !v.is_empty() => {
            for p in &v { if p != "h2" && p != "http/1.1" { return rej("invalid_alpn_protocol"); } }
            let mut seen = BTreeSet::new();
            if v.iter().any(|p| !seen.insert(p.clone())) { return unm("duplicate alpn entries (undocumented)"); }
            v
        }
        _ => vec!["h2".into(), "http/1.1".into()],
    };
    if disable_h11 == Some(true) && alpn.iter().any(|p| p == "http/1.1") { return rej("disable_http11_with_http11_alpn"); }
    a.insert("alpn".into(), alpn.join(","));
    a.insert("send_tls13_tickets".into(), opt_int(t, "send_tls13_tickets", u64::MAX)?.unwrap_or(4).to_string());
    a.insert("strict_sni_binding".into(), ob(opt_bool(t, "strict_sni_binding")?));
    a.insert("disable_http11".into(), ob(disable_h11));
    a.insert("hsts".into(), match opt_table(t, "hsts")? { Some(ht) => hsts(ht, "listener")?, None => "none".into() });
    let cert = opt_str(t, "certificate")?;
    let key = opt_str(t, "key")?;
    let chain = opt_str(t, "certificate_chain")?;
    let default_cert = match (cert, key) {
        (Some(c), Some(k)) => Some((file(c)?, file(k)?, match chain { Some(p) => chain_blocks(&file(p)?), None => vec![] })),
        (None, None) => { if chain.is_some() { return unm("listener chain without certificate"); } None }
        _ => return unm("listener certificate without key or key without certificate"),
    };
    a.insert("certificate".into(), match &default_cert { Some((c, _, _)) => h(c.as_bytes()), None => "none".into() });
    a.insert("key".into(), match &default_cert { Some((_, k, _)) => h(k.as_bytes()), None => "none".into() });
    a.insert("certificate_chain".into(), match &default_cert { Some((_, _, ch)) => chain_h(ch), None => chain_h(&[]) });
    let advertises_h2 = alpn.iter().any(|p| p == "h2");
    let expect_proxy = opt_bool(t, "expect_proxy")?.unwrap_or(false);
    Ok((a, L { proto: "https", expect_proxy, default_cert, advertises_h2 }))
}

struct Front<'a> {
    cluster: &'a str,
    t: &'a Table,
    addr: String,
    own_cert: Option<(String, String, Vec<String>)>,
    versions: String,
}

fn health_check(t: &Table) -> Result<String, Rej> {
    known(t, &HC_KEYS, "health_check")?;
    let uri = match opt_str(t, "uri")? { Some(u) => u, None => return rej("health_check_without_uri") };
    let interval = opt_int(t, "interval", U32)?.unwrap_or(10);
    let timeout = opt_int(t, "timeout", U32)?.unwrap_or(5);
    let healthy = opt_int(t, "healthy_threshold", U32)?.unwrap_or(3);
    let unhealthy = opt_int(t, "unhealthy_threshold", U32)?.unwrap_or(3);
    let expected = opt_int(t, "expected_status", U32)?.unwrap_or(0);
    // command/src/config.rs `validate_health_check_config`: "strict positive thresholds and a URI that
    // cannot smuggle a second HTTP message ... so off-channel inputs (TOML reload, ...) are constrained
    // the same way"
    if interval == 0 { return rej("health_check_invalid:zero_interval"); }
    if timeout == 0 { return rej("health_check_invalid:zero_timeout"); }
    if healthy == 0 || unhealthy == 0 { return rej("health_check_invalid:zero_threshold"); }
    if !uri.starts_with('/') { return rej("health_check_invalid:uri_without_slash"); }
    if uri.bytes().any(|b| b < 0x20 && b != b'\t') { return rej("health_check_invalid:uri_control_bytes"); }
    Ok(format!("uri={uri};interval={interval};timeout={timeout};healthy={healthy};unhealthy={unhealthy};expected={expected}"))
}

fn udp_block(t: &Table) -> Result<String, Rej> {
    known(t, &UDP_KEYS, "udp")?;
    let aff = match opt_str(t, "affinity_key")? { None => "default".to_string(), Some("SOURCE_IP") => "0".into(), Some("SOURCE_IP_PORT") => "1".into(), Some(_) => return rej("unknown_affinity_key") };
    let health = match opt_table(t, "health")? {
        None => "none".to_string(),
        Some(ht) => {
            known(ht, &UDPH_KEYS, "udp.health")?;
            let mode = match opt_str(ht, "mode")? { None => "default".to_string(), Some("HEALTH_OFF") => "0".into(), Some("TCP_PROBE") => "1".into(), Some("UDP_PROBE") => "2".into(), Some(_) => return rej("unknown_udp_health_mode") };
            format!("mode={mode};tcp_port={};rise={};fall={};fail_open={};payload={};interval={};timeout={}", oi(opt_int(ht, "tcp_port", U32)?), oi(opt_int(ht, "rise", U32)?), oi(opt_int(ht, "fall", U32)?), ob(opt_bool(ht, "fail_open")?), os(opt_str(ht, "udp_probe_payload")?), oi(opt_int(ht, "probe_interval_seconds", U32)?), oi(opt_int(ht, "probe_timeout_seconds", U32)?))
        }
    };
    Ok(format!("affinity={aff};responses={};requests={};send_pp={};pp_every={};health=[{health}]", oi(opt_int(t, "responses", U32)?), oi(opt_int(t, "requests", U32)?), ob(opt_bool(t, "send_proxy_protocol")?), ob(opt_bool(t, "proxy_protocol_every_datagram")?)))
}

fn is_tchar(b: u8) -> bool { b.is_ascii_alphanumeric() || b"!#$%&'*+-.^_`|~".contains(&b) }

fn tags(t: &Table) -> Result<String, Rej> { Ok(match str_map(t, "tags")? { Some(m) => kv(&m), None => String::new() }) }

/// attributes of an HTTP(S) frontend entry (everything but its identity)
fn http_front_attrs(cluster: &str, t: &Table, features: &mut BTreeSet<String>) -> Result<Attrs, Rej> {
    let mut a = Attrs::new();
    a.insert("cluster".into(), cluster.into());
    a.insert("position".into(), match opt_str(t, "position")? { None => "*".into(), Some(p @ ("PRE" | "POST" | "TREE")) => p.into(), Some(_) => return rej("unknown_rule_position") });
    a.insert("tags".into(), tags(t)?);
    // doc/configure.md "Frontend redirect": forward (default) | permanent | found | permanent_redirect | unauthorized
    a.insert("redirect".into(), match opt_str(t, "redirect")? {
        None => "none".into(),
        Some(v) => match v.to_ascii_lowercase().as_str() {
            "forward" => "0".into(), "permanent" => "1".into(), "unauthorized" => "2".into(),
            "found" => { features.insert("redirect_found_or_permanent_redirect".into()); "3".into() }
            "permanent_redirect" => { features.insert("redirect_found_or_permanent_redirect".into()); "4".into() }
            _ => return rej("invalid_redirect_policy"),
        },
    });
    a.insert("redirect_scheme".into(), match opt_str(t, "redirect_scheme")? {
        None => "none".into(),
        Some(v) => match v.to_ascii_lowercase().as_str() { "use-same" => "0".into(), "use-http" => "1".into(), "use-https" => "2".into(), _ => return rej("invalid_redirect_scheme") },
    });
    a.insert("redirect_template".into(), os(opt_str(t, "redirect_template")?));
    a.insert("rewrite_host".into(), os(opt_str(t, "rewrite_host")?));
    a.insert("rewrite_path".into(), os(opt_str(t, "rewrite_path")?));
    a.insert("rewrite_port".into(), oi(opt_int(t, "rewrite_port", U32)?));
    a.insert("required_auth".into(), ob(opt_bool(t, "required_auth")?));
    let mut hs = Vec::new();
    if let Some(arr) = opt_array(t, "headers")? {
        for hv in arr {
            let ht = match hv { T::Table(x) => x, _ => return rej("type_error:headers") };
            known(ht, &["position", "key", "value"], "header")?;
            let (Some(p), Some(k), Some(v)) = (opt_str(ht, "position")?, opt_str(ht, "key")?, opt_str(ht, "value")?) else { return rej("header_missing_field") };
            let p = match p.to_ascii_lowercase().as_str() { "request" => 1, "response" => 2, "both" => 3, _ => return rej("invalid_header_position") };
            if k.is_empty() || !k.bytes().all(is_tchar) { return rej("invalid_header_key"); }
            if v.bytes().any(|b| matches!(b, 0x00..=0x08 | 0x0A..=0x1F | 0x7F)) { return rej("invalid_header_value"); }
            hs.push(format!("{p}:{k}:{v}"));
        }
    }
    a.insert("headers".into(), hs.join("|"));
    Ok(a)
}

pub fn route_key(scheme: &str, addr: &str, t: &Table) -> Result<String, Rej> {
    let host = match opt_str(t, "hostname")? { Some(h) => h, None => return rej("http_frontend_without_hostname") };
    let path = opt_str(t, "path")?;
    let kind = match (path, opt_str(t, "path_type")?) {
        (_, Some(k)) if !["PREFIX", "REGEX", "EQUALS"].contains(&k) => return rej("unknown_path_type"),
        (None, _) => "P",
        (Some(_), None) | (Some(_), Some("PREFIX")) => "P",
        (Some(_), Some("REGEX")) => "R",
        (Some(_), Some(_)) => "=",
    };
    let method = opt_str(t, "method")?;
    Ok(format!("front|{scheme}|{addr}|{host}|{kind}{}|{}", path.unwrap_or(""), method.unwrap_or("-")))
}

pub fn read(doc: &Table) -> Result<Model, Rej> {
    let mut m = Model::default();
    // ------------------------------------------------------------------ globals
    let buffer_size = opt_int(doc, "buffer_size", u64::MAX)?.unwrap_or(16393);
    let g = [
        opt_int(doc, "front_timeout", U32)?.unwrap_or(60),
        opt_int(doc, "back_timeout", U32)?.unwrap_or(30),
        opt_int(doc, "connect_timeout", U32)?.unwrap_or(3),
        opt_int(doc, "request_timeout", U32)?.unwrap_or(10),
    ];
    let active = opt_bool(doc, "activate_listeners")?.unwrap_or(true);
    for k in ["command_buffer_size", "max_command_buffer_size", "max_connections", "min_buffers", "max_buffers", "ctl_command_timeout", "max_connections_per_ip", "slab_entries_per_connection", "basic_auth_max_credential_bytes"] { opt_int(doc, k, u64::MAX)?; }
    for k in ["zombie_check_interval", "accept_queue_timeout", "worker_timeout", "retry_after"] { opt_int(doc, k, U32)?; }
    opt_int(doc, "worker_count", u16::MAX as u64)?;
    for k in ["worker_automatic_restart", "disable_cluster_metrics", "handle_process_affinity", "log_colored", "evict_on_queue_full"] { opt_bool(doc, k)?; }
    for k in ["command_socket", "log_level", "log_target", "saved_state"] { opt_str(doc, k)?; }
    if doc.get("saved_state").is_some() { return unm("saved_state"); }
    // bin/config.toml: automatic_state_save "will not work if the 'saved_state' option is not set"
    if opt_bool(doc, "automatic_state_save")? == Some(true) { return rej("automatic_state_save_without_saved_state"); }
    if let Some(mt) = opt_table(doc, "metrics")? {
        known(mt, &["address", "tagged_metrics", "prefix", "detail"], "metrics")?;
        match opt_str(mt, "address")? { Some(a) => { sockaddr(a, "metrics")?; } None => return rej("metrics_without_address") }
        opt_bool(mt, "tagged_metrics")?;
        opt_str(mt, "prefix")?;
        if let Some(d) = opt_str(mt, "detail")? { if !["process", "frontend", "cluster", "backend"].contains(&d) { return rej("unknown_metrics_detail"); } }
    }

    // ------------------------------------------------------------------ listeners
    let mut ls: BTreeMap<String, L> = BTreeMap::new();
    if let Some(arr) = opt_array(doc, "listeners")? {
        for lv in arr {
            let lt = match lv { T::Table(x) => x, _ => return rej("type_error:listeners") };
            known(lt, &LISTENER_KEYS, "listener")?;
            if lt.contains_key("cipher_suites") { return unm("cipher_suites"); }
            let addr = match opt_str(lt, "address")? { Some(a) => sockaddr(a, "listener")?, None => return rej("listener_without_address") };
            // doc/configure.md: "possible values are http, https, tcp or udp"
            let proto = match opt_str(lt, "protocol")? {
                None => return rej("listener_missing_protocol"),
                Some("http") => "http", Some("https") => "https", Some("tcp") => "tcp", Some("udp") => "udp",
                Some(_) => return rej("listener_unknown_protocol"),
            };
            if ls.contains_key(&addr) { return rej("duplicate_listener_address"); }
            let public = match opt_str(lt, "public_address")? { Some(p) => Some(sockaddr(p, "public_address")?), None => None };
            let expect_proxy = opt_bool(lt, "expect_proxy")?;
            // bin/config.toml: public_address "is incompatible with expect_proxy"
            if public.is_some() && expect_proxy == Some(true) { return rej("public_address_with_expect_proxy"); }
            // type-check everything a listener may carry, whatever its protocol
            for k in ["front_timeout", "back_timeout", "connect_timeout", "request_timeout", "max_rx_datagram_size", "max_flows"] { opt_int(lt, k, U32)?; }
            for k in H2_KNOBS_U32 { opt_int(lt, k, U32)?; }
            for k in H2_KNOBS_U64 { opt_int(lt, k, u64::MAX)?; }
            opt_int(lt, "send_tls13_tickets", u64::MAX)?;
            for k in ["strict_sni_binding", "disable_http11", "elide_x_real_ip", "send_x_real_ip"] { opt_bool(lt, k)?; }
            for k in ["sticky_name", "certificate", "certificate_chain", "key", "sozu_id_header"] { opt_str(lt, k)?; }
            for k in ["tls_versions", "cipher_list", "groups_list", "alpn_protocols"] { opt_strs(lt, k)?; }
            if let Some(v) = opt_strs(lt, "tls_versions")? { tls_versions(&v)?; }
            str_map(lt, "answers")?;
            opt_table(lt, "hsts")?;
            m.n_listeners += 1;
            let key = format!("listener|{addr}");
            match proto {
                "http" => {
                    // RFC 6797 §7.2 / doc "Validation matrix": [hsts] on a plain-HTTP listener is an error
                    if lt.contains_key("hsts") { return rej("hsts_on_http_listener"); }
                    m.facts.insert(key, vec![http_listener_attrs(Some(lt), "http", &g, active)?]);
                    ls.insert(addr, L { proto, expect_proxy: expect_proxy.unwrap_or(false), default_cert: None, advertises_h2: false });
                }
                "https" => {
                    let (a, l) = https_listener(Some(lt), &g, active)?;
                    m.facts.insert(key, vec![a]);
                    ls.insert(addr, l);
                }
                "tcp" => {
                    let mut a = Attrs::new();
                    a.insert("proto".into(), "tcp".into());
                    a.insert("public_address".into(), public.unwrap_or("none".into()));
                    a.insert("expect_proxy".into(), expect_proxy.unwrap_or(false).to_string());
                    timeouts(Some(lt), &g, &mut a, 3)?;
                    a.insert("active".into(), active.to_string());
                    m.facts.insert(key, vec![a]);
                    ls.insert(addr, L { proto, expect_proxy: expect_proxy.unwrap_or(false), default_cert: None, advertises_h2: false });
                }
                _ => {
                    // doc "Options specific to UDP listeners": expect_proxy "is not supported on UDP
                    // listeners — the field is rejected"
                    match expect_proxy { Some(true) => return rej("udp_listener_expect_proxy"), Some(false) => return unm("expect_proxy=false on udp listener"), None => {} }
                    let mut a = Attrs::new();
                    a.insert("proto".into(), "udp".into());
                    a.insert("public_address".into(), public.unwrap_or("none".into()));
                    // UDP-specific defaults (30 s), not the global front/back timeouts
                    a.insert("front_timeout".into(), opt_int(lt, "front_timeout", U32)?.unwrap_or(30).to_string());
                    a.insert("back_timeout".into(), opt_int(lt, "back_timeout", U32)?.unwrap_or(30).to_string());
                    // "Capped at the global buffer_size ... clamped to it at config-load"
                    a.insert("max_rx_datagram_size".into(), opt_int(lt, "max_rx_datagram_size", U32)?.unwrap_or(1500).min(buffer_size).to_string());
                    a.insert("max_flows".into(), opt_int(lt, "max_flows", U32)?.unwrap_or(0).to_string());
                    a.insert("active".into(), active.to_string());
                    m.facts.insert(key, vec![a]);
                    ls.insert(addr, L { proto, expect_proxy: false, default_cert: None, advertises_h2: false });
                }
            }
        }
    }

    // ------------------------------------------------------------------ clusters, pass 1: shape + implicit listeners
    let empty = Table::new();
    let clusters = opt_table(doc, "clusters")?.unwrap_or(&empty);
    let mut fronts: Vec<Front> = Vec::new();
    let mut demand: BTreeMap<String, BTreeSet<&'static str>> = BTreeMap::new();
    let mut cluster_proto: BTreeMap<&str, &'static str> = BTreeMap::new();
    for (id, cv) in clusters {
        let ct = match cv { T::Table(x) => x, _ => return rej("type_error:clusters") };
        known(ct, &CLUSTER_KEYS, "cluster")?;
        // doc: "possible values are http or tcp; https proxies will use http here"
        let proto = match opt_str(ct, "protocol")? { Some("http") => "http", Some("tcp") => "tcp", Some(_) => return rej("cluster_unknown_protocol"), None => return rej("cluster_missing_protocol") };
        cluster_proto.insert(id.as_str(), proto);
        let Some(fa) = opt_array(ct, "frontends")? else { return rej("cluster_without_frontends_key") };
        if opt_array(ct, "backends")?.is_none() { return rej("cluster_without_backends_key"); }
        for fv in fa {
            let ft = match fv { T::Table(x) => x, _ => return rej("type_error:frontends") };
            known(ft, &FRONT_KEYS, "frontend")?;
            let addr = match opt_str(ft, "address")? { Some(a) => sockaddr(a, "frontend")?, None => return rej("frontend_without_address") };
            for k in ["hostname", "path", "path_type", "method", "certificate", "key", "certificate_chain", "position", "redirect", "redirect_scheme", "redirect_template", "rewrite_host", "rewrite_path"] { opt_str(ft, k)?; }
            let cert = opt_str(ft, "certificate")?;
            let key = opt_str(ft, "key")?;
            let chain = opt_str(ft, "certificate_chain")?;
            let versions = match opt_strs(ft, "tls_versions")? { Some(v) => tls_versions(&v)?, None => String::new() };
            if proto == "tcp" {
                // config.rs `to_tcp_front`: Invalid '<field>' field for a TCP frontend
                if ft.contains_key("hostname") || ft.contains_key("path") || cert.is_some() || chain.is_some() { return rej("tcp_frontend_with_http_field"); }
                for k in FRONT_KEYS { if !["address", "tags"].contains(&k) && ft.contains_key(k) { return unm(format!("{k} on a tcp frontend")); } }
                if !ls.contains_key(&addr) { demand.entry(addr.clone()).or_default().insert("tcp"); }
                fronts.push(Front { cluster: id, t: ft, addr, own_cert: None, versions });
            } else {
                if opt_str(ft, "hostname")?.is_none() { return rej("http_frontend_without_hostname"); }
                let own_cert = match (cert, key) {
                    (Some(c), Some(k)) => Some((file(c)?, file(k)?, match chain { Some(p) => chain_blocks(&file(p)?), None => vec![] })),
                    (None, None) => { if chain.is_some() { return unm("frontend chain without certificate"); } None }
                    _ => return unm("frontend certificate without key"),
                };
                if !ls.contains_key(&addr) { demand.entry(addr.clone()).or_default().insert(if own_cert.is_some() { "https" } else { "http" }); }
                fronts.push(Front { cluster: id, t: ft, addr, own_cert, versions });
            }
        }
    }
    // a frontend whose address has no declared listener gets a default listener of the matching
    // kind (bin/config.toml's TcpTest cluster relies on this); conflicting demands cannot be served
    for (addr, kinds) in &demand {
        if kinds.len() > 1 { return rej("conflicting_frontends_on_undeclared_listener"); }
        let kind = *kinds.iter().next().unwrap();
        m.n_implicit += 1;
        let key = format!("listener|{addr}");
        match kind {
            "http" => {
                m.facts.insert(key, vec![http_listener_attrs(None, "http", &g, active)?]);
                ls.insert(addr.clone(), L { proto: "http", expect_proxy: false, default_cert: None, advertises_h2: false });
            }
            "https" => {
                let (a, l) = https_listener(None, &g, active)?;
                m.facts.insert(key, vec![a]);
                ls.insert(addr.clone(), l);
            }
            _ => {
                let mut a = Attrs::new();
                a.insert("proto".into(), "tcp".into());
                a.insert("public_address".into(), "none".into());
                a.insert("expect_proxy".into(), "false".into());
                timeouts(None, &g, &mut a, 3)?;
                a.insert("active".into(), active.to_string());
                m.facts.insert(key, vec![a]);
                ls.insert(addr.clone(), L { proto: "tcp", expect_proxy: false, default_cert: None, advertises_h2: false });
            }
        }
    }
    // doc "Buffer size for HTTP/2": start-up is refused if buffer_size < 16393 and any HTTPS listener
    // advertises h2
    if buffer_size < 16393 && ls.values().any(|l| l.proto == "https" && l.advertises_h2) { return rej("h2_with_small_buffer"); }

    // ------------------------------------------------------------------ frontends
    let mut cluster_expect: BTreeMap<&str, BTreeSet<bool>> = BTreeMap::new();
    let mut certs: BTreeMap<String, Vec<Attrs>> = BTreeMap::new();
    for f in &fronts {
        let l = &ls[&f.addr];
        m.n_frontends += 1;
        if cluster_proto[f.cluster] == "tcp" {
            match l.proto {
                "http" | "https" => return rej("tcp_frontend_on_http_listener"),
                _ => {}
            }
            cluster_expect.entry(f.cluster).or_default().insert(l.expect_proxy);
            let key = format!("front|{}|{}|{}|{}", if l.proto == "udp" { "udp" } else { "tcp" }, f.cluster, f.addr, tags(f.t)?);
            if m.facts.contains_key(&key) { m.dup_l4.insert(key.clone()); }
            m.facts.entry(key).or_default().push(Attrs::new());
            continue;
        }
        match l.proto {
            "tcp" => return rej("http_frontend_on_tcp_listener"),
            "udp" => return rej("http_frontend_on_udp_listener"),
            "http" => {
                if f.own_cert.is_some() { return rej("certificate_on_http_listener"); }
                // doc: "[hsts] on a plain-HTTP listener or frontend: Error HstsOnPlainHttp at config-load"
                if f.t.contains_key("hsts") { return rej("hsts_on_http_frontend"); }
                let key = route_key("http", &f.addr, f.t)?;
                let mut a = http_front_attrs(f.cluster, f.t, &mut m.features)?;
                a.insert("hsts".into(), "none".into());
                if m.facts.contains_key(&key) { m.dup_routes.insert(key.clone()); }
                m.facts.entry(key).or_default().push(a);
            }
            _ => {
                let key = route_key("https", &f.addr, f.t)?;
                let mut a = http_front_attrs(f.cluster, f.t, &mut m.features)?;
                a.insert("hsts".into(), match opt_table(f.t, "hsts")? { Some(ht) => hsts(ht, "frontend")?, None => "none".into() });
                let cert = match (&f.own_cert, &l.default_cert) {
                    (Some((c, k, ch)), _) => Some((c.clone(), k.clone(), ch.clone(), f.versions.clone())),
                    // "Default certificate on the HTTPS listener": frontends without their own use it
                    (None, Some((c, k, ch))) => {
                        if f.t.contains_key("hsts") { m.features.insert("hsts_on_frontend_using_listener_certificate".into()); }
                        Some((c.clone(), k.clone(), ch.clone(), f.versions.clone()))
                    }
                    // doc "HTTPS listener pairing" working configuration: frontends on an HTTPS listener
                    // without per-frontend certificate ("loaded via the runtime API")
                    (None, None) => { m.features.insert("https_frontend_without_certificate".into()); None }
                };
                if let Some((c, k, ch, v)) = cert {
                    let ck = format!("cert|{}|{}", f.addr, h(c.as_bytes()));
                    let mut ca = Attrs::new();
                    ca.insert("key".into(), h(k.as_bytes()));
                    ca.insert("chain".into(), chain_h(&ch));
                    ca.insert("versions".into(), v);
                    let e = certs.entry(ck).or_default();
                    if !e.contains(&ca) { e.push(ca); }
                }
                if m.facts.contains_key(&key) { m.dup_routes.insert(key.clone()); }
                m.facts.entry(key).or_default().push(a);
            }
        }
    }
    m.n_certs = certs.len();
    for (k, v) in certs { m.facts.insert(k, v); }

    // ------------------------------------------------------------------ clusters, pass 2
    for (id, cv) in clusters {
        let ct = cv.as_table().unwrap();
        let proto = cluster_proto[id.as_str()];
        m.n_clusters += 1;
        let mut a = Attrs::new();
        let tcp = proto == "tcp";
        let star = |present: bool, v: String| if tcp && present { "*".to_string() } else { v };
        a.insert("sticky_session".into(), star(ct.contains_key("sticky_session"), opt_bool(ct, "sticky_session")?.unwrap_or(false).to_string()));
        a.insert("https_redirect".into(), star(ct.contains_key("https_redirect"), opt_bool(ct, "https_redirect")?.unwrap_or(false).to_string()));
        let send_proxy = opt_bool(ct, "send_proxy")?.unwrap_or(false);
        let expect = cluster_expect.get(id.as_str()).cloned().unwrap_or_default();
        // config.rs: mixing frontends on expect_proxy and non-expect_proxy listeners is `Incompatible`
        if expect.len() > 1 { return rej("tcp_cluster_mixed_expect_proxy"); }
        let expect = expect.contains(&true);
        // doc "PROXY Protocol": send / expect / relay, TCP clusters only (ignored on HTTP clusters)
        a.insert("proxy_protocol".into(), if !tcp { "none".into() } else { match (send_proxy, expect) { (true, true) => "2".into(), (true, false) => "1".into(), (false, true) => "0".into(), _ => "none".to_string() } });
        a.insert("load_balancing".into(), match opt_str(ct, "load_balancing")? {
            None | Some("ROUND_ROBIN") => "0".into(), Some("RANDOM") => "1".into(), Some("LEAST_LOADED") => "2".into(), Some("POWER_OF_TWO") => "3".into(), Some("HRW") => "4".into(), Some("MAGLEV") => "5".into(),
            Some(_) => return rej("unknown_load_balancing"),
        });
        // bin/config.toml: "available options: connections, requests, connection_time"
        a.insert("load_metric".into(), match opt_str(ct, "load_metric")? {
            None => "none".into(),
            Some(v) => {
                if v.chars().any(|c| c.is_ascii_lowercase()) { m.features.insert("load_metric_lowercase".into()); }
                match v.to_ascii_uppercase().as_str() { "CONNECTIONS" => "0".into(), "REQUESTS" => "1".into(), "CONNECTION_TIME" => "2".into(), _ => return rej("unknown_load_metric") }
            }
        });
        a.insert("answer_503".into(), star(ct.contains_key("answer_503"), match opt_str(ct, "answer_503")? { Some(p) => h(file(p)?.as_bytes()), None => "none".into() }));
        a.insert("http2".into(), star(ct.contains_key("http2"), ob(opt_bool(ct, "http2")?)));
        a.insert("answers".into(), answers(ct, false)?.0);
        a.insert("https_redirect_port".into(), oi(opt_int(ct, "https_redirect_port", U32)?));
        a.insert("authorized_hashes".into(), opt_strs(ct, "authorized_hashes")?.unwrap_or_default().join(","));
        a.insert("www_authenticate".into(), os(opt_str(ct, "www_authenticate")?));
        a.insert("max_connections_per_ip".into(), oi(opt_int(ct, "max_connections_per_ip", u64::MAX)?));
        a.insert("retry_after".into(), oi(opt_int(ct, "retry_after", U32)?));
        a.insert("health_check".into(), match opt_table(ct, "health_check")? { Some(t) => health_check(t)?, None => "none".into() });
        a.insert("udp".into(), match opt_table(ct, "udp")? { Some(t) => udp_block(t)?, None => "none".into() });
        m.facts.insert(format!("cluster|{id}"), vec![a]);

        for bv in opt_array(ct, "backends")?.unwrap() {
            let bt = match bv { T::Table(x) => x, _ => return rej("type_error:backends") };
            known(bt, &BACKEND_KEYS, "backend")?;
            let addr = match opt_str(bt, "address")? { Some(a) => sockaddr(a, "backend")?, None => return rej("backend_without_address") };
            let mut ba = Attrs::new();
            // bin/config.toml: weight "used by the load balancing algorithm"; 100 when absent
            ba.insert("weight".into(), opt_int(bt, "weight", 255)?.unwrap_or(100).to_string());
            ba.insert("sticky_id".into(), os(opt_str(bt, "sticky_id")?));
            ba.insert("backup".into(), ob(opt_bool(bt, "backup")?));
            m.n_backends += 1;
            m.backends.push(DeclBackend { cluster: id.clone(), addr, id: opt_str(bt, "backend_id")?.map(|s| s.to_string()), attrs: ba });
        }
    }
    Ok(m)
}
