//! C03, HTTP/2 family: an H2 client (over TLS) whose request declares `content-length: N` but sends a
//! different number of DATA bytes (in frames each no larger than N, in one oversized frame, or fewer
//! bytes then END_STREAM), relayed to an HTTP/1.1 backend whose connection is kept alive, followed by
//! an honest request. Client and backend must agree on request boundaries: nothing beyond the declared
//! length may reach the backend connection, every backend byte stream must parse strictly into requests
//! the client really sent, and the honest request must not be harmed (RFC 9113 8.1.1: a content-length
//! that does not match the DATA payload is malformed; malformed requests are stream errors).
use std::collections::BTreeMap;

use serde::{Deserialize, Serialize};

use crate::actors::h1::{BackendPlan, BodySpec, RespSpec};
use crate::actors::h2::{BodyPlan, ClientOp, EndMode, H2ClientPlan, H2ConnPlan, H2ReqSpec, SettingsSpec, WuMode, WuPolicy};
use crate::actors::tls::TlsPlan;
use crate::actors::Pace;
use crate::framework::*;
use crate::muxscn::{backend_obs, h2_client_obs, run_mux, BackendRecords, MuxBackend, MuxCluster, MuxOutcome, MuxPlan};
use crate::netsim::{self, Knobs};
use crate::prng::Prng;
use crate::scenario::BackendMode;
use crate::world::SEC;

#[derive(Clone, Debug, Serialize, Deserialize)]
pub struct H2ClPlan {
    pub mux: MuxPlan,
    pub declared: u64,
    pub sent: u64,
    /// over_in_small_frames | over_in_one_frame | short | exact
    pub shape: String,
}

pub fn generate(seed: u64, _tier: Tier) -> H2ClPlan {
    let mut rng = Prng::derive(seed, "c03/h2");
    let faulty = rng.below(4) == 0;
    let knobs = Knobs::default();
    let declared = *rng.pick(&[1u64, 5, 47, 100, 1000, 5000, 16384, 20000]);
    let (shape, sent, frames): (&str, u64, Vec<usize>) = match rng.below(8) {
        0 => ("exact", declared, vec![]),
        1 => { let m = declared.saturating_sub(1 + rng.below(declared)).max(0); ("short", m, vec![]) }
        2 => { let extra = 1 + rng.below(3000); ("over_in_one_frame", declared + extra, vec![(declared + extra).min(16384) as usize]) }
        _ => {
            // every frame no larger than the declared length, their sum larger
            let extra = 1 + rng.below(declared.max(2) * 2);
            let total = declared + extra;
            let mut v = Vec::new();
            let mut left = total as usize;
            while left > 0 { let s = (1 + rng.below(declared) as usize).min(left).min(16384); v.push(s); left -= s; }
            ("over_in_small_frames", total, v)
        }
    };
    let mut victim = H2ReqSpec::post(1, "c0.test", "/r/1", sent as usize);
    victim.body = BodyPlan::of(sent as usize);
    victim.body.content_length = false;
    victim.body.frames = frames;
    victim.headers.push(("content-length".into(), declared.to_string()));
    let follow = H2ReqSpec::get(2, "c0.test", "/r/2");
    let mut h1_resp = BTreeMap::new();
    h1_resp.insert(1u64, RespSpec::ok(BodySpec::Cl(5)));
    h1_resp.insert(2u64, RespSpec::ok(BodySpec::Cl(1 + rng.below(2000) as usize)));
    let backend = MuxBackend::H1(BackendPlan { name: "b0".into(), addr: "10.1.0.1:8000".parse().unwrap(), pace: Pace::random_budget(&mut rng, 30_000, 100_000_000), responses: h1_resp, default: RespSpec::ok(BodySpec::Cl(3)), close_on_accept: vec![], listen_from_ns: 0, listen_until_ns: 0 });
    let https_front = "10.0.0.1:443".parse().unwrap();
    let mut c = H2ClientPlan::simple("h2c0", "192.0.2.7:40001".parse().unwrap(), https_front, Some(TlsPlan::h2("c0.test")), vec![]);
    // half of the over-long bodies never end their stream: the per-frame accounting is then the only guard
    // (a check at END_STREAM never runs), and whatever sozu lets through stays on the backend connection
    let never_end = shape.starts_with("over") && rng.below(2) == 0;
    if never_end { victim.body.end = EndMode::Never; }
    c.give_up_ns = if never_end { 20 * SEC } else { 90 * SEC };
    c.script = match if never_end { 1 + rng.below(2) } else { rng.below(3) } {
        // the honest request behind the malformed one, concurrently with it, or before it
        0 => vec![ClientOp::Req(victim), ClientOp::WaitStreams, ClientOp::Req(follow)],
        1 => vec![ClientOp::Req(victim), ClientOp::Req(follow)],
        _ => vec![ClientOp::Req(follow), ClientOp::WaitStreams, ClientOp::Req(victim)],
    };
    c.pace = Pace::random_budget(&mut rng, 30_000, 100_000_000);
    let mut conn = H2ConnPlan::default();
    let mut s = SettingsSpec::default();
    s.enable_push = Some(0);
    conn.settings = s;
    // few WINDOW_UPDATE frames: sozu documents a WINDOW_UPDATE flood detector
    conn.wu = WuPolicy { stream: WuMode::WhenExhausted, conn: WuMode::Threshold(30000), fallback_ns: 30 * crate::world::MS };
    c.conn = conn;
    c.max_concurrent = 100;
    let mux = MuxPlan {
        seed,
        family: format!("h2cl_{shape}{}", if faulty { "+buggify" } else { "" }),
        knobs,
        sched: netsim::default_sched(&mut rng, faulty),
        http_front: "10.0.0.1:80".parse().unwrap(),
        https_front,
        clusters: vec![MuxCluster { id: "c0".into(), host: "c0.test".into(), backend, mode: BackendMode::Listen { delay_ns: 0 } }],
        h1_clients: vec![],
        h2_clients: vec![c],
        sndbufs: None,
        settle_ns: 0,
        soft_stop_at_ns: None,
        h2_deadline_secs: None,
    };
    H2ClPlan { mux, declared, sent, shape: shape.into() }
}

pub fn oracle(p: &H2ClPlan, o: &MuxOutcome) -> Vec<Violation> {
    let mut v = Vec::new();
    let key = |s: &str| format!("{s}|h2_content_length={}", p.shape);
    if let Some(pn) = &o.panicked { v.push(Violation::new("panic", key("worker"), pn.clone())); return v; }
    if let Some(a) = &o.aborted { v.push(Violation::new("hang", key(a), format!("simulation aborted: {a}"))); }
    let rec = &o.h2_clients[0];
    if rec.connect_err.is_some() || rec.tls.as_ref().map_or(false, |t| !t.handshake_done) { v.push(Violation::new("harness", key("client_setup"), "client could not connect".to_string())); return v; }
    // every backend connection must be a strict sequence of requests the client really sent
    if let BackendRecords::H1(recs) = &o.backends[0] {
        for r in recs {
            if let Some(e) = &r.parse_error { v.push(Violation::new("backend_stream_not_strict", key("parse_error"), format!("backend conn {}: {e} (declared {} sent {})", r.idx, p.declared, p.sent))); }
            // bytes behind the last complete request that are not the beginning of a request the client sent
            if let Some(q) = &r.partial {
                if !matches!(q.sim_id, Some(1) | Some(2)) && (q.raw_head.len() as u64 + q.body_len) > 0 {
                    v.push(Violation::new("boundary_disagreement", key("leftover_bytes_at_backend"), format!("backend conn {}: {} bytes behind the last complete request do not belong to any request of the client (declared {} sent {}): {:?}", r.idx, q.raw_head.len() as u64 + q.body_len, p.declared, p.sent, String::from_utf8_lossy(&q.raw_head[..q.raw_head.len().min(60)]))));
                }
            }
            // (an unfinished head of one of the client's own requests is fine: sozu may close a backend
            // connection in the middle of writing it)
            let tail: &[u8] = if r.raw_in_total as usize == r.raw_in.len() && r.pending <= r.raw_in.len() { &r.raw_in[r.raw_in.len() - r.pending..] } else { &[] };
            let own_head = [&b"GET /r/2 HTTP/1.1\r\n"[..], &b"POST /r/1 HTTP/1.1\r\n"[..]].iter().any(|h| if tail.len() >= h.len() { tail.starts_with(h) } else { h.starts_with(tail) });
            if r.partial.is_none() && r.pending > 0 && !(own_head && !tail.is_empty()) {
                v.push(Violation::new("boundary_disagreement", key("leftover_bytes_at_backend"), format!("backend conn {}: {} bytes behind the last complete request belong to no request of the client (declared {} sent {})", r.idx, r.pending, p.declared, p.sent)));
            }
            for q in &r.requests {
                match q.sim_id {
                    Some(1) | Some(2) => {}
                    other => v.push(Violation::new("foreign_request_at_backend", key("unknown_request"), format!("backend conn {} parsed a request the client never sent (x-sim-id {other:?}): {:?}", r.idx, q.start))),
                }
            }
        }
    }
    let b1 = backend_obs(&o.backends[0], 1);
    if b1.seen > 1 { v.push(Violation::new("boundary_disagreement", key("victim_replayed"), format!("the malformed request reached the backend {} times", b1.seen))); }
    if b1.body_len > p.declared { v.push(Violation::new("boundary_disagreement", key("more_than_declared"), format!("backend read {} body bytes for a request declaring content-length {}", b1.body_len, p.declared))); }
    if b1.seen >= 1 && !b1.body_ok { v.push(Violation::new("boundary_disagreement", key("body_corrupted"), "body bytes of the malformed request differ at the backend".to_string())); }
    let obs1 = h2_client_obs(rec, 1);
    if p.shape == "exact" {
        if !(obs1.answered && obs1.status == Some(200) && obs1.complete) { v.push(Violation::new("valid_request_refused", key("exact_length"), format!("well-formed request: status {:?} complete {} aborted {:?}", obs1.status, obs1.complete, obs1.aborted))); }
        if b1.seen != 1 || b1.body_len != p.declared || !b1.complete { v.push(Violation::new("boundary_disagreement", key("exact_not_forwarded_intact"), format!("backend saw {} copies, {} of {} bytes", b1.seen, b1.body_len, p.declared))); }
    }
    // the honest request: intact, or explicitly not processed (connection error / refused)
    let obs2 = h2_client_obs(rec, 2);
    let st2 = rec.stream_for(2);
    let refused = rec.requests_not_sent.contains(&2) || st2.map_or(true, |s| s.refused_by_goaway || (s.recv_rst == Some(7) && s.status.is_none())) || (!rec.goaways.is_empty() && !obs2.answered);
    if !refused {
        let want = match &p.mux.clusters[0].backend { MuxBackend::H1(b) => b.responses[&2].body.len() as u64, _ => 0 };
        if !(obs2.answered && obs2.sim_id == Some(2) && obs2.status == Some(200) && obs2.complete && obs2.first_bad.is_none() && obs2.body_len == want) {
            v.push(Violation::new("honest_request_harmed", key(&format!("status={}", obs2.status.unwrap_or(0))), format!("request #2: status {:?} sim_id {:?} body {} of {want} complete {} aborted {:?}", obs2.status, obs2.sim_id, obs2.body_len, obs2.complete, obs2.aborted)));
        }
    }
    for lv in &rec.violations { v.push(Violation::new("frame_stream_broken", key(&lv.kind), format!("client ledger: {lv:?}"))); }
    v
}

pub fn run(p: &H2ClPlan, log: bool) -> (RunReport, String) {
    let o = run_mux(&p.mux, log);
    let violations = oracle(p, &o);
    let obs1 = h2_client_obs(&o.h2_clients[0], 1);
    let mut rep = RunReport { seed: p.mux.seed, family: p.mux.family.clone(), violations, trace_hash: o.trace_hash, stats: o.stats.clone(), summary: format!("{} declared {} sent {}", p.mux.family, p.declared, p.sent), ..Default::default() };
    rep.nontrivial = o.h2_clients[0].frames_recv_total > 2;
    rep.probes.insert(format!("h2cl:{}:{}", p.shape, if obs1.aborted.is_some() { "reset" } else if obs1.answered { "answered" } else { "nothing" }), 1);
    if let Some(e) = &o.boot_error { rep.harness_error = Some(format!("worker boot failed: {e}")); }
    let dbg = if log { format!("{}\nviolations: {:#?}\n{}", rep.summary, rep.violations, super::c14::debug_mux(&p.mux)) } else { String::new() };
    (rep, dbg)
}
