//! C03, family `early_response`: a backend that answers BEFORE it has read the whole request body, or
//! dies in the middle of an upload, while the bytes of the body that are still to come spell complete
//! HTTP/1.1 requests of their own (`GET /smuggled-<n>` ...).
//!
//! The client (HTTP/1.1 on the plain listener, or HTTP/2 over TLS) sends ONE upload `POST /upload-1`
//! whose body - by Content-Length or chunked - is `filler + hidden requests`, optionally followed by a
//! genuine second request `GET /follow-2` (keep-alive / next stream). The HTTP/1.1 backend acts once it
//! has read the head plus `mark` body bytes: it answers (any status) and keeps reading, answers and
//! closes (announced or silently), or closes without answering. The client sends the rest of the body
//! after it has seen the answer (`wait = answer`), at its own pace whatever happens (`wait = none`), or
//! - HTTP/2 only - resets the stream after the answer instead of finishing it (`wait = cancel`).
//!
//! Oracle (from the property text; three readers as in c03.rs):
//!   R_c  what the client sent: the upload (declared length N, body bytes known), then the follow-up;
//!   R_b  strict RFC 9112 reading (`c03_ref`, `Mode::Backend`) of the raw bytes of EVERY backend
//!        connection, plus two lenient scans of the same bytes (marker paths, `Sozu-Id:` lines);
//!   the client-visible outcome.
//! (a) every backend byte stream is a strict sequence of requests written by sozu (each carries sozu's
//!     own lines); only the last one may be cut, and what is cut must be the beginning of one of the
//!     client's two requests;
//! (b) the requests the backends saw are the requests sozu accounted for: only `/upload-1` and
//!     `/follow-2` exist. A request line with a `/smuggled-` marker path must never reach a backend as
//!     a request of its own - neither written by sozu as a request (decorated: sozu re-read body bytes
//!     as a request) nor verbatim at a message boundary (undecorated: sozu forwarded bytes it never
//!     parsed) - and the client must never receive an answer that carries a hidden request's id. The
//!     hidden requests always lie inside the declared length of the upload, so the exemption of the
//!     task statement ("unless ... it really was the next request") never applies to them; it applies
//!     to `/follow-2`, which must reach a backend iff the client received its 200;
//! (c) the body of the upload as a backend received it (complete or cut) is a prefix of the body the
//!     client sent, a complete one is the whole body, and no line written by sozu (`Sozu-Id:`) stands
//!     inside the bytes a backend reads as body: a connection that is still owed body bytes was not
//!     handed to another request, and the rest of a body never continues on another connection;
//! (d) the client gets at most one answer per request it sent and no answer to anything else; no
//!     silence (every wait ends by an answer or a close within the give-up time).
//!
//! Latitude taken where RFC 9112 / 9110 leave it (none of these is reported):
//!   * after an early final answer sozu may relay it and close the client connection instead of reading
//!     the rest of the body (RFC 9112 9.6), or keep reading: the rest may then be forwarded to the SAME
//!     backend connection as body bytes, or be discarded - it must not be re-interpreted;
//!   * the upload may therefore stay cut at the backend in every plan of this family, and the follow-up
//!     may stay unanswered if the connection was closed (HTTP/2: stream refused / reset / GOAWAY);
//!   * a backend that dies mid-upload: 502 / 503 / 504 or a plain close; the upload may appear (cut) on
//!     several backend connections only as a replay from its first byte by sozu itself, never completed
//!     twice;
//!   * an answer made by sozu (no `x-sim-id`) that is the last thing on a connection which is then
//!     closed counts as "explicit close" (same convention as c03.rs);
//!   * HTTP/2: DATA for a stream sozu has already finished may be answered by RST_STREAM or GOAWAY.
//!
//! Two defects of the unchanged tree are recorded (known_findings.json), each behind a trigger computed
//! from the plan only; the triggers exclude each other and about two plans in three carry neither:
//!   1. `body_reinterpreted_as_request  rest_of_upload_read_as_new_request|trigger=h1_frontend_early_final_answer`
//!      (HTTP/1.1 frontend + the backend sends a complete final answer while body bytes are owed);
//!   2. `backend_connection_reused_while_body_owed  next_request_written_into_owed_body|trigger=
//!      h2_frontend_early_final_answer_then_client_reset` (HTTP/2 frontend + keep-alive early answer + the
//!      client resets the stream instead of finishing the upload + a follow-up stream).
//! In a plan that carries a trigger every symptom (marker request at the backend, answer with a hidden id,
//! non-strict stream, 400 for the leftovers ...) is reported under that one class/key with the symptom in
//! the detail; panics, hangs and harness problems keep their own keys. Everywhere else each symptom has
//! its own class and a key `symptom|early=<front>/<backend action>`.
//!
//! Not judged here: header provenance (C13 / the grammar families), the bytes of the answers (C01), what
//! happens when the early answer itself is cut (C02).
use std::collections::BTreeMap;

use serde::{Deserialize, Serialize};

use super::c03::generator as g;
use super::c03::reference::{read_stream, show, Mode, Req, Stop};
use crate::actors::h1::*;
use crate::actors::h2::{BodyPlan, ClientOp, EndMode, H2ClientPlan, H2ConnPlan, H2ReqSpec, SettingsSpec, WuMode, WuPolicy, AbuseOp, StreamRef};
use crate::actors::tls::TlsPlan;
use crate::actors::{Pace, Quantum};
use crate::framework::*;
use crate::muxscn::{run_mux, BackendRecords, MuxBackend, MuxCluster, MuxOutcome, MuxPlan};
use crate::netsim::{self, Knobs};
use crate::prng::{Prng, TraceHash};
use crate::scenario::*;
use crate::world::{SchedCfg, MS, SEC};

pub const VICTIM: u64 = 1;
pub const FOLLOW: u64 = 2;
const HOST: &str = g::HOST;

/// What the plan is about: everything the oracle and the shrinker need; `build` turns it into a scenario.
#[derive(Clone, Debug, Serialize, Deserialize, PartialEq)]
pub struct Params {
    /// "h1" | "h2"
    pub front: String,
    pub chunked: bool,
    pub filler: usize,
    /// hidden requests in the body, in order: (id, is POST with a 5-byte body, Host)
    pub hidden: Vec<(u64, bool, String)>,
    /// answer_keep | answer_close | answer_silent_close | die
    pub action: String,
    pub status: u16,
    pub resp_body: BodySpec,
    pub resp_delay_ns: u64,
    /// the backend acts once it has read the head plus this many (decoded) body bytes
    pub mark: u64,
    /// decoded body bytes the client has sent when it stops to wait (== body length when it does not wait)
    pub split: usize,
    /// answer | none | cancel
    pub wait: String,
    pub follow: bool,
    /// HTTP/2: the follow-up stream is opened before the rest of the upload is sent
    pub follow_first: bool,
    /// HTTP/2: error code of the client's RST_STREAM (wait = cancel)
    pub rst_code: u32,
    /// HTTP/2: the first part of the body goes out in two DATA frames, cut here
    pub first_cut: Option<usize>,
    /// HTTP/2: the rest of the body goes out in one DATA frame per hidden request
    pub tail_per_hidden: bool,
    /// HTTP/2: pause between the follow-up HEADERS and the rest of the upload
    pub follow_gap_ns: u64,
    /// HTTP/1.1, wait = none: both requests are written without waiting for answers
    pub pipeline: bool,
    pub buffer_size: u64,
}

/// Pacing and schedule: everything that is not the situation itself.
#[derive(Clone, Debug, Serialize, Deserialize)]
pub struct Timing {
    pub client_pace: Pace,
    pub backend_pace: Pace,
    pub sched: SchedCfg,
    pub sndbufs: Option<Vec<i32>>,
    pub client_sndbuf: Option<i32>,
    pub start_ns: u64,
    pub think_ns: u64,
    pub listen_delay_ns: u64,
}
impl Timing {
    pub fn plain() -> Timing { Timing { client_pace: Pace::greedy(), backend_pace: Pace::greedy(), sched: SchedCfg::default(), sndbufs: None, client_sndbuf: None, start_ns: 1000, think_ns: 0, listen_delay_ns: 0 } }
    fn is_plain(&self) -> bool { serde_json::to_value(self).ok() == serde_json::to_value(Timing::plain()).ok() }
}

#[derive(Clone, Debug, Serialize, Deserialize)]
pub struct EarlyPlan {
    /// marks the plan for the dispatcher in c03.rs
    pub early: bool,
    pub seed: u64,
    pub params: Params,
    pub timing: Timing,
    /// the scenario that is run (built from `params` and `timing`; the run never looks at anything else)
    pub http: Option<HttpPlan>,
    pub mux: Option<MuxPlan>,
    /// the body of the upload as the client means it (decoded): filler, then the hidden requests
    pub body: Vec<u8>,
}

impl std::ops::Deref for EarlyPlan { type Target = Params; fn deref(&self) -> &Params { &self.params } }

pub const KNOWN_CLASS: &str = "body_reinterpreted_as_request";
pub const KNOWN_KEY: &str = "rest_of_upload_read_as_new_request|trigger=h1_frontend_early_final_answer";
pub const KNOWN2_CLASS: &str = "backend_connection_reused_while_body_owed";
pub const KNOWN2_KEY: &str = "next_request_written_into_owed_body|trigger=h2_frontend_early_final_answer_then_client_reset";

impl EarlyPlan {
    fn family(&self) -> String { format!("early_response:{}:{}", self.front, self.action) }
    /// plan-level name of the situation, used in every key
    fn situation(&self) -> String { format!("{}/{}", self.front, self.action) }
    /// Plan-level triggers of the two recorded defects (computed from the plan only; they exclude each other):
    /// 1. HTTP/1.1 frontend, the backend sends a complete final answer while body bytes of the upload are owed;
    /// 2. HTTP/2 frontend, the backend sends a complete final answer that keeps its connection alive, the client
    ///    resets the stream instead of finishing the upload and then opens another stream.
    pub fn known_trigger(&self) -> Option<(&'static str, &'static str)> {
        if self.front == "h1" && self.action.starts_with("answer") { return Some((KNOWN_CLASS, KNOWN_KEY)); }
        if self.front == "h2" && self.action == "answer_keep" && self.wait == "cancel" && self.follow { return Some((KNOWN2_CLASS, KNOWN2_KEY)); }
        None
    }
}

fn hidden_request(h: &(u64, bool, String)) -> Vec<u8> {
    let (id, post, host) = h;
    if *post { format!("POST /smuggled-{id} HTTP/1.1\r\nHost: {host}\r\nx-sim-id: {id}\r\nContent-Length: 5\r\n\r\nhello").into_bytes() }
    else { format!("GET /smuggled-{id} HTTP/1.1\r\nHost: {host}\r\nx-sim-id: {id}\r\n\r\n").into_bytes() }
}

fn follow_bytes() -> Vec<u8> { format!("GET /follow-{FOLLOW} HTTP/1.1\r\nHost: {HOST}\r\nx-sim-id: {FOLLOW}\r\n\r\n").into_bytes() }

/// The upload's body and the decoded offsets at which the hidden requests start.
fn body_of(pr: &Params) -> (Vec<u8>, Vec<usize>) {
    let mut body: Vec<u8> = g::payload(7, pr.filler);
    let mut starts = Vec::new();
    for h in &pr.hidden { starts.push(body.len()); body.extend_from_slice(&hidden_request(h)); }
    (body, starts)
}

/// Chunked wire form of `body` cut at the decoded offsets `cuts` (ascending, inside the body); returns the wire
/// bytes and, per chunk, (decoded offset of its first byte, wire offset right behind its size line).
fn chunked_wire(body: &[u8], cuts: &[usize]) -> (Vec<u8>, Vec<(usize, usize)>) {
    let mut out = Vec::new();
    let mut starts = Vec::new();
    let mut bounds: Vec<usize> = vec![0];
    for c in cuts { if *c > *bounds.last().unwrap() && *c < body.len() { bounds.push(*c); } }
    bounds.push(body.len());
    for w in bounds.windows(2) {
        if w[1] == w[0] { continue; }
        out.extend_from_slice(format!("{:x}\r\n", w[1] - w[0]).as_bytes());
        starts.push((w[0], out.len()));
        out.extend_from_slice(&body[w[0]..w[1]]);
        out.extend_from_slice(b"\r\n");
    }
    out.extend_from_slice(b"0\r\n\r\n");
    (out, starts)
}

pub fn generate(seed: u64, _tier: Tier) -> EarlyPlan {
    let mut rng = Prng::derive(seed, "c03/early");
    let h2 = rng.below(5) < 2;
    let chunked = rng.below(3) == 0;
    let filler = *rng.pick(&[0usize, 1, 10, 50, 50, 200, 700, 3000, 17000]);
    let filler = if h2 { filler.min(3000) } else { filler };
    let nh = 1 + rng.below(2) as usize;
    let hidden: Vec<(u64, bool, String)> = (0..nh).map(|i| (501 + i as u64, rng.below(3) == 0, match rng.below(6) { 0 => "localhost", 1 => "nowhere.test", _ => HOST }.to_string())).collect();
    // the known triggers (h1 + a complete early answer; h2 + keep-alive answer + client reset) in fewer than half of the plans
    let action = if h2 { *rng.pick(&["answer_keep", "answer_keep", "answer_keep", "answer_close", "answer_silent_close", "die", "die"]) } else { *rng.pick(&["answer_keep", "answer_keep", "answer_close", "answer_silent_close", "die", "die", "die", "die"]) };
    let wait = if h2 { *rng.pick(&["answer", "answer", "answer", "none", "cancel"]) } else { *rng.pick(&["answer", "answer", "none"]) };
    let wait = if wait == "cancel" && action == "die" { "answer" } else { wait };
    let mut pr = Params {
        front: if h2 { "h2" } else { "h1" }.into(), chunked, filler, hidden, action: action.into(), status: *rng.pick(&[200u16, 200, 401, 403, 413, 413, 500]),
        resp_body: match rng.below(4) { 0 => BodySpec::Cl(0), 1 => BodySpec::Chunked(vec![5]), _ => BodySpec::Cl(1 + rng.below(30) as usize) },
        resp_delay_ns: rng.below(2) * rng.below(3 * MS), mark: 0, split: 0, wait: wait.into(), follow: rng.below(3) != 0, follow_first: false, rst_code: *rng.pick(&[0u32, 8]),
        first_cut: None, tail_per_hidden: rng.below(2) == 0, follow_gap_ns: rng.below(2) * rng.below(3 * MS), pipeline: rng.below(2) == 0, buffer_size: *rng.pick(&[16393u64, 16393, 16400, 32768]),
    };
    pr.follow_first = h2 && pr.follow && rng.below(2) == 0;
    let (body, hidden_starts) = body_of(&pr);
    let n = body.len();
    // where the client stops to wait: mostly exactly in front of the first hidden request
    pr.split = match rng.below(6) { 0 => rng.below(n as u64) as usize, 1 => *hidden_starts.last().unwrap(), _ => filler };
    if wait == "none" { pr.split = n; }
    let reach = pr.split as u64;
    pr.mark = match rng.below(5) { 0 => 0, 1 => reach / 2, 2 => reach.saturating_sub(1), _ => reach }.min(reach);
    if wait == "none" && rng.below(2) == 0 { pr.mark = (filler as u64).min(pr.mark); }
    if h2 && pr.split > 1 && rng.below(2) == 0 { pr.first_cut = Some(1 + rng.below(pr.split as u64 - 1) as usize); }
    let wire_total = n + 400;
    let mut client_pace = Pace::random_budget(&mut rng, wire_total, if h2 { 100_000_000 } else { 600_000_000 });
    if !h2 && wire_total <= 4096 {
        match rng.below(6) { 0 => client_pace.wq = Quantum::Fixed(1), 1 => client_pace.wq = Quantum::Uniform(1, 4), 2 => client_pace.wq = Quantum::Fixed(2 + rng.below(40) as usize), _ => {} }
        if matches!(client_pace.wq, Quantum::Fixed(1) | Quantum::Uniform(1, 4)) && client_pace.gap_pm > 0 { client_pace.gap_ns = client_pace.gap_ns.min(600_000_000 / (wire_total as u64 + 1)).max(1); }
    }
    let faulty = rng.below(3) == 0;
    let timing = Timing {
        client_pace, backend_pace: Pace::random_budget(&mut rng, n + 600, 200_000_000), sched: netsim::default_sched(&mut rng, faulty),
        sndbufs: if !h2 && rng.below(3) == 0 { Some(vec![0, 4608, 9216, 32768]) } else { None }, client_sndbuf: if !h2 && rng.below(4) == 0 { Some(*rng.pick(&[4608, 9216])) } else { None },
        start_ns: 1000 + rng.below(2) * rng.below(2 * MS), think_ns: rng.below(2) * rng.below(5 * MS), listen_delay_ns: if h2 { 0 } else { rng.below(2) * rng.below(5 * MS) },
    };
    build(seed, pr, timing)
}

/// Scenario of a situation. Normalises `split` / `mark` / `wait` to what the scenario really does.
pub fn build(seed: u64, mut pr: Params, timing: Timing) -> EarlyPlan {
    let h2 = pr.front == "h2";
    let (body, hidden_starts) = body_of(&pr);
    let n = body.len();
    pr.split = pr.split.min(n);
    if pr.wait == "none" { pr.split = n; }
    let mut head = format!("POST /upload-{VICTIM} HTTP/1.1\r\nHost: {HOST}\r\nx-sim-id: {VICTIM}\r\n").into_bytes();
    // ---- HTTP/1.1 client: the wire form and where it is cut
    let mut h1_elements: Vec<(u64, &str, Vec<u8>)> = Vec::new();
    if !h2 {
        let (wire_body, wire_split) = if pr.chunked {
            head.extend_from_slice(b"Transfer-Encoding: chunked\r\n\r\n");
            let mut cuts = vec![pr.filler];
            cuts.extend(hidden_starts.iter().copied());
            let (w, starts) = chunked_wire(&body, &cuts);
            // the client stops right behind the size line of a chunk: what is left begins with that chunk's data
            let ws = if pr.split >= n { w.len() } else { let (d, o) = starts.iter().find(|(d, _)| *d >= pr.split).or(starts.last()).copied().unwrap_or((n, w.len())); pr.split = d; o };
            (w, ws)
        } else {
            head.extend_from_slice(format!("Content-Length: {n}\r\n\r\n").as_bytes());
            (body.clone(), pr.split)
        };
        let mut whole = head.clone();
        whole.extend_from_slice(&wire_body);
        let cut = head.len() + wire_split;
        if pr.wait == "answer" && cut < whole.len() {
            pr.pipeline = false;
            h1_elements.push((VICTIM, "POST", whole[..cut].to_vec()));
            let mut rest = whole[cut..].to_vec();
            if pr.follow { rest.extend_from_slice(&follow_bytes()); }
            h1_elements.push((FOLLOW, "GET", rest));
        } else {
            pr.wait = "none".into();
            pr.split = n;
            h1_elements.push((VICTIM, "POST", whole));
            if pr.follow { h1_elements.push((FOLLOW, "GET", follow_bytes())); }
        }
    }
    if pr.wait == "cancel" && (!h2 || pr.action == "die") { pr.wait = "answer".into(); }
    pr.mark = pr.mark.min(pr.split as u64);
    if !h2 { pr.follow_first = false; pr.first_cut = None; }
    if !pr.follow || pr.wait == "cancel" { pr.follow_first = false; }
    // ---- the backend
    let mut spec = RespSpec::ok(pr.resp_body.clone());
    spec.status = pr.status;
    spec.early_after_body = Some(pr.mark);
    spec.delay_ns = pr.resp_delay_ns;
    match pr.action.as_str() {
        "answer_close" => spec.close_after = true,
        "answer_silent_close" => spec.silent_close_after = true,
        "die" => spec.fault = Some(RespFault::CloseAt(0)),
        _ => {}
    }
    let mut responses = BTreeMap::new();
    responses.insert(VICTIM, spec);
    let backend = BackendPlan { name: "b0".into(), addr: "10.1.0.1:8000".parse().unwrap(), pace: timing.backend_pace.clone(), responses, default: RespSpec::ok(BodySpec::Cl(3)), close_on_accept: vec![], listen_from_ns: 0, listen_until_ns: 0 };
    let fam = format!("early_response:{}:{}", pr.front, pr.action);
    let mut p = EarlyPlan { early: true, seed, params: pr.clone(), timing: timing.clone(), http: None, mux: None, body: body.clone() };
    if !h2 {
        let mut knobs = Knobs::default();
        knobs.front_timeout = 6;
        knobs.request_timeout = 4;
        knobs.back_timeout = 5;
        knobs.connect_timeout = 2;
        knobs.buffer_size = pr.buffer_size;
        let front: std::net::SocketAddr = "10.0.0.1:80".parse().unwrap();
        let requests = h1_elements.into_iter().map(|(id, method, b)| ReqSpec { id, method: method.into(), host: HOST.into(), path: "/".into(), headers: vec![], body: BodySpec::None, raw: Some(b) }).collect();
        let client = ClientPlan {
            name: "cl0".into(), src: "192.0.2.7:40001".parse().unwrap(), dst: front, start_ns: timing.start_ns, pace: timing.client_pace.clone(), pipeline: pr.pipeline, requests,
            abort: None, sndbuf: timing.client_sndbuf, think_ns: timing.think_ns, linger_ns: 300 * MS, give_up_ns: 60 * SEC, wait_board: None,
        };
        p.http = Some(HttpPlan {
            seed, family: fam, knobs, sched: timing.sched.clone(), front,
            clusters: vec![ClusterPlan { id: "c0".into(), host: HOST.into(), backends: vec![(backend, BackendMode::Listen { delay_ns: timing.listen_delay_ns })] }],
            clients: vec![client],
            sndbufs: timing.sndbufs.clone(),
            settle_ns: 300 * MS,
            extra_frontends: vec![("localhost".into(), Some("c0".into()))],
        });
    } else {
        let mut knobs = Knobs::default();
        knobs.front_timeout = 10;
        knobs.request_timeout = 5;
        knobs.back_timeout = 6;
        knobs.connect_timeout = 2;
        let https_front: std::net::SocketAddr = "10.0.0.1:443".parse().unwrap();
        let mut victim = H2ReqSpec::post(VICTIM, HOST, &format!("/upload-{VICTIM}"), 0);
        victim.body = BodyPlan { len: 0, frames: vec![], pad: vec![], end: EndMode::Never, content_length: false };
        if !pr.chunked { victim.headers.push(("content-length".into(), n.to_string())); }
        let follow_req = H2ReqSpec::get(FOLLOW, HOST, &format!("/follow-{FOLLOW}"));
        // the upload is the first stream of the connection
        let vsid: u32 = 1;
        let data = |bytes: &[u8], end: bool| ClientOp::Abuse(AbuseOp::Frame { ty: 0, flags: if end { 1 } else { 0 }, stream: StreamRef::Id(vsid), declared_len: None, payload: bytes.to_vec() });
        let split = pr.split;
        let mut script = vec![ClientOp::Req(victim)];
        if split > 0 {
            let a = pr.first_cut.filter(|a| *a > 0 && *a < split).unwrap_or(split);
            script.push(data(&body[..a], false));
            if a < split { script.push(data(&body[a..split], false)); }
        }
        let rest = |script: &mut Vec<ClientOp>| {
            if split < n {
                let cutp: Vec<usize> = hidden_starts.iter().copied().filter(|s| *s > split).collect();
                if cutp.is_empty() || !pr.tail_per_hidden { script.push(data(&body[split..], true)); }
                else { let mut at = split; for c in cutp { script.push(data(&body[at..c], false)); at = c; } script.push(data(&body[at..], true)); }
            } else { script.push(data(&[], true)); }
        };
        match pr.wait.as_str() {
            "none" => {
                if pr.follow_first { script.push(ClientOp::Req(follow_req.clone())); }
                rest(&mut script);
                if pr.follow && !pr.follow_first { script.push(ClientOp::Req(follow_req.clone())); }
            }
            "cancel" => {
                script.push(ClientOp::WaitStreams);
                script.push(ClientOp::Abuse(AbuseOp::Frame { ty: 3, flags: 0, stream: StreamRef::Id(vsid), declared_len: None, payload: pr.rst_code.to_be_bytes().to_vec() }));
                if pr.follow { script.push(ClientOp::Req(follow_req.clone())); }
            }
            _ => {
                script.push(ClientOp::WaitStreams);
                if pr.follow_first { script.push(ClientOp::Req(follow_req.clone())); if pr.follow_gap_ns > 0 { script.push(ClientOp::Sleep(pr.follow_gap_ns)); } }
                rest(&mut script);
                if pr.follow && !pr.follow_first { script.push(ClientOp::Req(follow_req.clone())); }
            }
        }
        script.push(ClientOp::WaitStreams);
        script.push(ClientOp::Sleep(20 * MS));
        let mut c = H2ClientPlan::simple("h2c0", "192.0.2.7:40001".parse().unwrap(), https_front, Some(TlsPlan::h2(HOST)), vec![]);
        c.script = script;
        c.start_ns = timing.start_ns;
        c.give_up_ns = 40 * SEC;
        c.pace = timing.client_pace.clone();
        let mut conn = H2ConnPlan::default();
        let mut s = SettingsSpec::default();
        s.enable_push = Some(0);
        conn.settings = s;
        conn.wu = WuPolicy { stream: WuMode::WhenExhausted, conn: WuMode::Threshold(30000), fallback_ns: 30 * MS };
        c.conn = conn;
        c.max_concurrent = 100;
        p.mux = Some(MuxPlan {
            seed, family: fam, knobs, sched: timing.sched.clone(),
            http_front: "10.0.0.1:80".parse().unwrap(), https_front,
            clusters: vec![MuxCluster { id: "c0".into(), host: HOST.into(), backend: MuxBackend::H1(backend), mode: BackendMode::Listen { delay_ns: 0 } }],
            h1_clients: vec![], h2_clients: vec![c], sndbufs: None, settle_ns: 100 * MS, soft_stop_at_ns: None, h2_deadline_secs: None,
        });
    }
    p.params = pr;
    p
}

// ------------------------------------------------------------------------------------------ oracle

fn find(hay: &[u8], needle: &[u8], from: usize) -> Option<usize> {
    if from >= hay.len() || needle.is_empty() { return None; }
    hay[from..].windows(needle.len()).position(|w| w == needle).map(|p| p + from)
}
fn lower(b: &[u8]) -> Vec<u8> { b.to_ascii_lowercase() }
fn decorated(r: &Req) -> bool { r.has("sozu-id") }
fn lossy(b: &[u8]) -> String { show(b) }

#[derive(Default)]
pub struct BackSeen {
    pub victim_complete: usize,
    pub victim_cut: usize,
    pub follow_complete: usize,
    pub requests: usize,
    pub digest: Vec<String>,
}

/// (a) (b) (c): every backend connection.
pub fn judge_backends(p: &EarlyPlan, recs: &[&BackConnRecord], v: &mut Vec<Violation>, probes: &mut BTreeMap<String, u64>) -> BackSeen {
    let sit = p.situation();
    let mut seen = BackSeen::default();
    let own_heads: Vec<Vec<u8>> = vec![format!("POST /upload-{VICTIM} HTTP/1.1\r\n").into_bytes(), format!("GET /follow-{FOLLOW} HTTP/1.1\r\n").into_bytes()];
    for rec in recs {
        if rec.raw_in_total as usize != rec.raw_in.len() { v.push(Violation::new("harness", "raw_in_truncated", "backend stream longer than the recorded 1 MiB".to_string())); }
        let raw = &rec.raw_in;
        if raw.is_empty() { continue; }
        let rb = read_stream(raw, Mode::Backend);
        let items: Vec<(&Req, bool)> = rb.reqs.iter().map(|r| (r, true)).chain(rb.tail.iter().map(|r| (r, false))).collect();
        seen.requests += rb.reqs.len();
        let low = lower(raw);
        // ---- (b) lenient scan: a marker request line inside a header block that sozu wrote
        let mut at = 0;
        let mut marker_reported = false;
        while let Some(m) = find(raw, b" /smuggled-", at) {
            at = m + 1;
            let line_start = raw[..m].iter().rposition(|c| *c == b'\n').map_or(0, |i| i + 1);
            // the marker's own header block: its lines up to the blank line, or up to the next request line
            let mut by_sozu = false;
            let mut lp = raw[m..].iter().position(|c| *c == b'\n').map_or(raw.len(), |i| m + i + 1);
            while lp < raw.len() {
                let le = raw[lp..].iter().position(|c| *c == b'\n').map_or(raw.len(), |i| lp + i + 1);
                let l = &low[lp..le];
                let l = l.strip_suffix(b"\n").unwrap_or(l);
                let l = l.strip_suffix(b"\r").unwrap_or(l);
                if l.is_empty() || l.ends_with(b" http/1.1") || l.ends_with(b" http/1.0") { break; }
                if l.starts_with(b"sozu-id:") { by_sozu = true; break; }
                lp = le;
            }
            let strict_own = items.iter().any(|(r, _)| r.start == line_start);
            if (by_sozu || strict_own) && !marker_reported {
                marker_reported = true;
                v.push(Violation::new(KNOWN_CLASS, format!("marker_request_at_backend:{}|early={sit}", if by_sozu { "written_by_sozu" } else { "verbatim" }), format!("backend conn {}: a request line with a marker path stands at offset {line_start} as a request of its own ({}): the client sent these bytes as body of POST /upload-{VICTIM} (declared length {}, {}). Stream: {:?}", rec.idx, if by_sozu { "its header block carries sozu's own Sozu-Id line: sozu read body bytes as a request, routed and forwarded it" } else { "at a message boundary of the strict reader, without sozu's lines: bytes sozu never parsed as a request" }, p.body.len(), if p.chunked { "chunked" } else { "Content-Length" }, show_long(raw))));
            }
        }
        // ---- (c) a line written by sozu inside what the backend reads as a body
        for (r, _) in &items {
            let body_end = if r.complete { r.end } else { raw.len() };
            if let Some(x) = find(&low[..body_end], b"\r\nsozu-id:", r.head_end.saturating_sub(2)) {
                v.push(Violation::new("backend_connection_reused_while_body_owed", format!("sozu_line_inside_body|early={sit}"), format!("backend conn {}: the request id={:?} at offset {} still owes body bytes by its declared length, and inside the bytes the backend reads as its body stands a header line written by sozu (offset {x}): the connection was handed to another request. Stream: {:?}", rec.idx, r.id, r.start, show_long(raw))));
                break;
            }
        }
        // ---- (a) strictness
        if let Some((r, _)) = items.iter().find(|(r, _)| !decorated(r)) {
            v.push(Violation::new("forwarded_unparsed_request", format!("undecorated_request|early={sit}"), format!("backend conn {} received a request without sozu's own header lines (Sozu-Id / X-Forwarded-*) at offset {}: sozu never parsed it as a request. Stream: {:?}", rec.idx, r.start, show_long(raw))));
        }
        match &rb.stop {
            Stop::Reject { at, why } => v.push(Violation::new("backend_stream_not_strict", format!("{why}|early={sit}"), format!("backend conn {}: the strict reader stops at offset {at} ({why}); stream: {:?}", rec.idx, show_long(raw)))),
            Stop::Incomplete { at } if rb.tail.is_none() => {
                let part = &raw[*at..];
                let own = own_heads.iter().any(|h| if part.len() >= h.len() { part.starts_with(h) } else { h.starts_with(part) });
                if !own { v.push(Violation::new("backend_stream_not_strict", format!("partial_foreign_head|early={sit}"), format!("backend conn {}: the stream ends inside a header block that does not begin like one of the client's two requests, at offset {at}: {:?}", rec.idx, show(part)))); }
                else { *probes.entry("backend_partial_head_of_own_request".into()).or_insert(0) += 1; }
            }
            _ => {}
        }
        // ---- (b) (c) identity and body of every request
        let mut d = String::new();
        for (r, complete) in &items {
            d += &format!("[{} {} id={:?} {} body={}]", lossy(&r.method), lossy(&r.target), r.id, if *complete { "complete" } else { "cut" }, r.body.len());
            match r.id {
                Some(VICTIM) => {
                    let want_target = format!("/upload-{VICTIM}");
                    if r.method != b"POST" || r.target != want_target.as_bytes() || !r.host.as_ref().map_or(false, |h| h.eq_ignore_ascii_case(HOST.as_bytes())) {
                        v.push(Violation::new("boundary_disagreement", format!("field=head|early={sit}"), format!("backend conn {}: the upload arrived as {} {} host {:?}", rec.idx, lossy(&r.method), lossy(&r.target), r.host.as_ref().map(|h| lossy(h)))));
                    }
                    if let (false, super::c03::reference::Framing::Cl(nb)) = (p.chunked, &r.framing) {
                        if *nb != p.body.len() as u64 { v.push(Violation::new("boundary_disagreement", format!("field=declared_length|early={sit}"), format!("backend conn {}: the upload declares Content-Length {nb} at the backend, {} at the client", rec.idx, p.body.len()))); }
                    }
                    if *complete {
                        seen.victim_complete += 1;
                        if r.body != p.body { let at = r.body.iter().zip(p.body.iter()).position(|(a, b)| a != b).unwrap_or(r.body.len().min(p.body.len())); v.push(Violation::new("boundary_disagreement", format!("field=body|early={sit}"), format!("backend conn {}: the complete body of the upload ({} bytes) differs from what the client sent ({} bytes) at offset {at}: backend has {:?}", rec.idx, r.body.len(), p.body.len(), show(&r.body[at.min(r.body.len())..])))); }
                    } else {
                        seen.victim_cut += 1;
                        if !p.body.starts_with(&r.body) { let at = r.body.iter().zip(p.body.iter()).position(|(a, b)| a != b).unwrap_or(p.body.len()); v.push(Violation::new("boundary_disagreement", format!("field=body|early={sit}"), format!("backend conn {}: the {} body bytes the backend has of the upload are not a prefix of the client's body; they part at offset {at}: backend has {:?}", rec.idx, r.body.len(), show(&r.body[at.min(r.body.len())..])))); }
                    }
                }
                Some(FOLLOW) if p.follow => {
                    let want_target = format!("/follow-{FOLLOW}");
                    if r.method != b"GET" || r.target != want_target.as_bytes() || !r.body.is_empty() || !*complete { v.push(Violation::new("boundary_disagreement", format!("field=follow_up|early={sit}"), format!("backend conn {}: the follow-up arrived as {} {} with {} body bytes, complete={complete}", rec.idx, lossy(&r.method), lossy(&r.target), r.body.len()))); }
                    else { seen.follow_complete += 1; }
                }
                other => {
                    if !lossy(&r.target).contains("/smuggled-") || !marker_reported {
                        v.push(Violation::new("boundary_disagreement", format!("field=extra_request|early={sit}"), format!("backend conn {}: a request the client never sent as a request: {} {} id={other:?}", rec.idx, lossy(&r.method), lossy(&r.target))));
                    }
                }
            }
        }
        seen.digest.push(format!("B{} {d} stop={}", rec.idx, match &rb.stop { Stop::End => "end".to_string(), Stop::Incomplete { .. } => "incomplete".into(), Stop::Reject { why, .. } => format!("reject:{why}") }));
    }
    if seen.victim_complete > 1 { v.push(Violation::new("boundary_disagreement", format!("field=upload_completed_twice|early={sit}"), format!("the upload reached the backends complete {} times", seen.victim_complete))); }
    if seen.follow_complete > 1 { v.push(Violation::new("boundary_disagreement", format!("field=follow_up_twice|early={sit}"), format!("the follow-up reached the backends {} times", seen.follow_complete))); }
    seen
}

fn panic_key(pn: &str) -> String {
    let mut k = String::new();
    let mut last_digit = false;
    for c in pn.chars().take(90) { if c.is_ascii_digit() { if !last_digit { k.push('N'); } last_digit = true; } else { k.push(if c == ' ' { '_' } else { c }); last_digit = false; } }
    k
}

fn judge_h1(p: &EarlyPlan, http: &HttpPlan, o: &HttpOutcome, probes: &mut BTreeMap<String, u64>) -> (Vec<Violation>, Vec<String>, bool) {
    let sit = p.situation();
    let mut v = Vec::new();
    if let Some(pn) = &o.panicked { v.push(Violation::new("panic", format!("worker:{}", panic_key(pn)), pn.clone())); }
    if let Some(a) = &o.aborted { v.push(Violation::new("hang", format!("run_aborted:{a}"), format!("simulation aborted: {a}"))); }
    let recs: Vec<&BackConnRecord> = o.backends.iter().flatten().flatten().collect();
    let seen = judge_backends(p, &recs, &mut v, probes);
    let mut digest = seen.digest.clone();
    // ---- (d) the client
    let oc = &o.clients[0];
    let cp = &http.clients[0];
    let stream: Vec<u8> = cp.requests.iter().flat_map(|r| r.render()).collect();
    let follow_len = if p.follow { follow_bytes().len() } else { 0 };
    let victim_len = stream.len() - follow_len;
    let sent = oc.rec.sent_bytes;
    let victim_sent = sent >= victim_len;
    let follow_sent = p.follow && sent >= stream.len();
    let all: Vec<&crate::actors::h1codec::Msg> = oc.responses.iter().chain(oc.partial.iter()).collect();
    digest.push(format!("C {}", all.iter().map(|m| format!("{}:{:?}{}", m.status(), m.sim_id, if m.complete { "" } else { "(cut)" })).collect::<Vec<_>>().join(" ")));
    if let Some(e) = &oc.rec.parse_error { v.push(Violation::new("malformed_response", format!("client_parse|early={sit}"), format!("the response stream is not HTTP: {e}"))); }
    if oc.rec.gave_up { v.push(Violation::new("hang", format!("no_terminal_observation|early={sit}"), format!("neither all answers nor a close within {} virtual seconds; got {} responses, sent {sent} of {} bytes", cp.give_up_ns / SEC, oc.responses.len(), stream.len()))); }
    let closed = oc.rec.eof || oc.rec.reset || oc.rec.io_err.is_some();
    let mut answers: Vec<&crate::actors::h1codec::Msg> = oc.responses.iter().collect();
    // "answer made by sozu, then close" == close
    while closed && answers.last().map_or(false, |m| m.sim_id.is_none() && m.status() >= 400) { let m = answers.pop().unwrap(); *probes.entry(format!("trailing_proxy_answer:{}:{}", p.action, m.status())).or_insert(0) += 1; }
    for m in &all {
        if let Some(id) = m.sim_id { if p.hidden.iter().any(|h| h.0 == id) {
            v.push(Violation::new(KNOWN_CLASS, format!("marker_answered_to_client|early={sit}"), format!("the client received an answer ({}) that carries the id {id} of a request hidden in the body of its upload: it sent ONE upload{}, the answers it got: {:?}", m.start, if p.follow { " and one follow-up" } else { "" }, all.iter().map(|m| (m.status(), m.sim_id)).collect::<Vec<_>>())));
            break;
        } }
    }
    let n_victim = all.iter().filter(|m| m.sim_id == Some(VICTIM)).count();
    let n_follow = all.iter().filter(|m| m.sim_id == Some(FOLLOW)).count();
    if n_victim > 1 || n_follow > 1 { v.push(Violation::new("boundary_disagreement", format!("field=answered_twice|early={sit}"), format!("answers: {:?}", all.iter().map(|m| (m.status(), m.sim_id)).collect::<Vec<_>>()))); }
    let started = 1 + if p.follow && sent > victim_len { 1 } else { 0 };
    if answers.len() > started {
        v.push(Violation::new("client_answers_exceed_requests", format!("answers={}:requests={started}|early={sit}", answers.len()), format!("the client sent {started} request(s) ({} of {} bytes) and received {} answers that are not a closing error page: {:?}", sent, stream.len(), answers.len(), all.iter().map(|m| (m.status(), m.sim_id)).collect::<Vec<_>>())));
    }
    for m in answers.iter().filter(|m| m.sim_id.is_none()) {
        let s = m.status();
        *probes.entry(format!("proxy_answer:{}:{s}", p.action)).or_insert(0) += 1;
        let fine = [400u16, 408, 413, 502, 503, 504].contains(&s);
        if !fine { v.push(Violation::new("unexpected_proxy_status", format!("status={s}|early={sit}"), format!("sozu answered {:?}", m.start))); }
    }
    // the follow-up: at a backend iff answered 200 to the client
    let follow_200 = all.iter().filter(|m| m.sim_id == Some(FOLLOW) && m.status() == 200 && m.complete).count();
    if seen.follow_complete != follow_200 { v.push(Violation::new("boundary_disagreement", format!("field=pairing|early={sit}"), format!("the follow-up reached a backend {} times, the client received {follow_200} complete 200 answers for it; answers: {:?}", seen.follow_complete, all.iter().map(|m| (m.status(), m.sim_id)).collect::<Vec<_>>()))); }
    if seen.follow_complete > 0 && !follow_sent { v.push(Violation::new("boundary_disagreement", format!("field=follow_up_not_sent|early={sit}"), "the follow-up reached a backend although the client had not sent it completely".to_string())); }
    // a connection that stays open owes an answer for every request completed
    if !closed && !oc.rec.gave_up {
        let completed = if victim_sent { 1 } else { 0 } + if follow_sent { 1 } else { 0 };
        if answers.len() < completed { v.push(Violation::new("hang", format!("request_unanswered_on_open_connection|early={sit}"), format!("{completed} requests completed, {} answers, connection still open", answers.len()))); }
    }
    *probes.entry(format!("client_end:{}", if oc.rec.gave_up { "gave_up" } else if closed { "closed_by_sozu" } else { "all_answers" })).or_insert(0) += 1;
    *probes.entry(format!("upload_at_backend:{}:{}", p.action, if seen.victim_complete > 0 { "complete" } else if seen.victim_cut > 0 { "cut" } else { "absent" })).or_insert(0) += 1;
    if seen.follow_complete > 0 { *probes.entry("follow_up_served".into()).or_insert(0) += 1; }
    let early_fired = recs.iter().any(|r| !r.early.is_empty());
    if early_fired { *probes.entry(format!("backend_acted_early:{}", p.action)).or_insert(0) += 1; }
    (v, digest, early_fired)
}

fn judge_h2(p: &EarlyPlan, o: &MuxOutcome, probes: &mut BTreeMap<String, u64>) -> (Vec<Violation>, Vec<String>, bool) {
    let sit = p.situation();
    let mut v = Vec::new();
    if let Some(pn) = &o.panicked { v.push(Violation::new("panic", format!("worker:{}", panic_key(pn)), pn.clone())); }
    if let Some(a) = &o.aborted { v.push(Violation::new("hang", format!("run_aborted:{a}"), format!("simulation aborted: {a}"))); }
    let rec = &o.h2_clients[0];
    if rec.connect_err.is_some() || rec.tls.as_ref().map_or(false, |t| !t.handshake_done) { v.push(Violation::new("harness", "client_setup", "client could not connect".to_string())); return (v, vec![], false); }
    let empty = Vec::new();
    let brecs = match &o.backends[0] { BackendRecords::H1(r) => r, _ => &empty };
    let recs: Vec<&BackConnRecord> = brecs.iter().collect();
    let seen = judge_backends(p, &recs, &mut v, probes);
    let mut digest = seen.digest.clone();
    for s in rec.streams.values() {
        digest.push(format!("S{} req={:?} status={:?} sim_id={:?} end={} rst={:?}", s.id, s.req_id, s.status, s.sim_id, s.recv_end, s.recv_rst));
        if let Some(id) = s.sim_id { if p.hidden.iter().any(|h| h.0 == id) { v.push(Violation::new(KNOWN_CLASS, format!("marker_answered_to_client|early={sit}"), format!("stream {} carries an answer with the id {id} of a request hidden in the upload's body", s.id))); } }
        if s.req_id == Some(VICTIM) && s.sim_id.is_some() && s.sim_id != Some(VICTIM) { v.push(Violation::new("boundary_disagreement", format!("field=answer_of_other_request|early={sit}"), format!("the upload's stream received the answer of request {:?}", s.sim_id))); }
    }
    if rec.gave_up { v.push(Violation::new("hang", format!("no_terminal_observation|early={sit}"), format!("the client gave up after {} virtual seconds: streams {:?}", p.mux.as_ref().map_or(0, |m| m.h2_clients[0].give_up_ns / SEC), rec.streams.values().map(|s| (s.id, s.status, s.recv_end, s.recv_rst)).collect::<Vec<_>>()))); }
    // the follow-up: intact, or explicitly not processed
    if p.follow {
        let st2 = rec.stream_for(FOLLOW);
        let answered = st2.map_or(false, |s| s.status.is_some());
        let refused = rec.requests_not_sent.contains(&FOLLOW) || st2.map_or(true, |s| s.refused_by_goaway || (s.recv_rst.is_some() && s.status.is_none())) || (!rec.goaways.is_empty() && !answered) || ((rec.eof || rec.reset || rec.io_err.is_some()) && !answered);
        let ok200 = st2.map_or(false, |s| s.status == Some(200) && s.sim_id == Some(FOLLOW) && s.recv_end && s.body_ok());
        if !refused && !ok200 && !rec.gave_up {
            let s = st2.map(|s| (s.status, s.sim_id, s.body_len, s.recv_end, s.recv_rst));
            // sozu's own error answer on the follow-up stream is an explicit refusal as well
            let proxy_err = st2.map_or(false, |s| s.sim_id.is_none() && s.status.map_or(false, |c| c >= 400));
            if proxy_err { *probes.entry(format!("follow_up_proxy_error:{}:{}", p.action, st2.and_then(|s| s.status).unwrap_or(0))).or_insert(0) += 1; }
            else { v.push(Violation::new("honest_request_harmed", format!("follow_up|early={sit}"), format!("the follow-up stream: {s:?}"))); }
        }
        let n200 = if ok200 { 1 } else { 0 };
        if seen.follow_complete != n200 && !(seen.follow_complete == 1 && n200 == 0 && (rec.eof || rec.reset || rec.io_err.is_some() || !rec.goaways.is_empty())) {
            v.push(Violation::new("boundary_disagreement", format!("field=pairing|early={sit}"), format!("the follow-up reached a backend {} times, the client received {n200} complete 200 answers for it (stream {:?})", seen.follow_complete, st2.map(|s| (s.status, s.sim_id, s.recv_end, s.recv_rst)))));
        }
        if ok200 { *probes.entry("follow_up_served".into()).or_insert(0) += 1; }
    }
    for lv in &rec.violations { v.push(Violation::new("frame_stream_broken", format!("{}|early={sit}", lv.kind), format!("client ledger: {lv:?}"))); }
    *probes.entry(format!("upload_at_backend:{}:{}", p.action, if seen.victim_complete > 0 { "complete" } else if seen.victim_cut > 0 { "cut" } else { "absent" })).or_insert(0) += 1;
    let early_fired = recs.iter().any(|r| !r.early.is_empty());
    if early_fired { *probes.entry(format!("backend_acted_early:{}", p.action)).or_insert(0) += 1; }
    let vs = rec.stream_for(VICTIM);
    *probes.entry(format!("h2_upload_stream:{}", match vs { Some(s) if s.recv_rst.is_some() && s.status.is_none() => "reset".to_string(), Some(s) => format!("status_{}", s.status.unwrap_or(0)), None => "none".into() })).or_insert(0) += 1;
    (v, digest, early_fired)
}

pub fn summarize(p: &EarlyPlan) -> String {
    format!("{} {} body={}B filler={} hidden={:?} mark={} split={} wait={} status={} follow={}{}", p.family(), if p.chunked { "chunked" } else { "content-length" }, p.body.len(), p.filler, p.hidden.iter().map(|h| h.0).collect::<Vec<_>>(), p.mark, p.split, p.wait, p.status, p.follow, if p.follow_first { "(first)" } else { "" })
}

pub fn run(p: &EarlyPlan, log: bool) -> (RunReport, String) {
    let mut probes = BTreeMap::new();
    let mut dbg = String::new();
    let (mut violations, digest, early_fired, trace, stats, boot_error) = if let Some(http) = &p.http {
        let o = run_http(http, log);
        let (v, d, e) = judge_h1(p, http, &o, &mut probes);
        if log { dbg = debug_h1(p, http, &o); }
        (v, d, e, o.trace_hash, o.stats.clone(), o.boot_error.clone())
    } else if let Some(mux) = &p.mux {
        let o = run_mux(mux, log);
        let (v, d, e) = judge_h2(p, &o, &mut probes);
        if log { dbg = debug_h2(p, &o); }
        (v, d, e, o.trace_hash, o.stats.clone(), o.boot_error.clone())
    } else {
        return (RunReport { harness_error: Some("early plan without a scenario".into()), ..Default::default() }, String::new());
    };
    // every symptom in a plan that carries the recorded trigger is reported under the one key of the finding
    if let Some((kc, kk)) = p.known_trigger() {
        let mut collapsed: Vec<Violation> = Vec::new();
        for x in violations.drain(..) {
            let x = if ["panic", "hang", "harness"].contains(&x.class.as_str()) { x } else { Violation::new(kc, kk, format!("[symptom {} / {}] {}", x.class, x.key, x.detail)) };
            if !collapsed.iter().any(|y| y.class == x.class && y.key == x.key) { collapsed.push(x); }
        }
        violations = collapsed;
    }
    let mut dedup: Vec<Violation> = Vec::new();
    for x in violations { if !dedup.iter().any(|y| y.class == x.class && y.key == x.key) { dedup.push(x); } }
    let mut th = TraceHash::new();
    th.mix(trace);
    for l in &digest { th.mix_bytes(l.as_bytes()); }
    for x in &dedup { th.mix_bytes(x.class.as_bytes()); th.mix_bytes(x.key.as_bytes()); }
    *probes.entry(format!("early_plan:{}:{}:{}", p.front, p.action, p.wait)).or_insert(0) += 1;
    if let Some((_, kk)) = p.known_trigger() { *probes.entry(format!("early_plan_has_known_trigger:{}", kk.split("trigger=").nth(1).unwrap_or(""))).or_insert(0) += 1; }
    let mut rep = RunReport { seed: p.seed, family: p.family(), violations: dedup, trace_hash: th.0, stats, summary: summarize(p), ..Default::default() };
    rep.nontrivial = early_fired;
    rep.probes = probes;
    if let Some(e) = boot_error { rep.harness_error = Some(format!("worker boot failed: {e}")); }
    if log { dbg = format!("{}\n{}\n{}\nviolations: {:#?}", summarize(p), dbg, digest.join("\n"), rep.violations); }
    (rep, dbg)
}

pub fn shrink(p: &EarlyPlan) -> Vec<EarlyPlan> {
    let mut out = Vec::new();
    if !p.timing.is_plain() { out.push(build(p.seed, p.params.clone(), Timing::plain())); }
    let mut cand = |f: &dyn Fn(&mut Params)| { let mut q = p.params.clone(); f(&mut q); if q != p.params { let b = build(p.seed, q, p.timing.clone()); if b.params != p.params { out.push(b); } } };
    cand(&|q| q.follow = false);
    cand(&|q| { if q.hidden.len() > 1 { q.hidden.pop(); } });
    cand(&|q| { for h in q.hidden.iter_mut() { h.1 = false; h.2 = HOST.to_string(); } });
    // a shorter filler keeps the client's stopping point in front of the same hidden request
    cand(&|q| { if q.filler > 10 { let d = q.filler - 10; q.filler = 10; q.split = q.split.saturating_sub(d); q.mark = q.mark.saturating_sub(d as u64); q.first_cut = None; } });
    cand(&|q| { q.resp_body = BodySpec::Cl(0); q.resp_delay_ns = 0; });
    cand(&|q| q.status = 200);
    cand(&|q| q.mark = 0);
    cand(&|q| q.chunked = false);
    cand(&|q| { q.first_cut = None; q.tail_per_hidden = false; q.follow_gap_ns = 0; q.buffer_size = 16393; });
    out
}

fn show_long(b: &[u8]) -> String {
    let mut s = String::new();
    for c in b.iter().take(900) {
        match *c {
            b'\r' => s.push_str("\\r"),
            b'\n' => s.push_str("\\n"),
            0x20..=0x7e => s.push(*c as char),
            x => s.push_str(&format!("\\x{x:02x}")),
        }
    }
    if b.len() > 900 { s.push_str(&format!("...(+{})", b.len() - 900)); }
    s
}

fn debug_backends(recs: &[&BackConnRecord]) -> String {
    let mut s = String::new();
    for r in recs {
        let rb = read_stream(&r.raw_in, Mode::Backend);
        s += &format!("backend conn {}: {} bytes eof={} closed_by_us={} io_err={:?} actor_parse_error={:?} early={:?} responded={:?}\n  raw: {:?}\n  R_b: {} requests tail={:?} stop={:?}\n", r.idx, r.raw_in.len(), r.eof, r.closed_by_us, r.io_err, r.parse_error, r.early, r.responded, show_long(&r.raw_in), rb.reqs.len(), rb.tail.as_ref().map(|t| (t.id, t.body.len())), rb.stop);
    }
    s
}

fn debug_h1(_p: &EarlyPlan, http: &HttpPlan, o: &HttpOutcome) -> String {
    let mut s = String::new();
    for (i, r) in http.clients[0].requests.iter().enumerate() { s += &format!("client element {i}: {:?}\n", show_long(&r.render())); }
    if std::env::var("SIMK_LOG").is_ok() { for l in &o.log { s += l; s.push('\n'); } }
    for (i, c) in o.clients.iter().enumerate() {
        s += &format!("client {i}: sent={} recv={} eof={} err={:?} gave_up={}\n", c.rec.sent_bytes, c.rec.recv_bytes, c.rec.eof, c.rec.io_err, c.rec.gave_up);
        for m in c.responses.iter().chain(c.partial.iter()) { s += &format!("  response {:?} id={:?} complete={} headers={:?} body={:?}\n", m.start, m.sim_id, m.complete, m.headers, String::from_utf8_lossy(&m.body_head[..m.body_head.len().min(60)])); }
    }
    let recs: Vec<&BackConnRecord> = o.backends.iter().flatten().flatten().collect();
    s += &debug_backends(&recs);
    s += &format!("panicked={:?} aborted={:?}\n", o.panicked, o.aborted);
    s
}

fn debug_h2(p: &EarlyPlan, o: &MuxOutcome) -> String {
    let mut s = String::new();
    if let Some(m) = &p.mux { s += &format!("script: {:?}\n", m.h2_clients[0].script.iter().map(|op| match op { ClientOp::Req(r) => format!("Req({} {})", r.method, r.path), ClientOp::Abuse(AbuseOp::Frame { ty, flags, payload, .. }) => format!("Frame(ty={ty} flags={flags} {:?})", show(payload)), other => format!("{other:?}") }).collect::<Vec<_>>()); }
    if std::env::var("SIMK_LOG").is_ok() { for l in &o.log { s += l; s.push('\n'); } }
    let rec = &o.h2_clients[0];
    s += &format!("h2 client: eof={} reset={} io_err={:?} gave_up={} goaways={:?} rst_recv={:?} not_sent={:?} violations={:?}\n", rec.eof, rec.reset, rec.io_err, rec.gave_up, rec.goaways, rec.rst_recv, rec.requests_not_sent, rec.violations);
    for st in rec.streams.values() { s += &format!("  stream {} req={:?} status={:?} sim_id={:?} body={} end={} rst={:?}\n", st.id, st.req_id, st.status, st.sim_id, st.body_len, st.recv_end, st.recv_rst); }
    if let BackendRecords::H1(r) = &o.backends[0] { let recs: Vec<&BackConnRecord> = r.iter().collect(); s += &debug_backends(&recs); }
    s += &format!("panicked={:?} aborted={:?}\n", o.panicked, o.aborted);
    s
}
