//! C06 — applying the computed difference always reaches the target configuration.
//!
//! Two tiers, chosen per seed: the model tier below, and for one seed in `WORKER_ONE_IN` (plus the systematic pairs of
//! `enumerated`) the worker tier of c06_net.rs: a real worker holding A receives diff(A,B) and is compared with B's
//! projections and with a second worker given B directly (plan field `worker`).
//!
//! modelsim tier on `ConfigState::diff`. Pairs (A, B) of reachable configurations: A = result of history `a`;
//! B = result of history `b` applied on top of A ("same history" pairs when `b` is the continuation of the
//! history, "near" pairs when `b` is one targeted mutation: a listener's activation or one field, a frontend's
//! tags, a backend id at a second address, the certificate set …) or on an empty instance ("unrelated").
//! Both directions are checked: diff(A,B) applied to A must give B, diff(B,A) applied to B must give A.
//!
//! Oracle (metamorphic): every request of the difference is accepted in order by an instance holding the
//! source; the result equals the target (map-by-map, `request_counts` excluded, empty buckets normalised,
//! order inside buckets ignored); the difference of a configuration with itself is empty. The difference is
//! computed on one thread under one hash seed and applied on another thread, under another hash seed, to a
//! source rebuilt there from the history (which must equal the first build).
#![allow(dead_code)]
use std::collections::{BTreeMap, BTreeSet};

use serde_json::{json, Value};
use sozu_command_lib::proto::command::Request;
use sozu_command_lib::state::ConfigState;

use super::c07::err_name;
use super::cfggen::{self, delta_sig_fields, pair_features, state_delta, GenOpts, Mem};
use crate::framework::*;
use crate::prng::{Prng, TraceHash};
use crate::world::{SchedCfg, World};

pub struct C06;

/// one seed in `WORKER_ONE_IN` is a worker-tier plan (`{"worker": NetPlan}`, c06_net.rs); SIMK_C06_ONLY=worker|model
/// restricts a batch to one tier (development / sensitivity runs)
pub const WORKER_ONE_IN: u64 = 16;
/// (thorough tier: one seed in 64, the histories are longer)
pub fn is_worker_seed(seed: u64, tier: Tier) -> bool {
    let n = match tier { Tier::Quick => WORKER_ONE_IN, Tier::Thorough => 4 * WORKER_ONE_IN };
    match std::env::var("SIMK_C06_ONLY").as_deref() { Ok("worker") => true, Ok("model") => false, _ => (seed >> 9) % n == 0 }
}
fn worker_of(plan: &Value) -> Option<Result<super::c06_net::NetPlan, RunReport>> {
    let t = plan.get("worker")?;
    Some(serde_json::from_value(t.clone()).map_err(|e| RunReport { harness_error: Some(format!("bad worker plan: {e}")), ..Default::default() }))
}

pub fn generate(seed: u64, tier: Tier) -> Value {
    if is_worker_seed(seed, tier) { return json!({"worker": super::c06_net::generate(seed, tier)}); }
    let mut rng = Prng::derive(seed, "c06/plan");
    let mut o = GenOpts::swarm(&mut rng);
    o.symbolic_certs = true;
    // diff needs populated states: fewer wholly invalid commands than C07
    o.invalid_pm = o.invalid_pm.min(80);
    o.partial_pm = o.partial_pm.min(100);
    let max = match tier { Tier::Quick => 40, Tier::Thorough => 120 };
    let len = *rng.pick(&[4usize, 8, 16, 30, max]);
    let (a, mut mem) = cfggen::gen_history_mem(&mut rng, len, &o, Mem::default());
    let (fam, base, b): (&str, &str, Vec<Request>) = match rng.below(8) {
        0 | 1 => { let n = 1 + rng.below(len as u64) as usize; ("same_history", "a", cfggen::gen_history_mem(&mut rng, n, &o, mem).0) }
        2 => { let n = 1 + rng.below(len as u64) as usize; ("unrelated", "empty", cfggen::gen_history(&mut rng, n, &o)) }
        3 => { let mut b = Vec::new(); for _ in 0..2 + rng.below(3) { b.extend(cfggen::gen_near_mutation(&mut rng, &o, &mut mem)); } ("near_chain", "a", b) }
        _ => ("near", "a", cfggen::gen_near_mutation(&mut rng, &o, &mut mem)),
    };
    json!({"seed": seed, "family": fam, "seed_a": rng.next_u64(), "seed_b": rng.next_u64(), "a": cfggen::ops_to_value(&a), "b_base": base, "b": cfggen::ops_to_value(&b)})
}

fn build(a: &[Request], b: &[Request], on_a: bool) -> (ConfigState, ConfigState, u64) {
    let mut sa = ConfigState::new();
    let mut acc = 0u64;
    for r in a { if sa.dispatch(r).is_ok() { acc += 1; } }
    let mut sb = if on_a { sa.clone() } else { ConfigState::new() };
    for r in b { if sb.dispatch(r).is_ok() { acc += 1; } }
    (sa, sb, acc)
}

struct Computed { a: ConfigState, b: ConfigState, ab: Vec<Request>, ba: Vec<Request>, aa: Vec<Request>, bb: Vec<Request>, accepted: u64 }

struct Out { violations: Vec<Violation>, hash: u64, probes: BTreeMap<String, u64>, nontrivial: bool }

fn features_for(map: &str, feats: &BTreeSet<&'static str>) -> String {
    let rel: Vec<&str> = feats.iter().copied().filter(|f| match map {
        "backends" => *f == "dup_backend_id",
        "tcp_fronts" => *f == "tcp_fronts_sharing_address",
        "udp_fronts" => *f == "udp_fronts_sharing_address",
        "certificates:changed" => *f == "same_fingerprint_other_attributes" || *f == "certificate_without_names",
        _ => false,
    }).collect();
    if rel.is_empty() { String::new() } else { format!("+{}", rel.join("+")) }
}

fn apply_and_compare(dir: &str, source: &ConfigState, target: &ConfigState, diff: &[Request], feats: &BTreeSet<&'static str>, v: &mut Vec<Violation>, th: &mut TraceHash, probes: &mut BTreeMap<String, u64>) {
    let mut s = source.clone();
    for (i, r) in diff.iter().enumerate() {
        let verb = cfggen::verb_name(r);
        *probes.entry(format!("diff_request/{verb}")).or_insert(0) += 1;
        match s.dispatch(r) {
            Ok(()) => th.mix(1),
            Err(e) => {
                th.mix(2);
                let map = match verb { "RemoveBackend" | "AddBackend" => "backends", "RemoveTcpFrontend" | "AddTcpFrontend" => "tcp_fronts", "RemoveUdpFrontend" | "AddUdpFrontend" => "udp_fronts", _ => "" };
                v.push(Violation::new("diff_rejected", format!("{verb}|{}{}", err_name(&e), features_for(map, feats)), format!("{dir}: request #{i} of {} in the difference ({verb}) was rejected by the source configuration: {e}", diff.len())));
            }
        }
    }
    let d = state_delta(target, &s, false);
    th.mix(d.len() as u64);
    let mut seen = BTreeSet::new();
    for x in &d {
        // from the target's point of view: `removed` = the target has it, the result does not
        let fmap = if x.map == "certificates" { if x.kind == cfggen::DeltaKind::Changed { "certificates:changed" } else { "" } } else { x.map };
        let key = format!("{}{}", x.sig().replace(":removed", ":missing").replace(":added", ":extra"), features_for(fmap, feats));
        if seen.insert(key.clone()) {
            v.push(Violation::new("diff_not_converging", key, format!("{dir}: after applying the {} requests of the difference the configuration is not the target: {} ({} differences: {})", diff.len(), x.describe(), d.len(), delta_sig_fields(&d))));
        }
    }
}

fn run(a: Vec<Request>, b: Vec<Request>, on_a: bool, seed_a: u64, seed_b: u64) -> Out {
    let (a1, b1) = (a.clone(), b.clone());
    let c = crate::netsim::on_fresh_thread(move || {
        let mut w = World::new(seed_a, SchedCfg::default());
        World::install(&mut w);
        let (sa, sb, accepted) = build(&a1, &b1, on_a);
        let c = Computed { ab: sa.diff(&sb), ba: sb.diff(&sa), aa: sa.diff(&sa), bb: sb.diff(&sb), a: sa, b: sb, accepted };
        World::uninstall();
        c
    });
    crate::netsim::on_fresh_thread(move || {
        let mut w = World::new(seed_b, SchedCfg::default());
        World::install(&mut w);
        let mut th = TraceHash::new();
        let mut v: Vec<Violation> = Vec::new();
        let mut probes: BTreeMap<String, u64> = BTreeMap::new();
        // sources rebuilt under this thread's hash seed
        let (a2, b2, _) = build(&a, &b, on_a);
        for (name, x, y) in [("A", &c.a, &a2), ("B", &c.b, &b2)] {
            let d = state_delta(x, y, true);
            if !d.is_empty() { v.push(Violation::new("state_depends_on_hash_seed", delta_sig_fields(&d), format!("configuration {name} built from the same history under two hash seeds differs: {}", d.iter().take(3).map(|x| x.describe()).collect::<Vec<_>>().join("; ")))); }
        }
        // evidence that the two threads really hash differently: bucket iteration order of equal maps
        if c.b.tcp_fronts.len() >= 3 {
            *probes.entry("hashmaps_with_3plus_buckets".into()).or_insert(0) += 1;
            if c.b.tcp_fronts.keys().ne(b2.tcp_fronts.keys()) { *probes.entry("hashmap_iteration_order_differs_between_seeds".into()).or_insert(0) += 1; }
        }
        cfggen::state_hash(&c.a, &mut th);
        cfggen::state_hash(&c.b, &mut th);
        th.mix(c.accepted);
        let feats = pair_features(&c.a, &c.b);
        for f in &feats { *probes.entry(format!("pair_feature/{f}")).or_insert(0) += 1; }
        let differ = !state_delta(&c.a, &c.b, false).is_empty();
        probes.insert("pairs_differing".into(), differ as u64);
        probes.insert("diff_requests".into(), (c.ab.len() + c.ba.len()) as u64);
        th.mix(c.ab.len() as u64); th.mix(c.ba.len() as u64);
        apply_and_compare("A->B", &a2, &c.b, &c.ab, &feats, &mut v, &mut th, &mut probes);
        apply_and_compare("B->A", &b2, &c.a, &c.ba, &feats, &mut v, &mut th, &mut probes);
        for (name, d) in [("A", &c.aa), ("B", &c.bb)] {
            if let Some(r) = d.first() { v.push(Violation::new("diff_of_equal_not_empty", cfggen::verb_name(r).to_string(), format!("diff({name},{name}) has {} requests, first {}", d.len(), cfggen::verb_name(r)))); }
        }
        // a difference between configurations that are equal (after normalisation) should be empty as well
        if !differ && (!c.ab.is_empty() || !c.ba.is_empty()) { *probes.entry("nonempty_diff_between_equal_states".into()).or_insert(0) += 1; }
        World::uninstall();
        let mut seen = BTreeSet::new();
        v.retain(|x| seen.insert((x.class.clone(), x.key.clone())));
        Out { violations: v, hash: th.0, probes, nontrivial: differ && (c.ab.len() + c.ba.len()) > 0 }
    })
}

impl Property for C06 {
    fn id(&self) -> &'static str { "C06" }
    fn runs(&self, tier: Tier) -> u64 { match tier { Tier::Quick => 60_000, Tier::Thorough => 1_500_000 } }
    fn gen_plan(&self, seed: u64, tier: Tier) -> Value {
        if let Some(p) = super::hubcfg::dispatch_gen("C06", seed, tier) { return p; } // hubcfg: main-process tier
        generate(seed, tier)
    }
    fn run_plan(&self, plan: &Value) -> RunReport {
        if let Some(t) = worker_of(plan) { return match t { Ok(p) => super::c06_net::run_report(&p), Err(r) => r }; }
        if let Some(r) = super::hubcfg::dispatch_run(plan) { return r; } // hubcfg
        let (a, b) = match (cfggen::ops_from_value(&plan["a"]), cfggen::ops_from_value(&plan["b"])) { (Ok(a), Ok(b)) => (a, b), (Err(e), _) | (_, Err(e)) => return RunReport { harness_error: Some(format!("bad plan: {e}")), ..Default::default() } };
        let on_a = plan["b_base"].as_str() != Some("empty");
        let summary = format!("A=[{}] B={}+[{}]", cfggen::summarize_ops(&a), if on_a { "A" } else { "empty" }, cfggen::summarize_ops(&b));
        let has_replace = a.iter().chain(b.iter()).any(|r| matches!(r.request_type, Some(sozu_command_lib::proto::command::request::RequestType::ReplaceCertificate(_))));
        let mut o = run(a, b, on_a, plan["seed_a"].as_u64().unwrap_or(0), plan["seed_b"].as_u64().unwrap_or(1));
        // see c05.rs: certificate keys carry the plan-level trigger of CFG-S2
        for v in o.violations.iter_mut() {
            if v.key.to_ascii_lowercase().contains("certificate") && !v.key.contains("same_fingerprint_other_attributes") { v.key = format!("{}|{}", v.key, if has_replace { "replace_certificate_in_history" } else { "no_replace_certificate" }); }
        }
        let mut rep = RunReport { seed: plan["seed"].as_u64().unwrap_or(0), family: plan["family"].as_str().unwrap_or("").into(), violations: o.violations, trace_hash: o.hash, summary, ..Default::default() };
        rep.nontrivial = o.nontrivial;
        rep.probes = o.probes;
        rep
    }
    fn enumerated(&self, _tier: Tier) -> Vec<Value> {
        if std::env::var("SIMK_C06_ONLY").as_deref() == Ok("model") { return vec![]; }
        super::c06_net::systematic().into_iter().map(|p| json!({"worker": p})).collect()
    }
    fn shrink(&self, plan: &Value) -> Vec<Value> {
        if let Some(t) = worker_of(plan) { return match t { Ok(p) => super::c06_net::shrink(&p).into_iter().map(|q| json!({"worker": q})).collect(), Err(_) => vec![] }; }
        if let Some(c) = super::hubcfg::dispatch_shrink(plan) { return c; } // hubcfg
        let mut out: Vec<Value> = Vec::new();
        for which in ["b", "a"] {
            out.extend(cfggen::shrink_ops(&plan[which]).into_iter().map(|ops| { let mut p = plan.clone(); p[which] = ops; p }));
        }
        out
    }
    fn debug_plan(&self, plan: &Value) -> String {
        if let Some(t) = worker_of(plan) { return match t { Ok(p) => super::c06_net::debug(&p), Err(r) => format!("{:?}", r.harness_error) }; }
        if let Some(d) = super::hubcfg::dispatch_debug(plan) { return d; } // hubcfg
        let (Ok(a), Ok(b)) = (cfggen::ops_from_value(&plan["a"]), cfggen::ops_from_value(&plan["b"])) else { return "bad plan".into() };
        let on_a = plan["b_base"].as_str() != Some("empty");
        let (sa, sb, _) = build(&a, &b, on_a);
        let mut s = format!("A = {sa:#?}\nB = {sb:#?}\n");
        for (n, d) in [("diff(A,B)", sa.diff(&sb)), ("diff(B,A)", sb.diff(&sa))] {
            s += &format!("{n}:\n");
            for r in d { s += &format!("   {}\n", serde_json::to_string(&r).unwrap_or_default().chars().take(300).collect::<String>()); }
        }
        s
    }
    fn descr(&self) -> Descr {
        Descr {
            level: "exploration",
            rule: "two tiers, chosen per seed (1 seed in 16 is a worker-tier plan; plan field `worker`). MODEL TIER: seeded pairs of reachable configurations (same history / unrelated histories / near pairs: one targeted mutation); diff computed under one hash seed, applied under another, both directions; a run is non-trivial when the two configurations differ and the difference has >=1 request. WORKER TIER (c06_net.rs, observation code of c07_probe.rs): pairs over the worker-bootstrappable part of the configuration space (HTTP / HTTPS / TCP listeners, clusters with answer templates, frontends, backends, certificates): A = a valid base + 0-3 well-formed commands, B = A + 1 (near) / 1-6 (continuation) / 6-12 (far) further well-formed commands, both built by the master's ConfigState::dispatch; diff(A,B) computed on its own thread under its own hash seed. Worker 1 (real Server::run under the libc seam) is booted holding A - as its InitialState or by receiving A's bootstrap requests - and receives every request of the difference from the scripted master over a fragmented command stream, in groups of 1 / 3 / all; worker 2, a fresh worker under another seed in the same plan, receives B's own bootstrap requests. Oracle: every request of the difference is answered OK (unless worker 2 refuses the very same request); worker 1's QueryClustersHashes / QueryClusterById / QueryClustersByDomain / QueryCertificatesFromWorkers(fingerprint) answers equal B's hash_state / cluster_state / get_cluster_ids_by_domain / get_certificates (the master's code: agreement is judged); worker 1 and worker 2 give equal answers to every query (incl. the certificate listings of the live TLS resolvers) and equal results for every probe (10-20 fresh connections: per listener unknown host / cluster without backend / basic auth / routed hosts, certificate per SNI, TCP relay, addresses where nothing should listen). Keys are `symptom|features of the pair`, the features read from A and B as built from the plan; the changes that trigger recorded findings (a listener changed / (de)activated / added / removed, a cluster re-sent, a cluster's last backend removed, a certificate re-loaded under other names) are allowed one kind per plan, in half of the plans. Plus 7 systematic pairs on a fixed A (one per such kind, one harmless). Non-trivial (worker tier) when A and B differ and the difference has >=1 request. distinct = distinct hashes (model: configuration contents, diff sizes, per-request results; worker: both scheduler traces, answers, observations)",
            assumptions: vec!["release semantics (debug assertions off: the debug-only replay check inside diff never runs)", "`request_counts` is not configuration", "an empty bucket equals an absent one; order inside a bucket is not configuration", "worker tier: which backend of a cluster answers, and whether a close arrives as FIN or RST, are not configuration; a TCP listener has at most one frontend (it relays to one cluster)"],
            real: vec!["ConfigState::{dispatch, diff}", "diff_map merge join, Backend ordering", "certificate parsing / fingerprinting", "worker tier: ConfigState::produce_initial_state, sozu_lib::server::Server (bootstrap from InitialState, notify_proxys, listener (de)activation), HttpProxy / HttpsProxy / TcpProxy command handlers, HttpAnswers, router, CertificateResolver + rustls handshakes, mux H1 sessions, the worker side of the command channel"],
            stub: vec!["clock", "entropy (HashMap / HashSet seeds)", "worker tier: master process (scripted, own framing codec), HTTP/1.1 probe clients (plain and over rustls), HTTP/1.1 backends"],
            not_covered: vec!["worker tier: UDP listeners / frontends; pairs of unrelated configurations with different listener sets (every such pair carries the triggers of C06-W1); the difference applied while traffic is in flight; B -> A direction (model tier only)"],
        }
    }
}
