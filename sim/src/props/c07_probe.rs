//! Shared by the worker tiers of C07 and C06: the *observation* of a running worker.
//!
//! An observation is (a) the worker's queryable view — `QueryClustersHashes`, `QueryClusterById` per cluster of the
//! alphabet, `QueryClustersByDomain` per hostname, `QueryCertificatesFromWorkers` (all / per domain / per fingerprint),
//! `QueryMaxConnectionsPerIp` — each answer reduced to a canonical string, and (b) its behaviour on a fixed probe set:
//! for every probe a fresh connection to a listener address (plain, or TLS with a given SNI), one HTTP/1.1 request,
//! and what came back: refused / never accepted / closed without answer / status + who produced the answer
//! (backend marker `x-backend: c<k>-b<j>`, or the marker inside a sozu-generated answer body: every custom template
//! of the plans carries `L<code>-l<listener>-v<n>` or `C<code>-c<cluster>-v<n>`), the name of the sticky cookie, and
//! on TLS the certificate served.
//!
//! Nothing here judges; c07_net.rs / c06_net.rs compare observations.
#![allow(dead_code)]
use std::any::Any;
use std::collections::BTreeMap;
use std::net::SocketAddr;

use serde::{Deserialize, Serialize};
use sozu_command_lib::proto::command::{
    request::RequestType, QueryCertificatesFilters, QueryClusterByDomain, QueryClustersHashes, QueryMaxConnectionsPerIp, Request, ResponseStatus, WorkerResponse,
};

use crate::actors::h1::{BackendPlan, BodySpec, H1Backend, RespSpec};
use crate::actors::master::{MOp, Master, MasterData};
use crate::actors::tls::{ReadOutcome, TlsPlan, TlsTransport, TlsVersions, Transport};
use crate::actors::{rd, wr, Io, Pace};
use crate::prng::Prng;
use crate::sys;
use crate::world::{Actor, ConnectMode, Step, World, MS, SEC};

// ------------------------------------------------------------------------------------------ probes

#[derive(Clone, Copy, Debug, Serialize, Deserialize, PartialEq, Eq, PartialOrd, Ord)]
pub enum PKind {
    /// plain HTTP/1.1 request (HTTP listener, or relayed by a TCP listener to an HTTP backend)
    Http,
    /// TLS handshake with `sni`, then the HTTP/1.1 request inside
    Https,
}

#[derive(Clone, Debug, Serialize, Deserialize, PartialEq)]
pub struct ProbeSpec {
    pub kind: PKind,
    pub addr: SocketAddr,
    pub host: String,
    pub path: String,
    pub method: String,
    /// Https only: server name sent (None = no SNI extension)
    pub sni: Option<String>,
}
impl ProbeSpec {
    pub fn http(addr: SocketAddr, host: &str, path: &str) -> ProbeSpec { ProbeSpec { kind: PKind::Http, addr, host: host.into(), path: path.into(), method: "GET".into(), sni: None } }
    pub fn https(addr: SocketAddr, host: &str, path: &str) -> ProbeSpec { ProbeSpec { kind: PKind::Https, addr, host: host.into(), path: path.into(), method: "GET".into(), sni: Some(host.into()) } }
    pub fn name(&self) -> String { format!("{}://{}@{}{} {}", if self.kind == PKind::Https { "https" } else { "http" }, self.host, self.addr, self.path, self.method) }
}

/// What one probe saw. `sig` = everything that must be equal for "same behaviour"; `class` = coarse form used in keys.
#[derive(Clone, Debug, PartialEq, Default)]
pub struct ProbeObs {
    pub sig: String,
    pub class: String,
}

/// normalise a sozu-generated body: request ids (ULIDs: 26 characters of Crockford base32) are per request
fn normalise_body(b: &[u8]) -> Vec<u8> {
    let is_ulid_ch = |c: u8| c.is_ascii_digit() || (c.is_ascii_uppercase() && !matches!(c, b'I' | b'L' | b'O' | b'U'));
    let mut out = Vec::with_capacity(b.len());
    let mut i = 0;
    while i < b.len() {
        if is_ulid_ch(b[i]) {
            let mut j = i;
            while j < b.len() && is_ulid_ch(b[j]) { j += 1; }
            if j - i == 26 { out.push(b'#'); } else { out.extend_from_slice(&b[i..j]); }
            i = j;
        } else { out.push(b[i]); i += 1; }
    }
    out
}
pub fn fnv(b: &[u8]) -> u64 { let mut h = 0xcbf29ce484222325u64; for c in b { h = (h ^ *c as u64).wrapping_mul(0x100000001b3); } h }

/// find a template marker `L404-l0-v2` / `C503-c1-v0` in a body
fn marker(body: &[u8]) -> Option<String> {
    let s = String::from_utf8_lossy(body);
    for (i, ch) in s.char_indices() {
        if ch != 'L' && ch != 'C' { continue; }
        let rest = &s[i..];
        let tok: String = rest.chars().take_while(|c| c.is_ascii_alphanumeric() || *c == '-').collect();
        let parts: Vec<&str> = tok.split('-').collect();
        if parts.len() == 3 && parts[0].len() == 4 && parts[0][1..].chars().all(|c| c.is_ascii_digit()) && (parts[1].starts_with('l') || parts[1].starts_with('c')) && parts[2].starts_with('v') { return Some(tok); }
    }
    None
}

fn parse_response(raw: &[u8], eof: bool) -> Option<(u16, Vec<(String, String)>, Vec<u8>, bool)> {
    let pos = raw.windows(4).position(|w| w == b"\r\n\r\n")?;
    let head = String::from_utf8_lossy(&raw[..pos]).to_string();
    let mut lines = head.split("\r\n");
    let status_line = lines.next()?;
    let status: u16 = status_line.split(' ').nth(1)?.parse().ok()?;
    let mut headers = Vec::new();
    for l in lines { if let Some((k, v)) = l.split_once(':') { headers.push((k.trim().to_ascii_lowercase(), v.trim().to_string())); } }
    let body = raw[pos + 4..].to_vec();
    let cl = headers.iter().find(|(k, _)| k == "content-length").and_then(|(_, v)| v.parse::<usize>().ok());
    let complete = match cl { Some(n) => body.len() >= n, None => eof || status == 204 || status == 304 || (300..400).contains(&status) && eof };
    Some((status, headers, body, complete))
}

fn describe(status: u16, headers: &[(String, String)], body: &[u8]) -> (String, String) {
    let get = |n: &str| headers.iter().find(|(k, _)| k == n).map(|(_, v)| v.clone());
    let mut cookies: Vec<String> = headers.iter().filter(|(k, _)| k == "set-cookie").map(|(_, v)| v.split('=').next().unwrap_or("").trim().to_string()).collect();
    cookies.sort();
    let cookie = if cookies.is_empty() { String::new() } else { format!(";cookie={}", cookies.join(",")) };
    if let Some(b) = get("x-backend") {
        // `c<k>-b<j>`: which backend of the cluster answered depends on the balancing state, not on the configuration
        let cluster = b.split('-').next().unwrap_or("").to_string();
        return (format!("{status}:backend:{cluster}{cookie}"), format!("{status}:backend"));
    }
    let loc = get("location").map(|l| format!(";location={l}")).unwrap_or_default();
    let auth = get("www-authenticate").map(|l| format!(";www-authenticate={l}")).unwrap_or_default();
    match marker(body) {
        Some(m) => {
            let kind = if m.starts_with('C') { "cluster_tpl" } else { "listener_tpl" };
            (format!("{status}:{m}{loc}{auth}{cookie}"), format!("{status}:{kind}"))
        }
        None => (format!("{status}:default:{:08x}{loc}{auth}{cookie}", fnv(&normalise_body(body)) as u32), format!("{status}:default")),
    }
}

enum Conn { None, Plain(i32), Tls(Box<TlsTransport>) }

/// Runs the probe set once per round: round r starts when `board[probe_go] >= r`, its results are complete when
/// `board[probe_done] == r`. Probes run one after the other, each on a fresh connection from a fresh source address.
pub struct Prober {
    pub specs: Vec<ProbeSpec>,
    pub results: Vec<Vec<ProbeObs>>,
    round: i64,
    idx: usize,
    cur: Vec<ProbeObs>,
    conn: Conn,
    src: SocketAddr,
    out: Vec<u8>,
    out_pos: usize,
    inbuf: Vec<u8>,
    eof: Option<String>,
    deadline: u64,
    nconn: u32,
    active: bool,
    tls_sig: String,
}

pub const PROBE_WAIT: u64 = 3 * SEC;

impl Prober {
    pub fn new(specs: Vec<ProbeSpec>) -> Prober {
        Prober { specs, results: Vec::new(), round: 0, idx: 0, cur: Vec::new(), conn: Conn::None, src: "192.0.2.1:1".parse().unwrap(), out: Vec::new(), out_pos: 0, inbuf: Vec::new(), eof: None, deadline: 0, nconn: 0, active: false, tls_sig: String::new() }
    }
    fn close(&mut self) {
        match std::mem::replace(&mut self.conn, Conn::None) { Conn::Plain(fd) => sys::close(fd), Conn::Tls(mut t) => t.close(), Conn::None => {} }
    }
    fn finish(&mut self, w: &mut World, sig: String, class: String) {
        // TLS part of the observation: handshake outcome and certificate
        let (sig, class) = if self.specs[self.idx].kind == PKind::Https {
            let t = self.tls_note();
            (format!("{}|{}", t.0, sig), format!("{}|{}", t.1, class))
        } else { (sig, class) };
        self.close();
        w.tr(0xC07, fnv(sig.as_bytes()));
        self.cur.push(ProbeObs { sig, class });
        self.idx += 1;
        self.active = false;
    }
    fn tls_note(&self) -> (String, String) {
        if let Conn::Tls(t) = &self.conn {
            let r = &t.rec;
            let cert = r.cert_der.as_ref().map(|d| format!("{:016x}", fnv(d))).unwrap_or_else(|| "none".into());
            if r.handshake_done { (format!("tls:cert={cert};alpn={}", r.alpn.clone().unwrap_or_default()), "tls:ok".into()) } else { (format!("tls:failed:{};cert={cert}", r.error.clone().unwrap_or_default()), "tls:failed".into()) }
        } else { ("tls:none".into(), "tls:none".into()) }
    }
}

impl Actor for Prober {
    fn name(&self) -> String { "prober".into() }
    fn as_any(&mut self) -> &mut dyn Any { self }
    fn as_any_ref(&self) -> &dyn Any { self }
    fn step(&mut self, w: &mut World) -> Step {
        if self.round == 0 || self.idx >= self.specs.len() {
            if self.round > 0 && self.idx >= self.specs.len() && w.board_get("probe_done") < self.round {
                self.results.push(std::mem::take(&mut self.cur));
                let r = self.round;
                w.board_set("probe_done", r);
                return Step::Progress;
            }
            if w.board_get("probe_stop") != 0 { return Step::Done; }
            if w.board_get("probe_go") > self.round { self.round += 1; self.idx = 0; self.cur.clear(); return Step::Progress; }
            return Step::Blocked;
        }
        let spec = self.specs[self.idx].clone();
        if !self.active {
            self.nconn += 1;
            self.src = format!("192.0.2.{}:{}", 1 + (self.nconn / 20000) % 250, 20000 + self.nconn % 20000).parse().unwrap();
            self.inbuf.clear(); self.eof = None; self.out_pos = 0; self.tls_sig.clear();
            self.out = format!("{} {} HTTP/1.1\r\nHost: {}\r\nConnection: close\r\n\r\n", spec.method, spec.path, spec.host).into_bytes();
            let src = self.src;
            match w.peer_connect(&src, &spec.addr, None) {
                Err(e) => { self.active = true; self.finish(w, format!("refused:{e}"), "refused".into()); return Step::Progress; }
                Ok(fd) => {
                    self.conn = if spec.kind == PKind::Https {
                        match TlsTransport::new(fd, &TlsPlan { sni: spec.sni.clone(), alpn: vec!["http/1.1".into()], versions: TlsVersions::Both, max_fragment_size: None }) {
                            Ok(t) => Conn::Tls(Box::new(t)),
                            Err(e) => { sys::close(fd); self.active = true; self.finish(w, format!("tls_setup:{e}"), "tls_setup".into()); return Step::Progress; }
                        }
                    } else { Conn::Plain(fd) };
                    self.active = true;
                    self.deadline = w.now + PROBE_WAIT;
                    return Step::Progress;
                }
            }
        }
        let mut progressed = false;
        match &mut self.conn {
            Conn::Plain(fd) => {
                if self.out_pos < self.out.len() {
                    match wr(*fd, &self.out[self.out_pos..]) { Io::N(n) => { self.out_pos += n; progressed = true; } Io::WouldBlock | Io::Eof => {} Io::Err(_) => { self.out_pos = self.out.len(); progressed = true; } }
                }
                let mut buf = [0u8; 16384];
                match rd(*fd, &mut buf) { Io::N(n) => { self.inbuf.extend_from_slice(&buf[..n]); progressed = true; } Io::WouldBlock => {} Io::Eof => { self.eof = Some("eof".into()); } Io::Err(e) => { self.eof = Some(format!("errno{e}")); } }
            }
            Conn::Tls(t) => {
                let before = (t.wire_written(), t.wire_read());
                let n = t.write(w, &self.out[self.out_pos..], usize::MAX);
                self.out_pos += n;
                match t.read(w, &mut self.inbuf, 65536) { ReadOutcome::Data(_) => {} ReadOutcome::WouldBlock => {} ReadOutcome::Eof => { self.eof = Some("eof".into()); } ReadOutcome::Err(e) => { self.eof = Some(format!("errno{e}")); } }
                if n > 0 || (t.wire_written(), t.wire_read()) != before { progressed = true; }
                if t.write_error().is_some() && self.eof.is_none() { self.eof = Some("write_error".into()); }
            }
            Conn::None => {}
        }
        if let Some((status, headers, body, complete)) = parse_response(&self.inbuf, self.eof.is_some()) {
            if complete || self.eof.is_some() {
                let (sig, class) = describe(status, &headers, &body);
                let (sig, class) = if complete { (sig, class) } else { (format!("{sig};truncated"), format!("{class};truncated")) };
                self.finish(w, sig, class);
                return Step::Progress;
            }
        } else if let Some(why) = self.eof.clone() {
            let accepted = w.accept_peers.iter().rev().any(|p| *p == self.src);
            // whether the close arrives as FIN or as RST depends on what sozu had read when it closed: not configuration
            let _ = why;
            let (sig, class) = if self.inbuf.is_empty() { (format!("closed_without_answer;accepted={accepted}"), "closed_without_answer".to_string()) } else { (format!("garbage:{:08x}", fnv(&self.inbuf) as u32), "garbage".to_string()) };
            self.finish(w, sig, class);
            return Step::Progress;
        }
        if w.now >= self.deadline {
            let accepted = w.accept_peers.iter().rev().any(|p| *p == self.src);
            let (sig, class) = if accepted { ("accepted_no_answer".to_string(), "accepted_no_answer".to_string()) } else { ("never_accepted".to_string(), "never_accepted".to_string()) };
            self.finish(w, sig, class);
            return Step::Progress;
        }
        if progressed { Step::Progress } else { Step::Idle(self.deadline) }
    }
}
impl Drop for Prober { fn drop(&mut self) { self.close(); } }

/// Coarse description of how probe result `b` differs from `a` (`a` = before / the reference worker, `b` = after / the
/// worker under test); used in violation keys. One of:
/// `outage` (served by sozu on one side, refused / never accepted / closed without answer / TLS failure on the other),
/// `certificate` (other certificate or ALPN protocol), `route` (another status: e.g. a frontend's answer vs 404, 421 vs
/// 404), `template` (same status, the answer comes from another template: cluster's / listener's / built-in),
/// `content` (same status and origin, other content: template version, sticky cookie name, Location, realm).
pub fn symptom(a: &ProbeObs, b: &ProbeObs) -> &'static str {
    let last = |c: &str| c.rsplit('|').next().unwrap_or(c).to_string();
    let outage = |c: &str| matches!(last(c).as_str(), "closed_without_answer" | "never_accepted" | "accepted_no_answer" | "refused" | "garbage" | "tls_setup") || c.starts_with("tls:failed");
    let (x, y) = (last(&a.class), last(&b.class));
    if outage(&a.class) || outage(&b.class) { return "outage"; }
    let tls = |s: &str| s.split('|').next().filter(|t| t.starts_with("tls:")).map(|t| t.to_string());
    if tls(&a.sig) != tls(&b.sig) { return "certificate"; }
    let status = |c: &str| c.split(':').next().unwrap_or("").to_string();
    if status(&x) != status(&y) { return "route"; }
    if x != y { return "template"; }
    "content"
}

// ---------------------------------------------------------------------------------------- backends

/// backend `j` of cluster `k`
pub fn baddr(k: usize, j: usize) -> SocketAddr { format!("10.1.{k}.{}:8000", j + 1).parse().unwrap() }
pub const MAX_CLUSTERS: usize = 4;
pub const BACKENDS_PER_CLUSTER: usize = 2;
/// backends that exist for cluster `k`: two for c0, one for c1 and c2, none for c3 (the cluster without backend)
pub fn n_backends(k: usize) -> usize { match k { 0 => 2, 1 | 2 => 1, _ => 0 } }

/// one HTTP/1.1 backend actor per (cluster, j): answers 200 with `x-backend: c<k>-b<j>`
pub fn add_backends(w: &mut World, seed: u64) {
    for k in 0..MAX_CLUSTERS {
        for j in 0..n_backends(k) {
            let a = baddr(k, j);
            w.topo.insert(a, ConnectMode::Listen { delay_ns: 0 });
            let mut default = RespSpec::ok(BodySpec::Cl(2));
            default.headers.push(("x-backend".into(), format!("c{k}-b{j}")));
            let b = BackendPlan { name: format!("b{k}.{j}"), addr: a, pace: Pace::greedy(), responses: BTreeMap::new(), default, close_on_accept: vec![], listen_from_ns: 0, listen_until_ns: 0 };
            let id = w.add_actor(Box::new(H1Backend::new(b, Prng::derive(seed, &format!("backend/{k}/{j}")))));
            w.prime_actor(id);
        }
    }
}

// ----------------------------------------------------------------------------------------- queries

#[derive(Clone, Debug, Serialize, Deserialize, PartialEq, Default)]
pub struct QuerySet {
    pub clusters: Vec<String>,
    pub domains: Vec<String>,
    /// hex fingerprints
    pub fingerprints: Vec<String>,
}

/// (id suffix, request) of every query of an observation
pub fn query_requests(q: &QuerySet) -> Vec<(String, Request)> {
    let mut v: Vec<(String, Request)> = Vec::new();
    v.push(("hashes".into(), RequestType::QueryClustersHashes(QueryClustersHashes {}).into()));
    for c in &q.clusters { v.push((format!("cluster/{c}"), RequestType::QueryClusterById(c.clone()).into())); }
    for d in &q.domains { v.push((format!("domain/{d}"), RequestType::QueryClustersByDomain(QueryClusterByDomain { hostname: d.clone(), path: None }).into())); }
    v.push(("certs/all".into(), RequestType::QueryCertificatesFromWorkers(QueryCertificatesFilters::default()).into()));
    for d in &q.domains { v.push((format!("certs/domain/{d}"), RequestType::QueryCertificatesFromWorkers(QueryCertificatesFilters { domain: Some(d.clone()), fingerprint: None }).into())); }
    for f in &q.fingerprints { v.push((format!("certs/fp/{}", &f[..f.len().min(12)]), RequestType::QueryCertificatesFromWorkers(QueryCertificatesFilters { domain: None, fingerprint: Some(f.clone()) }).into())); }
    v.push(("max_conn_per_ip".into(), RequestType::QueryMaxConnectionsPerIp(QueryMaxConnectionsPerIp {}).into()));
    v
}

fn canon(v: &serde_json::Value) -> serde_json::Value {
    match v {
        serde_json::Value::Array(a) => {
            let mut items: Vec<serde_json::Value> = a.iter().map(canon).collect();
            items.sort_by_key(|x| x.to_string());
            serde_json::Value::Array(items)
        }
        serde_json::Value::Object(m) => serde_json::Value::Object(m.iter().map(|(k, x)| (k.clone(), canon(x))).collect()),
        x => x.clone(),
    }
}

/// canonical form of an answer: status + content with every list sorted (lists in these answers are sets: their order
/// comes from hash-map iteration inside the worker)
pub fn canon_response(r: Option<&WorkerResponse>) -> String {
    match r {
        None => "no_answer".into(),
        Some(r) => {
            let st = if r.status == ResponseStatus::Ok as i32 { "OK" } else if r.status == ResponseStatus::Failure as i32 { "FAILURE" } else { "PROCESSING" };
            let content = r.content.as_ref().map(|c| canon(&serde_json::to_value(c).unwrap_or_default()).to_string()).unwrap_or_default();
            // failure messages are part of the answer but carry nothing of the configuration
            if st == "FAILURE" { format!("FAILURE:{}", r.message) } else { format!("{st}:{content}") }
        }
    }
}

/// One observation of the worker.
#[derive(Clone, Debug, Default, PartialEq)]
pub struct Observation {
    /// query name -> canonical answer
    pub view: BTreeMap<String, String>,
    /// raw answers (for projections)
    pub raw: BTreeMap<String, WorkerResponse>,
    pub probes: Vec<ProbeObs>,
}

/// Script of observation round `r` (1-based): queries, barrier, probes.
pub fn push_observation(m: &mut Master, r: i64, q: &QuerySet) {
    for (name, req) in query_requests(q) { m.push(MOp::SendId(format!("Q{r}/{name}"), req)); }
    m.push(MOp::BarrierFor(30 * SEC));
    m.push(MOp::SetBoard("probe_go".into(), r));
    m.push(MOp::WaitBoard("probe_done".into(), r));
}

pub fn collect_observation(data: &MasterData, prober: &Prober, r: i64, q: &QuerySet) -> Option<Observation> {
    let probes = prober.results.get((r - 1) as usize)?.clone();
    let mut o = Observation { probes, ..Default::default() };
    for (name, _) in query_requests(q) {
        let id = format!("Q{r}/{name}");
        let resp = data.last_response(&id);
        o.view.insert(name.clone(), canon_response(resp));
        if let Some(x) = resp { o.raw.insert(name, x.clone()); }
    }
    Some(o)
}

pub fn mix_observation(h: &mut crate::prng::TraceHash, o: &Observation) {
    for (k, v) in &o.view { h.mix(fnv(k.as_bytes())); h.mix(fnv(v.as_bytes())); }
    for p in &o.probes { h.mix(fnv(p.sig.as_bytes())); }
}

// --------------------------------------------------------------------------------------- templates

pub fn reason(code: u16) -> &'static str {
    match code { 301 => "Moved Permanently", 401 => "Unauthorized", 404 => "Not Found", 502 => "Bad Gateway", 503 => "Service Unavailable", 504 => "Gateway Timeout", _ => "Status" }
}
/// a well-formed answer template whose body names its origin
pub fn template(code: u16, marker: &str) -> String {
    let extra = match code { 301 => "Location: %REDIRECT_LOCATION\r\n", 401 => "WWW-Authenticate: %WWW_AUTHENTICATE\r\n", _ => "" };
    format!("HTTP/1.1 {code} {}\r\nCache-Control: no-cache\r\nConnection: close\r\n{extra}Content-Length: {}\r\n\r\n{marker}", reason(code), marker.len())
}
pub fn listener_template(code: u16, li: usize, v: u32) -> String { template(code, &format!("L{code}-l{li}-v{v}")) }
pub fn cluster_template(code: u16, k: usize, v: u32) -> String { template(code, &format!("C{code}-c{k}-v{v}")) }
/// templates the worker cannot compile (for status `code`)
pub fn bad_template(code: u16, which: u64) -> String {
    match which % 4 {
        0 => "this is not an HTTP response".to_string(),
        // status line of another code
        1 => template(if code == 404 { 503 } else { 404 }, "Lxxx"),
        // header block never terminated
        2 => format!("HTTP/1.1 {code} {}\r\nCache-Control: no-cache", reason(code)),
        // chunked framing
        _ => format!("HTTP/1.1 {code} {}\r\nTransfer-Encoding: chunked\r\n\r\n4\r\nabcd\r\n0\r\n\r\n", reason(code)),
    }
}
/// plan-side recogniser of the above (and of anything else that is not a well-formed template of this module)
pub fn template_is_ours(code: &str, body: &str) -> bool {
    let Ok(c) = code.parse::<u16>() else { return false };
    let Some(pos) = body.find("\r\n\r\n") else { return false };
    let m = &body[pos + 4..];
    body == template(c, m) && marker(m.as_bytes()).is_some()
}
pub const WAIT_MS: u64 = MS;
