//! C09 — the main process's verdict to a client matches what the workers did.
//!
//! Engine: hubsim (the real `CommandHub::run()` with scripted workers and scripted CLI clients).
//! The oracle is a history check over what the scripted peers *observed* (every event carries a
//! global sequence number): per client request exactly one final answer; OK only if every worker
//! that received the request acknowledged it with OK before the verdict was read; FAILURE expected
//! as soon as one worker failed, died or stayed silent; bounded answer time; no answer that needed
//! a timer although every worker had answered; echoed content belongs to the asking client.
#![allow(dead_code)]
use std::collections::BTreeMap;

use serde::{Deserialize, Serialize};
use serde_json::Value;
use sozu_command_lib::proto::command::{
    request::RequestType, response_content::ContentType, AddBackend, Cluster, CountRequests, FrontendFilters, HardStop, HttpListenerConfig,
    ListListeners, ListWorkers, PathRule, QueryCertificatesFilters, QueryClusterByDomain, QueryClustersHashes, QueryMetricsOptions, Request,
    RequestHttpFrontend, ResponseStatus, RunState, SocketAddress, SoftStop, Status, UpdateHttpListenerConfig, WorkerRequest,
};

use crate::actors::Quantum;
use crate::framework::*;
use crate::hubsim::*;
use crate::netsim;
use crate::prng::{Prng, TraceHash};
use crate::world::{SchedCfg, Stats, World, MS, SEC};

pub struct C09;

// ------------------------------------------------------------------------------------ plan

#[derive(Clone, Debug, Serialize, Deserialize, PartialEq)]
pub enum Verb {
    AddCluster,
    AddBackend,
    AddHttpFrontend,
    AddHttpListener,
    /// listener patch on the listener added by the request with tag number `listener`
    UpdateHttpListener { listener: u32 },
    /// RemoveCluster of a cluster nobody added: rejected by the main process itself
    RemoveUnknownCluster,
    QueryClusterById,
    QueryClustersByDomain,
    QueryClustersHashes,
    QueryCertificatesFromWorkers,
    QueryMetrics { workers: bool },
    Status,
    ListWorkers,
    ListFrontends,
    ListListeners,
    CountRequests,
    SaveState,
    LoadState { entries: u32 },
    LoadStateMissing,
    /// first phase of a worker upgrade (ReturnListenSockets to one worker)
    UpgradeWorker { worker: u32 },
    UpgradeUnknownWorker,
    SoftStop,
    HardStop,
}

#[derive(Clone, Debug, Serialize, Deserialize, PartialEq)]
pub struct ReqPlan {
    /// tag number: makes the request content unique (`tagNNNq`)
    pub n: u32,
    pub verb: Verb,
    /// behaviour of each worker for this request
    pub beh: Vec<Beh>,
}

#[derive(Clone, Debug, Serialize, Deserialize, PartialEq)]
pub struct ClientPlan {
    pub start_ns: u64,
    pub think_ns: u64,
    pub wq: Quantum,
    /// sends all its requests without waiting for answers
    pub pipelined: bool,
    /// a stop verb is sent only after every other client is done
    pub stop_waits: bool,
    pub requests: Vec<ReqPlan>,
}

#[derive(Clone, Debug, Serialize, Deserialize)]
pub struct HubPlan {
    pub seed: u64,
    pub family: String,
    pub knobs: HubKnobs,
    pub sched: SchedCfg,
    /// write quantum of each scripted worker
    pub workers: Vec<Quantum>,
    pub clients: Vec<ClientPlan>,
}

impl Verb {
    /// plan-level family used in violation keys
    pub fn family(&self) -> &'static str {
        match self {
            Verb::AddCluster | Verb::AddBackend | Verb::AddHttpFrontend | Verb::AddHttpListener | Verb::UpdateHttpListener { .. } => "mutating",
            Verb::RemoveUnknownCluster => "rejected_by_main",
            Verb::QueryClusterById | Verb::QueryClustersByDomain | Verb::QueryClustersHashes | Verb::QueryCertificatesFromWorkers => "query_clusters",
            Verb::QueryMetrics { .. } => "QueryMetrics",
            Verb::Status => "Status",
            Verb::ListWorkers | Verb::ListFrontends | Verb::ListListeners | Verb::CountRequests | Verb::SaveState => "local",
            Verb::LoadState { .. } => "LoadState",
            Verb::LoadStateMissing => "rejected_by_main",
            Verb::UpgradeWorker { .. } => "UpgradeWorker",
            Verb::UpgradeUnknownWorker => "rejected_by_main",
            Verb::SoftStop => "SoftStop",
            Verb::HardStop => "HardStop",
        }
    }
    pub fn name(&self) -> String {
        let d = format!("{self:?}");
        d.chars().take_while(|c| c.is_ascii_alphanumeric()).collect()
    }
    /// name of the request as the workers see it, for verbs whose content cannot carry a tag
    fn tagless_worker_verb(&self) -> Option<&'static str> {
        match self {
            Verb::Status => Some("Status"),
            Verb::QueryClustersHashes => Some("QueryClustersHashes"),
            Verb::SoftStop => Some("SoftStop"),
            Verb::HardStop => Some("HardStop"),
            Verb::UpgradeWorker { .. } => Some("ReturnListenSockets"),
            _ => None,
        }
    }
    fn is_stop(&self) -> bool { matches!(self, Verb::SoftStop | Verb::HardStop) }
    fn scattered(&self) -> bool { !matches!(self.family(), "local" | "rejected_by_main") }
    fn expected_requests_per_worker(&self) -> usize { match self { Verb::LoadState { entries } => *entries as usize, _ => 1 } }
}

fn effective_family(c: &ClientPlan, ri: usize) -> &'static str {
    let r = &c.requests[ri];
    if let Verb::UpdateHttpListener { listener } = r.verb {
        // the patch needs its listener in the main process state
        if !c.requests[..ri].iter().any(|q| q.n == listener && q.verb == Verb::AddHttpListener) { return "rejected_by_main"; }
    }
    r.verb.family()
}

fn build_request(r: &ReqPlan, dir: &std::path::Path) -> Request {
    let tag = tag_str(r.n);
    let rt = match &r.verb {
        Verb::AddCluster => RequestType::AddCluster(Cluster { cluster_id: tag, ..Default::default() }),
        Verb::AddBackend => RequestType::AddBackend(AddBackend { cluster_id: "shared".into(), backend_id: tag, address: SocketAddress::new_v4(10, 0, 0, 1, 1000 + r.n as u16), ..Default::default() }),
        Verb::AddHttpFrontend => RequestType::AddHttpFrontend(RequestHttpFrontend {
            cluster_id: Some("shared".into()), address: SocketAddress::new_v4(0, 0, 0, 0, 8080), hostname: format!("{tag}.test"), path: PathRule::prefix("/"), ..Default::default()
        }),
        Verb::AddHttpListener => RequestType::AddHttpListener(HttpListenerConfig { address: SocketAddress::new_v4(127, 0, 0, 1, 20000 + r.n as u16), sticky_name: tag, ..Default::default() }),
        Verb::UpdateHttpListener { listener } => RequestType::UpdateHttpListener(UpdateHttpListenerConfig {
            address: SocketAddress::new_v4(127, 0, 0, 1, 20000 + *listener as u16), sticky_name: Some(tag), front_timeout: Some(30), ..Default::default()
        }),
        Verb::RemoveUnknownCluster => RequestType::RemoveCluster(format!("ghost-{tag}")),
        Verb::QueryClusterById => RequestType::QueryClusterById(tag),
        Verb::QueryClustersByDomain => RequestType::QueryClustersByDomain(QueryClusterByDomain { hostname: format!("{tag}.test"), path: None }),
        Verb::QueryClustersHashes => RequestType::QueryClustersHashes(QueryClustersHashes {}),
        Verb::QueryCertificatesFromWorkers => RequestType::QueryCertificatesFromWorkers(QueryCertificatesFilters { domain: Some(format!("{tag}.test")), fingerprint: None }),
        Verb::QueryMetrics { workers } => RequestType::QueryMetrics(QueryMetricsOptions { list: false, cluster_ids: vec![tag], backend_ids: vec![], metric_names: vec![], no_clusters: false, workers: *workers }),
        Verb::Status => RequestType::Status(Status {}),
        Verb::ListWorkers => RequestType::ListWorkers(ListWorkers {}),
        Verb::ListFrontends => RequestType::ListFrontends(FrontendFilters { http: true, https: true, tcp: true, domain: None }),
        Verb::ListListeners => RequestType::ListListeners(ListListeners {}),
        Verb::CountRequests => RequestType::CountRequests(CountRequests {}),
        Verb::SaveState => RequestType::SaveState(dir.join(format!("save-{tag}.json")).to_string_lossy().to_string()),
        Verb::LoadState { .. } => RequestType::LoadState(dir.join(format!("load-{tag}.json")).to_string_lossy().to_string()),
        Verb::LoadStateMissing => RequestType::LoadState(dir.join(format!("missing-{tag}.json")).to_string_lossy().to_string()),
        Verb::UpgradeWorker { worker } => RequestType::UpgradeWorker(*worker),
        Verb::UpgradeUnknownWorker => RequestType::UpgradeWorker(77),
        Verb::SoftStop => RequestType::SoftStop(SoftStop {}),
        Verb::HardStop => RequestType::HardStop(HardStop {}),
    };
    Request { request_type: Some(rt) }
}

fn write_state_file(r: &ReqPlan, dir: &std::path::Path) {
    if let Verb::LoadState { entries } = r.verb {
        let mut out = Vec::new();
        for k in 0..entries {
            let req = WorkerRequest { id: format!("SAVE-{k}"), content: Request { request_type: Some(RequestType::AddCluster(Cluster { cluster_id: format!("{}-e{k}", tag_str(r.n)), ..Default::default() })) } };
            out.extend_from_slice(serde_json::to_string(&req).unwrap().as_bytes());
            out.extend_from_slice(b"\n\0");
        }
        let _ = std::fs::write(dir.join(format!("load-{}.json", tag_str(r.n))), out);
    }
}

fn needs_files(p: &HubPlan) -> bool {
    p.clients.iter().flat_map(|c| c.requests.iter()).any(|r| matches!(r.verb, Verb::SaveState | Verb::LoadState { .. } | Verb::LoadStateMissing))
}

// ------------------------------------------------------------------------------------ generation

fn random_beh(rng: &mut Prng, kinds: &[u8], timeout_ns: u64) -> Beh {
    match *rng.pick(kinds) {
        0 => Beh::Failure,
        1 => Beh::ProcessingOk(*rng.pick(&[0, MS, SEC])),
        2 => Beh::SlowOk(*rng.pick(&[MS, SEC, timeout_ns / 2, timeout_ns - SEC])),
        3 => Beh::Silent,
        4 => Beh::Late(timeout_ns + *rng.pick(&[500 * MS, SEC, 3 * SEC])),
        5 => Beh::CloseBefore,
        6 => Beh::CloseAfter(*rng.pick(&[0, MS, SEC])),
        7 => Beh::DupOk(*rng.pick(&[0, MS])),
        8 => Beh::UnknownThenOk,
        _ => Beh::Stall,
    }
}

pub fn generate(seed: u64, _tier: Tier) -> HubPlan {
    let mut rng = Prng::derive(seed, "c09/plan");
    let n_workers = *rng.pick(&[1usize, 1, 2, 2, 2, 3, 4]);
    let n_clients = *rng.pick(&[1usize, 1, 1, 2, 2, 3, 4]);
    let mut knobs = HubKnobs::default();
    knobs.worker_timeout = *rng.pick(&[2u32, 5, 10, 10, 30]);
    let timeout_ns = knobs.worker_timeout as u64 * SEC;
    if rng.below(3) == 0 {
        knobs.command_buffer_size = *rng.pick(&[1024u64, 4096]);
        knobs.max_command_buffer_size = *rng.pick(&[8192u64, 16384]);
        knobs.worker_sndbuf = Some(*rng.pick(&[4608, 16384]));
    }
    // swarm: which fault kinds and which verb families this plan may use
    let fault_pm = *rng.pick(&[0u64, 0, 150, 400, 700]);
    let mut kinds: Vec<u8> = (0..10u8).filter(|_| rng.below(3) == 0).collect();
    if kinds.is_empty() { kinds.push(rng.below(10) as u8); }
    let families: Vec<u8> = { let mut f: Vec<u8> = (0..8u8).filter(|_| rng.below(2) == 0).collect(); if f.is_empty() { f.push(0); } f };
    let pipelined_plan = rng.below(40) == 0;
    let with_stop = rng.below(5) == 0;
    let mut next_n = 1u32;
    let mut used_tagless: Vec<&'static str> = Vec::new();
    let mut clients = Vec::new();
    for _ in 0..n_clients {
        let k = 1 + rng.below(4) as usize;
        let mut requests: Vec<ReqPlan> = Vec::new();
        while requests.len() < k {
            let n = next_n; next_n += 1;
            let verb = match *rng.pick(&families) {
                0 => rng.pick(&[Verb::AddCluster, Verb::AddBackend, Verb::AddHttpFrontend]).clone(),
                1 => {
                    // listener + patch (two requests)
                    let add = ReqPlan { n, verb: Verb::AddHttpListener, beh: vec![] };
                    requests.push(add);
                    let n2 = next_n; next_n += 1;
                    requests.push(ReqPlan { n: n2, verb: Verb::UpdateHttpListener { listener: n }, beh: vec![] });
                    continue;
                }
                2 => rng.pick(&[Verb::QueryClusterById, Verb::QueryClustersByDomain, Verb::QueryClustersHashes, Verb::QueryCertificatesFromWorkers]).clone(),
                3 => Verb::QueryMetrics { workers: rng.below(2) == 0 },
                4 => Verb::Status,
                5 => rng.pick(&[Verb::ListWorkers, Verb::ListFrontends, Verb::ListListeners, Verb::CountRequests, Verb::SaveState, Verb::RemoveUnknownCluster, Verb::LoadStateMissing, Verb::UpgradeUnknownWorker]).clone(),
                6 => Verb::LoadState { entries: if knobs.max_command_buffer_size <= 16384 && rng.below(4) == 0 { 400 } else { *rng.pick(&[1u32, 2, 3, 8, 40, 150]) } },
                _ => Verb::UpgradeWorker { worker: rng.below(n_workers as u64) as u32 },
            };
            if let Some(t) = verb.tagless_worker_verb() {
                if used_tagless.contains(&t) { next_n -= 1; if families.iter().all(|f| matches!(f, 4 | 7)) { requests.push(ReqPlan { n: { let m = next_n; next_n += 1; m }, verb: Verb::AddCluster, beh: vec![] }); } continue; }
                used_tagless.push(t);
            }
            requests.push(ReqPlan { n, verb, beh: vec![] });
        }
        clients.push(ClientPlan {
            start_ns: rng.below(2) * rng.below(5 * MS),
            think_ns: *rng.pick(&[0, 0, MS, SEC]),
            wq: if rng.below(3) == 0 { Quantum::random(&mut rng) } else { Quantum::All },
            pipelined: pipelined_plan && k > 1,
            stop_waits: rng.below(2) == 0,
            requests,
        });
    }
    if with_stop {
        let ci = rng.below(n_clients as u64) as usize;
        let n = next_n; next_n += 1;
        let verb = if rng.below(2) == 0 { Verb::SoftStop } else { Verb::HardStop };
        clients[ci].requests.push(ReqPlan { n, verb, beh: vec![] });
        clients[ci].pipelined = false;
    }
    let _ = next_n;
    // behaviours
    for c in clients.iter_mut() {
        for r in c.requests.iter_mut() {
            r.beh = (0..n_workers).map(|_| if rng.below(1000) < fault_pm { random_beh(&mut rng, &kinds, timeout_ns) } else { Beh::Ok }).collect();
            if let Verb::UpgradeWorker { worker } = r.verb {
                // an OK from the old worker would make the real master fork and exec a new worker
                let b = &mut r.beh[worker as usize];
                if b.acks() || matches!(b, Beh::Late(_)) { *b = rng.pick(&[Beh::Failure, Beh::Silent, Beh::CloseBefore]).clone(); }
            }
        }
    }
    let any_fault = clients.iter().flat_map(|c| c.requests.iter()).any(|r| r.beh.iter().any(|b| *b != Beh::Ok));
    let mut sched = netsim::default_sched(&mut rng, false);
    sched.preempt_pm = 0;
    HubPlan {
        seed,
        family: format!("{}{}{}", if any_fault { "faults" } else { "plain" }, if with_stop { "+stop" } else { "" }, if pipelined_plan { "+pipelined" } else { "" }),
        knobs,
        sched,
        workers: (0..n_workers).map(|_| if rng.below(3) == 0 { Quantum::random(&mut rng) } else { Quantum::All }).collect(),
        clients,
    }
}

/// Systematic part: every verb family x every behaviour, one client, one request, 1 and 2 workers
/// (the fault hits worker 0; a second worker answers OK).
fn enumerate_plans() -> Vec<HubPlan> {
    let verbs = [
        Verb::AddCluster, Verb::AddBackend, Verb::QueryClusterById, Verb::QueryClustersHashes, Verb::QueryMetrics { workers: true }, Verb::Status,
        Verb::LoadState { entries: 3 }, Verb::SoftStop, Verb::HardStop, Verb::UpgradeWorker { worker: 0 }, Verb::ListWorkers, Verb::SaveState,
    ];
    let t = 10 * SEC;
    let behs = [
        Beh::Ok, Beh::Failure, Beh::ProcessingOk(MS), Beh::SlowOk(3 * SEC), Beh::Silent, Beh::Late(t + SEC), Beh::CloseBefore, Beh::CloseAfter(MS),
        Beh::DupOk(MS), Beh::UnknownThenOk, Beh::Stall,
    ];
    let mut out = Vec::new();
    for v in verbs.iter() {
        for b in behs.iter() {
            for nw in 1..=2usize {
                if matches!(v, Verb::UpgradeWorker { .. }) && (b.acks() || matches!(b, Beh::Late(_))) { continue; }
                if !v.scattered() && (*b != Beh::Ok || nw == 2) { continue; }
                let mut beh = vec![b.clone()];
                if nw == 2 { beh.push(Beh::Ok); }
                out.push(HubPlan {
                    seed: 0,
                    family: "enumerated".into(),
                    knobs: HubKnobs::default(),
                    sched: SchedCfg::default(),
                    workers: vec![Quantum::All; nw],
                    clients: vec![ClientPlan { start_ns: 0, think_ns: 0, wq: Quantum::All, pipelined: false, stop_waits: false, requests: vec![ReqPlan { n: 1, verb: v.clone(), beh }] }],
                });
            }
        }
    }
    // duplicate answer from one worker hiding another worker's failure / silence
    for other in [Beh::Failure, Beh::Silent, Beh::SlowOk(3 * SEC)] {
        out.push(HubPlan {
            seed: 0, family: "enumerated".into(), knobs: HubKnobs::default(), sched: SchedCfg::default(), workers: vec![Quantum::All; 2],
            clients: vec![ClientPlan { start_ns: 0, think_ns: 0, wq: Quantum::All, pipelined: false, stop_waits: false, requests: vec![ReqPlan { n: 1, verb: Verb::AddCluster, beh: vec![Beh::DupOk(0), other] }] }],
        });
    }
    // two concurrent silent requests whose deadlines differ
    out.push(HubPlan {
        seed: 0, family: "enumerated".into(), knobs: HubKnobs::default(), sched: SchedCfg::default(), workers: vec![Quantum::All; 1],
        clients: vec![
            ClientPlan { start_ns: 0, think_ns: 0, wq: Quantum::All, pipelined: false, stop_waits: false, requests: vec![ReqPlan { n: 1, verb: Verb::AddCluster, beh: vec![Beh::Silent] }] },
            ClientPlan { start_ns: 4 * SEC, think_ns: 0, wq: Quantum::All, pipelined: false, stop_waits: false, requests: vec![ReqPlan { n: 2, verb: Verb::AddCluster, beh: vec![Beh::Silent] }] },
        ],
    });
    // a state file whose requests do not fit the command channel's buffer
    out.push(HubPlan {
        seed: 0, family: "enumerated".into(), knobs: HubKnobs { command_buffer_size: 1024, max_command_buffer_size: 8192, ..HubKnobs::default() }, sched: SchedCfg::default(), workers: vec![Quantum::All; 1],
        clients: vec![ClientPlan { start_ns: 0, think_ns: 0, wq: Quantum::All, pipelined: false, stop_waits: false, requests: vec![ReqPlan { n: 1, verb: Verb::LoadState { entries: 400 }, beh: vec![Beh::Ok] }] }],
    });
    // a client that does not wait for answers
    out.push(HubPlan {
        seed: 0, family: "enumerated".into(), knobs: HubKnobs::default(), sched: SchedCfg::default(), workers: vec![Quantum::All; 1],
        clients: vec![ClientPlan { start_ns: 0, think_ns: 0, wq: Quantum::All, pipelined: true, stop_waits: false, requests: vec![ReqPlan { n: 1, verb: Verb::AddCluster, beh: vec![Beh::Ok] }, ReqPlan { n: 2, verb: Verb::AddBackend, beh: vec![Beh::Ok] }] }],
    });
    out
}

pub fn summarize(p: &HubPlan) -> String {
    let mut s = format!("{} w={} timeout={}s buf={}/{} sndbuf={:?} ", p.family, p.workers.len(), p.knobs.worker_timeout, p.knobs.command_buffer_size, p.knobs.max_command_buffer_size, p.knobs.worker_sndbuf);
    for (ci, c) in p.clients.iter().enumerate() {
        s += &format!("[c{ci}{}:", if c.pipelined { " pipelined" } else { "" });
        for r in &c.requests {
            s += &format!(" {}#{}({})", r.verb.name(), r.n, r.beh.iter().map(|b| b.name()).collect::<Vec<_>>().join(","));
        }
        s += "] ";
    }
    s
}

// ------------------------------------------------------------------------------------ execution

pub struct Outcome {
    pub end: HubEnd,
    pub clients: Vec<ClientObs>,
    pub workers: Vec<WorkerObs>,
    pub ctl: ControllerObs,
    pub trace_hash: u64,
    pub stats: Stats,
    pub log: Vec<String>,
    pub leaked_fds: Vec<i32>,
}

static DIRCTR: std::sync::atomic::AtomicU64 = std::sync::atomic::AtomicU64::new(0);

pub fn run(p: &HubPlan, log_on: bool) -> Outcome {
    let plan = p.clone();
    let fds_before = netsim::open_fds();
    let mut out = netsim::on_fresh_thread(move || {
        let p = plan;
        let mut world = World::new(p.seed, p.sched.clone());
        world.log_on = log_on;
        World::install(&mut world);
        let dir = verif_root().join("sim/target/tmp").join(format!("c09-{}-{}", std::process::id(), DIRCTR.fetch_add(1, std::sync::atomic::Ordering::SeqCst)));
        let files = needs_files(&p);
        if files {
            let _ = std::fs::create_dir_all(&dir);
            for r in p.clients.iter().flat_map(|c| c.requests.iter()) { write_state_file(r, &dir); }
        }
        let timeout_ns = p.knobs.worker_timeout as u64 * SEC;
        let patience = 3 * timeout_ns + 5 * SEC;
        let mut client_ids = Vec::new();
        let mut worker_ids = Vec::new();
        let mut ctl_id = 0usize;
        let n_workers = p.workers.len();
        let end = run_hub(&mut world, &p.knobs, n_workers, |w, env| {
            let seq = Seq::default();
            // worker scripts: request -> behaviour of this worker
            for (wi, wend) in env.workers.iter().enumerate() {
                let mut by_tag: BTreeMap<u32, Beh> = BTreeMap::new();
                let mut by_verb: BTreeMap<String, Beh> = BTreeMap::new();
                for r in p.clients.iter().flat_map(|c| c.requests.iter()) {
                    let b = r.beh.get(wi).cloned().unwrap_or(Beh::Ok);
                    match r.verb.tagless_worker_verb() { Some(v) => { by_verb.insert(v.to_string(), b); } None => { by_tag.insert(r.n, b); } }
                }
                let decide: Decide = Box::new(move |req, tags, entry| {
                    let b = match tags.first() { Some(n) => by_tag.get(n).cloned(), None => by_verb.get(&verb_name(&req.content)).cloned() }.unwrap_or(Beh::Ok);
                    // multi-request verbs: the scripted fault hits entry 0, the rest is acknowledged
                    if entry.map_or(false, |e| e > 0) { Beh::Ok } else { b }
                });
                let a = ScriptedWorker::new(wend, seq.clone(), p.workers[wi].clone(), Prng::derive(p.seed, &format!("c09/worker{wi}")), timeout_ns, decide);
                worker_ids.push(w.add_actor(Box::new(a)));
            }
            let n_clients = p.clients.len();
            let mut max_budget = 0u64;
            for (ci, c) in p.clients.iter().enumerate() {
                let reqs: Vec<Request> = c.requests.iter().map(|r| build_request(r, &dir)).collect();
                let mut a = CliClient::new(ci, env, seq.clone(), Prng::derive(p.seed, &format!("c09/client{ci}")), 1000 * SEC + c.start_ns, reqs, c.think_ns, patience, c.wq.clone());
                a.pipelined = c.pipelined && c.requests.len() > 1;
                if c.stop_waits {
                    for (ri, r) in c.requests.iter().enumerate() { if r.verb.is_stop() { a.gates.insert(ri, ("clients_done".into(), n_clients as i64 - 1)); } }
                }
                max_budget = max_budget.max(c.start_ns + c.requests.len() as u64 * (patience + c.think_ns + SEC));
                client_ids.push(w.add_actor(Box::new(a)));
            }
            // a gated stop waits for the other clients: budgets add up
            let hard_deadline = 1000 * SEC + 2 * max_budget + 10 * SEC;
            let k = Controller::new(env, n_clients, hard_deadline, timeout_ns + 5 * SEC);
            ctl_id = w.add_actor(Box::new(k));
        });
        let dir_s = dir.to_string_lossy().to_string();
        let clients = client_ids.iter().map(|id| {
            let mut o = world.actor::<CliClient>(*id).obs.clone();
            // the scratch directory name is process specific: keep it out of reports
            for r in o.reqs.iter_mut() { for x in r.responses.iter_mut() { x.message = x.message.replace(&dir_s, "$DIR"); } }
            for x in o.stray.iter_mut() { x.message = x.message.replace(&dir_s, "$DIR"); }
            o
        }).collect();
        let workers = worker_ids.iter().map(|id| world.actor::<ScriptedWorker>(*id).obs.clone()).collect();
        let ctl = world.actor::<Controller>(ctl_id).obs.clone();
        let out = Outcome { end, clients, workers, ctl, trace_hash: world.trace.0, stats: world.stats.clone(), log: std::mem::take(&mut world.log), leaked_fds: vec![] };
        drop(world);
        if files { let _ = std::fs::remove_dir_all(&dir); }
        out
    });
    let fds_after = netsim::open_fds();
    out.leaked_fds = fds_after.into_iter().filter(|f| !fds_before.contains(f)).collect();
    out
}

// ------------------------------------------------------------------------------------ oracle

#[derive(Clone, Debug, PartialEq)]
enum WClass {
    /// acknowledged every request of the verb with OK before the verdict (seq, time of the last ack)
    Acked(u64, u64),
    Failed(String),
    Unacked(String),
    DeadBefore { long_before: bool },
    /// died while the request was in flight without having seen it
    Ambiguous,
}

fn classify(r: &ReqPlan, wi: usize, wo: &WorkerObs, ro: &ReqObs, final_seq: u64, timeout_ns: u64) -> WClass {
    let tagless = r.verb.tagless_worker_verb();
    let recs: Vec<&WRec> = wo.recs.iter().filter(|x| x.beh != "end_ok" && match tagless { Some(v) => x.verb == v && x.tags.is_empty(), None => x.tags.contains(&r.n) }).collect();
    let seq_send = ro.seq_send.unwrap_or(0);
    let t_send = ro.t_send.unwrap_or(0);
    let closed_before_final = wo.seq_closed.map_or(false, |s| s < final_seq);
    let assigned = r.beh.get(wi).cloned().unwrap_or(Beh::Ok);
    if recs.is_empty() {
        if let Some(s) = wo.seq_closed { if s < seq_send { return WClass::DeadBefore { long_before: wo.t_closed.unwrap_or(0) + EPS_NS < t_send }; } }
        // (the scripted worker learns about a SIGKILL only at its next step: the kill itself may be older)
        if closed_before_final || wo.killed { return WClass::Ambiguous; }
        if wo.stalled_since.is_some() { return WClass::Unacked("stalled".into()); }
        return WClass::Unacked("not_dispatched".into());
    }
    if let Some(x) = recs.iter().find(|x| x.sent.iter().any(|(_, s, st)| *st == ResponseStatus::Failure as i32 && *s < final_seq)) { return WClass::Failed(x.beh.clone()); }
    let mut last = (0u64, 0u64);
    let mut acked = 0usize;
    let mut first_unacked: Option<&WRec> = None;
    for x in recs.iter() {
        // an acknowledgement counts when it was on the wire before the verdict was read and within the worker timeout
        match x.sent.iter().filter(|(t, s, st)| *st == ResponseStatus::Ok as i32 && *s < final_seq && *t <= t_send + timeout_ns + 200 * MS).map(|(t, s, _)| (*s, *t)).min() {
            Some(a) => { acked += 1; if a.0 > last.0 { last = a; } }
            None => { if first_unacked.is_none() { first_unacked = Some(x); } }
        }
    }
    if acked >= r.verb.expected_requests_per_worker() && first_unacked.is_none() { return WClass::Acked(last.0, last.1); }
    let name = match first_unacked {
        // answered, but only after the worker timeout had elapsed (and before the verdict was read)
        Some(x) if x.sent.iter().any(|(_, s, st)| *st == ResponseStatus::Ok as i32 && *s < final_seq) => "late_ack".into(),
        Some(x) if ["silent", "late", "stalled", "closed"].contains(&x.beh.as_str()) => x.beh.clone(),
        _ if wo.killed => "killed_by_main".into(),
        _ if closed_before_final => "closed".into(),
        _ if wo.stalled_since.is_some() => "stalled".into(),
        Some(x) => format!("{}_not_yet_sent", x.beh),
        None => format!("{}_incomplete", assigned.name()),
    };
    WClass::Unacked(name)
}

/// Why does this worker keep a request from ever completing (it owes an answer of any status)?
fn hang_cause(r: &ReqPlan, wo: &WorkerObs, ro: &ReqObs) -> Option<String> {
    let tagless = r.verb.tagless_worker_verb();
    let recs: Vec<&WRec> = wo.recs.iter().filter(|x| x.beh != "end_ok" && match tagless { Some(v) => x.verb == v && x.tags.is_empty(), None => x.tags.contains(&r.n) }).collect();
    let state = |fallback: &str| -> String {
        if wo.killed { "killed_by_main".into() } else if wo.t_closed.is_some() { "closed".into() } else if wo.stalled_since.is_some() { "stalled".into() } else { fallback.into() }
    };
    if recs.is_empty() {
        if let Some(s) = wo.seq_closed { if s < ro.seq_send.unwrap_or(0) { return Some("closed_earlier".into()); } }
        return Some(state("not_dispatched"));
    }
    let unanswered: Vec<&&WRec> = recs.iter().filter(|x| !x.sent.iter().any(|(_, _, st)| *st != ResponseStatus::Processing as i32)).collect();
    if unanswered.is_empty() && recs.len() >= r.verb.expected_requests_per_worker() { return None; }
    match unanswered.first() {
        Some(x) if ["silent", "late", "stalled", "closed"].contains(&x.beh.as_str()) => Some(x.beh.clone()),
        _ => Some(state("pending")),
    }
}

/// coarse plan-level trigger used in violation keys
fn coarse(name: &str) -> &'static str {
    match name {
        "failure" => "failure",
        "silent" | "late" | "stalled" => "silent",
        "closed" | "killed_by_main" => "closed",
        "not_dispatched" => "not_dispatched",
        "late_ack" => "late_ack",
        "ok" | "processing_ok" | "slow_ok" | "close_after_ok" | "duplicate_ok" | "unknown_id_then_ok" => "ok",
        _ => "pending",
    }
}
fn key_family(fam: &'static str) -> &'static str { match fam { "query_clusters" | "QueryMetrics" => "query", f => f } }

fn blame_rank(name: &str) -> u32 {
    match name { "closed" => 0, "killed_by_main" => 1, "closed_earlier" => 2, "stalled" => 3, "silent" => 4, "late" => 5, "failure" => 6, "not_dispatched" => 7, _ => 8 }
}

pub fn oracle(p: &HubPlan, o: &Outcome) -> (Vec<Violation>, BTreeMap<String, u64>) {
    let mut v: Vec<Violation> = Vec::new();
    let mut probes: BTreeMap<String, u64> = BTreeMap::new();
    let mut bump = |k: &str| { *probes.entry(k.to_string()).or_insert(0) += 1; };
    let timeout_ns = p.knobs.worker_timeout as u64 * SEC;
    if let Some(pn) = &o.end.panicked { v.push(Violation::new("panic", "hub", pn.clone())); }
    if !o.end.returned && o.end.panicked.is_none() { v.push(Violation::new("no_exit", "run_did_not_return", format!("aborted={:?}", o.end.aborted))); }
    if o.ctl.forced { v.push(Violation::new("no_exit", "hard_stop_ignored", "the hub did not leave run() after a HardStop from a fresh client; it had to be forced".to_string())); }
    // earliest stop request of the plan (sequence number of its send)
    let mut stop_seq: Option<u64> = None;
    for (ci, c) in p.clients.iter().enumerate() {
        for (ri, r) in c.requests.iter().enumerate() {
            if r.verb.is_stop() { if let Some(s) = o.clients[ci].reqs[ri].seq_send { stop_seq = Some(stop_seq.map_or(s, |x: u64| x.min(s))); } }
        }
    }
    for (ci, c) in p.clients.iter().enumerate() {
        let co = &o.clients[ci];
        if let Some(g) = &co.garbage { v.push(Violation::new("malformed_response", "client", g.clone())); }
        let stray_finals = co.stray.iter().filter(|r| r.status != ResponseStatus::Processing as i32).count();
        if stray_finals > 0 && !(c.pipelined && c.requests.len() > 1) { v.push(Violation::new("two_final_answers", "unsolicited", format!("client {ci} received {stray_finals} final answer(s) while no request was outstanding"))); }
        if c.pipelined && c.requests.len() > 1 {
            // answers carry no request id: for a client that does not wait, only the count is checked
            let sent = co.reqs.iter().filter(|r| r.t_send.is_some()).count();
            let finals: usize = co.reqs.iter().map(|r| r.finals().len()).sum::<usize>() + stray_finals;
            let stopping = stop_seq.is_some();
            if finals < sent && !stopping {
                v.push(Violation::new("no_final_answer", "trigger=pipelined_requests", format!("client {ci} sent {sent} requests without waiting for answers and received {finals} final answer(s) within {} s", (3 * timeout_ns + 5 * SEC) / SEC)));
            }
            if finals > sent { v.push(Violation::new("two_final_answers", "trigger=pipelined_requests", format!("client {ci} sent {sent} requests and received {finals} final answers"))); }
            bump("pipelined_clients");
            continue;
        }
        for (ri, r) in c.requests.iter().enumerate() {
            let ro = &co.reqs[ri];
            let fam = effective_family(c, ri);
            if ro.t_send.is_none() { bump("requests_unsent"); continue; }
            bump("requests_sent");
            let t_send = ro.t_send.unwrap();
            let finals = ro.finals();
            let final_seq = finals.first().map_or(u64::MAX, |f| f.seq);
            // a stop by another client was under way while this request was outstanding
            let overlap = !r.verb.is_stop() && stop_seq.map_or(false, |s| s < final_seq);
            let targets: Vec<usize> = match r.verb { Verb::UpgradeWorker { worker } => vec![worker as usize], _ => (0..p.workers.len()).collect() };
            let classes: Vec<WClass> = if r.verb.scattered() && fam != "rejected_by_main" { targets.iter().map(|wi| classify(r, *wi, &o.workers[*wi], ro, final_seq, timeout_ns)).collect() } else { vec![] };
            // a worker that had closed its channel before the request was sent
            let earlier = classes.iter().any(|k| matches!(k, WClass::DeadBefore { .. }));
            let killed = o.workers.iter().any(|w| w.killed && w.seq_closed.map_or(false, |s| s < final_seq));
            let after = if earlier { ";after=worker_closed_earlier" } else if killed { ";after=worker_killed_by_main" } else { "" };
            let mut bad: Vec<(usize, String)> = classes.iter().enumerate().filter_map(|(i, k)| match k { WClass::Failed(n) | WClass::Unacked(n) => Some((targets[i], n.clone())), _ => None }).collect();
            bad.sort_by_key(|(_, n)| blame_rank(n));
            let kfam = key_family(fam);
            let worst_fine = bad.first().map(|(_, n)| n.clone()).unwrap_or_else(|| {
                let mut names: Vec<&'static str> = if r.verb.scattered() { r.beh.iter().map(|b| b.name()).collect() } else { vec![] };
                names.sort_by_key(|n| blame_rank(n));
                names.first().copied().unwrap_or("ok").to_string()
            });
            let worst = if bad.is_empty() && earlier { "closed_earlier" } else { coarse(&worst_fine) };
            let dup = r.beh.iter().any(|b| matches!(b, Beh::DupOk(_)));
            let what = format!("client {ci} request #{} {}", r.n, r.verb.name());
            // ---- echoed content
            for resp in ro.responses.iter() {
                // dumps of the main process state legitimately contain what other clients configured
                let state_dump = matches!(r.verb, Verb::QueryClustersHashes | Verb::ListFrontends | Verb::ListListeners);
                if !state_dump && resp.tags.iter().any(|t| *t != r.n) {
                    v.push(Violation::new("answer_to_wrong_client", format!("verb={kfam}"), format!("{what}: response carries content of request(s) {:?}: status={} message={:?}", resp.tags, resp.status, resp.message)));
                }
            }
            if finals.len() > 1 {
                v.push(Violation::new("two_final_answers", format!("verb={kfam};behaviour={worst}"), format!("{what}: {} final answers: {:?}", finals.len(), finals.iter().map(|f| (f.status, f.message.clone())).collect::<Vec<_>>())));
            }
            let Some(fin) = finals.first() else {
                if overlap { bump("no_final_during_stop"); continue; }
                if co.eof_at.is_some() && co.eof_at <= co.t_done && co.io_err.is_none() && !o.ctl.forced {
                    // the main process closed the connection instead of answering
                    let volume: u64 = p.clients.iter().flat_map(|c| c.requests.iter()).map(|r| if let Verb::LoadState { entries } = r.verb { entries as u64 * 30 } else { 0 }).sum();
                    let dump = matches!(r.verb, Verb::QueryClustersHashes | Verb::ListFrontends | Verb::ListListeners | Verb::SaveState | Verb::QueryMetrics { .. });
                    let trig = if dump && volume > p.knobs.max_command_buffer_size / 2 { "trigger=answer_larger_than_max_command_buffer_size" } else { "trigger=connection_closed_by_main" };
                    v.push(Violation::new("no_final_answer", format!("{trig};verb={kfam}"), format!("{what}: the main process closed the connection {} ms after the request without a final answer ({} PROCESSING)", (co.eof_at.unwrap() - t_send.min(co.eof_at.unwrap())) / MS, ro.responses.len())));
                    continue;
                }
                let mut causes: Vec<String> = if classes.is_empty() { vec![] } else { targets.iter().filter_map(|wi| hang_cause(r, &o.workers[*wi], ro)).collect() };
                causes.sort_by_key(|n| blame_rank(n));
                // (a worker killed by the main process takes its unread acknowledgements with it)
                let worst = match causes.first() { Some(c) if c == "closed_earlier" => "closed_earlier", Some(c) => coarse(c), None if killed => "closed", None => worst };
                v.push(Violation::new("no_final_answer", format!("verb={kfam};behaviour={worst}"), format!("{what}: no final answer within {} s of virtual time (got {} PROCESSING); workers: {:?}", (3 * timeout_ns + 5 * SEC) / SEC, ro.responses.len(), classes)));
                continue;
            };
            bump("requests_with_final");
            let dt = fin.t - t_send;
            let is_ok = fin.status == ResponseStatus::Ok as i32;
            if dt + MS >= timeout_ns && r.verb.scattered() { bump("finals_at_or_after_timeout"); }
            // ---- verdict
            if fam == "rejected_by_main" {
                if is_ok { v.push(Violation::new("ok_verdict_for_rejected_request", format!("verb={}", r.verb.name()), format!("{what}: {:?}", fin.message))); }
                if dt > EPS_NS { v.push(Violation::new("stall_needed_timer", format!("verb={fam}"), format!("{what}: answered after {} ms", dt / MS))); }
                continue;
            }
            if !r.verb.scattered() {
                if !is_ok { v.push(Violation::new("failure_verdict_without_cause", format!("verb={}", r.verb.name()), format!("{what}: {:?}", fin.message))); }
                if dt > EPS_NS && !overlap { v.push(Violation::new("stall_needed_timer", format!("verb={fam}"), format!("{what}: answered after {} ms", dt / MS))); }
                if r.verb == Verb::SaveState && is_ok && !fin.tags.contains(&r.n) { v.push(Violation::new("answer_to_wrong_client", "verb=SaveState", format!("{what}: answer does not name the requested file: {:?}", fin.message))); }
                if r.verb == Verb::ListWorkers && is_ok {
                    if let Some(ContentType::Workers(ws)) = fin.content.as_ref().and_then(|c| c.content_type.as_ref()) {
                        for wo in o.workers.iter() {
                            let rep = ws.vec.iter().find(|x| x.id == wo.id).map(|x| x.run_state);
                            let running = rep == Some(RunState::Running as i32);
                            match wo.t_closed {
                                Some(t) if t + EPS_NS < t_send && running => {
                                    v.push(Violation::new("dead_worker_reported_running", "verb=ListWorkers", format!("{what}: worker {} closed its channel {} ms earlier and is listed as RUNNING", wo.id, (t_send - t) / MS)));
                                }
                                None if !running => v.push(Violation::new("live_worker_reported_stopped", "verb=ListWorkers", format!("{what}: worker {} never closed and is listed as {rep:?}", wo.id))),
                                _ => {}
                            }
                        }
                    }
                }
                continue;
            }
            bump(if is_ok { "scattered_verdict_ok" } else { "scattered_verdict_failure" });
            if r.verb == Verb::Status {
                // the verdict of Status is its content: a worker is RUNNING iff it acknowledged
                if is_ok {
                    if let Some(ContentType::Workers(ws)) = fin.content.as_ref().and_then(|c| c.content_type.as_ref()) {
                        for (i, k) in classes.iter().enumerate() {
                            let wi = targets[i];
                            let rep = ws.vec.iter().find(|x| x.id == wi as u32).map(|x| x.run_state);
                            let running = rep == Some(RunState::Running as i32);
                            match k {
                                WClass::Acked(..) if !running && dup => v.push(Violation::new("ok_verdict_before_all_workers_answered", "trigger=duplicate_answer", format!("{what}: worker {wi} acknowledged and is reported as {rep:?}; another worker had answered twice"))),
                                WClass::Acked(..) if !running => v.push(Violation::new("status_misreports_worker", format!("reported=not_running;behaviour=ok{after}"), format!("{what}: worker {wi} acknowledged and is reported as {rep:?}"))),
                                // (an acknowledgement that came after the timeout but before a late verdict is a consequence of the late verdict, reported as such)
                                WClass::Failed(n) | WClass::Unacked(n) if running && n != "late_ack" => v.push(Violation::new("status_misreports_worker", format!("reported=running;behaviour={}", coarse(n)), format!("{what}: worker {wi} ({n}) is reported as RUNNING"))),
                                WClass::DeadBefore { long_before: true } if running => v.push(Violation::new("status_misreports_worker", "reported=running;behaviour=dead", format!("{what}: dead worker {wi} is reported as RUNNING"))),
                                _ => {}
                            }
                        }
                    } else {
                        v.push(Violation::new("status_misreports_worker", "no_content", format!("{what}: OK without worker list")));
                    }
                }
            } else if is_ok {
                for (wi, n) in bad.iter() {
                    let dup_elsewhere = r.beh.iter().enumerate().any(|(j, b)| j != *wi && matches!(b, Beh::DupOk(_)));
                    if dup_elsewhere || (dup && r.verb.expected_requests_per_worker() > 1) {
                        v.push(Violation::new("ok_verdict_before_all_workers_answered", "trigger=duplicate_answer", format!("{what}: final OK {:?} after {} ms although worker {wi} ({n}) had not acknowledged, another worker had answered OK twice; workers: {:?}", fin.message, dt / MS, classes)));
                    } else {
                        v.push(Violation::new("ok_verdict_with_unacknowledged_worker", format!("verb={kfam};behaviour={}", coarse(n)), format!("{what}: final OK {:?} after {} ms although worker {wi} ({n}) had not acknowledged; workers: {:?}", fin.message, dt / MS, classes)));
                    }
                }
                // tagged queries echo worker content: it must be there and be ours
                if matches!(r.verb, Verb::QueryClusterById | Verb::QueryClustersByDomain | Verb::QueryMetrics { .. }) && classes.iter().any(|k| matches!(k, WClass::Acked(..))) && !fin.tags.contains(&r.n) {
                    v.push(Violation::new("answer_to_wrong_client", format!("verb={kfam};missing_content"), format!("{what}: OK without the content the workers sent for it")));
                }
            } else {
                let all_fine = classes.iter().all(|k| matches!(k, WClass::Acked(..) | WClass::DeadBefore { long_before: true }));
                let dead_target = matches!(r.verb, Verb::UpgradeWorker { .. }) && earlier;
                if all_fine && !overlap && !dead_target {
                    v.push(Violation::new("failure_verdict_with_all_workers_ok", format!("verb={kfam}{after}"), format!("{what}: FAILURE {:?} although every live worker acknowledged; workers: {:?}", fin.message, classes)));
                }
            }
            // ---- time
            if dt > timeout_ns + EPS_NS && !overlap {
                let tf = if matches!(fam, "LoadState" | "SoftStop") { fam } else { "with_default_timeout" };
                v.push(Violation::new("late_final_answer", format!("verb={tf}"), format!("{what}: final answer after {} ms, worker_timeout is {} s", dt / MS, p.knobs.worker_timeout)));
            }
            if classes.iter().all(|k| matches!(k, WClass::Acked(..) | WClass::DeadBefore { .. })) && !overlap {
                let last_ack = classes.iter().filter_map(|k| if let WClass::Acked(_, t) = k { Some(*t) } else { None }).max().unwrap_or(t_send).max(t_send);
                if fin.t > last_ack + EPS_NS {
                    v.push(Violation::new("stall_needed_timer", if !after.is_empty() { after[1..].to_string() } else { format!("verb={kfam}") }, format!("{what}: every worker had acknowledged at +{} ms, the final answer came at +{} ms", (last_ack - t_send) / MS, dt / MS)));
                }
            }
        }
    }
    // ---- workers
    for (wi, wo) in o.workers.iter().enumerate() {
        if let Some(g) = &wo.garbage { v.push(Violation::new("garbage_to_worker", "frame", format!("worker {wi}: {g}"))); }
        for x in &wo.recs { bump(&format!("beh_{}", x.beh)); }
        if wo.killed {
            bump("workers_killed_by_main");
            let faulted = p.clients.iter().flat_map(|c| c.requests.iter()).any(|r| matches!(r.beh.get(wi), Some(Beh::CloseBefore | Beh::CloseAfter(_) | Beh::Stall)));
            if !faulted {
                // plan-level trigger: the state files of the plan scatter more bytes per worker than the channel may buffer (~50 bytes per entry)
                let volume: u64 = p.clients.iter().flat_map(|c| c.requests.iter()).map(|r| if let Verb::LoadState { entries } = r.verb { entries as u64 * 50 } else { 0 }).sum();
                let trig = if volume > p.knobs.max_command_buffer_size { "trigger=scatter_larger_than_max_command_buffer_size" } else { "trigger=none" };
                v.push(Violation::new("healthy_worker_killed", trig, format!("worker {wi} never closed its channel nor stopped reading and was killed (SIGKILL) by the main process after reading {} bytes", wo.bytes_in)));
            }
        }
        if wo.stalled_since.is_some() { bump("workers_stalled"); }
        // the main process notices a worker whose channel closed: it marks it stopped and kills the pid
        if let (Some(t), false) = (wo.t_closed, wo.killed) {
            bump("workers_closed_by_plan");
            let stop_before = stop_seq.map_or(false, |s| s < wo.seq_closed.unwrap_or(0)) || p.clients.iter().enumerate().any(|(ci, c)| c.requests.iter().enumerate().any(|(ri, r)| r.verb.is_stop() && o.clients[ci].reqs[ri].t_send.map_or(false, |ts| ts < t + EPS_NS)));
            if o.end.returned && o.end.t_return > t + EPS_NS && !stop_before && !o.end.kills.iter().any(|(pid, _)| *pid == fake_pid(wo.id)) {
                let trig = if wo.unread_at_close > 0 { "closed_with_unread_request" } else { "closed" };
                v.push(Violation::new("dead_worker_not_detected", format!("trigger={trig}"), format!("worker {wi} closed its channel at {:.6} with {} unread byte(s); the main process ran until {:.6} and never marked it stopped (no kill of pid {})", t as f64 / 1e9, wo.unread_at_close, o.end.t_return as f64 / 1e9, fake_pid(wo.id))));
            }
        }
    }
    // ---- liveness after the faults: a fresh client is served
    let plan_stop = stop_seq.is_some();
    if o.ctl.probe_connected && !plan_stop && o.end.panicked.is_none() {
        match o.ctl.probe_final {
            Some((st, dt)) if st == ResponseStatus::Ok as i32 && dt <= timeout_ns + EPS_NS => { bump("probe_served"); }
            Some((st, dt)) => v.push(Violation::new("probe_not_served", "status", format!("fresh client after the plan: Status answered {st} after {} ms", dt / MS))),
            None => v.push(Violation::new("probe_not_served", "no_answer", "fresh client after the plan: Status got no final answer".to_string())),
        }
    }
    if o.ctl.waited_out { bump("controller_waited_out"); }
    probes.insert("kills".into(), o.end.kills.len() as u64);
    v.dedup_by(|a, b| a.class == b.class && a.key == b.key);
    (v, probes)
}

// ------------------------------------------------------------------------------------ property

fn shrink_plan(p: &HubPlan) -> Vec<HubPlan> {
    let mut out = Vec::new();
    if p.clients.len() > 1 { for i in 0..p.clients.len() { let mut q = p.clone(); q.clients.remove(i); out.push(q); } }
    for i in 0..p.clients.len() {
        if p.clients[i].requests.len() > 1 { for j in 0..p.clients[i].requests.len() { let mut q = p.clone(); q.clients[i].requests.remove(j); out.push(q); } }
    }
    if p.workers.len() > 1 {
        for wi in 0..p.workers.len() {
            // UpgradeWorker names a worker id: keep plans consistent by only dropping the last worker when one is named
            let named = p.clients.iter().flat_map(|c| c.requests.iter()).any(|r| matches!(r.verb, Verb::UpgradeWorker { .. }));
            if named && wi != p.workers.len() - 1 { continue; }
            if p.clients.iter().flat_map(|c| c.requests.iter()).any(|r| matches!(r.verb, Verb::UpgradeWorker { worker } if worker as usize == wi)) { continue; }
            let mut q = p.clone();
            q.workers.remove(wi);
            for c in q.clients.iter_mut() { for r in c.requests.iter_mut() { if wi < r.beh.len() { r.beh.remove(wi); } } }
            out.push(q);
        }
    }
    for i in 0..p.clients.len() {
        for j in 0..p.clients[i].requests.len() {
            for wi in 0..p.clients[i].requests[j].beh.len() {
                let b = &p.clients[i].requests[j].beh[wi];
                if *b != Beh::Ok && !matches!(p.clients[i].requests[j].verb, Verb::UpgradeWorker { worker } if worker as usize == wi) {
                    let mut q = p.clone(); q.clients[i].requests[j].beh[wi] = Beh::Ok; out.push(q);
                }
            }
            if let Verb::LoadState { entries } = p.clients[i].requests[j].verb { if entries > 1 { let mut q = p.clone(); q.clients[i].requests[j].verb = Verb::LoadState { entries: entries / 2 }; out.push(q); } }
        }
        let c = &p.clients[i];
        if c.pipelined { let mut q = p.clone(); q.clients[i].pipelined = false; out.push(q); }
        if c.start_ns != 0 || c.think_ns != 0 || c.wq != Quantum::All || c.stop_waits { let mut q = p.clone(); q.clients[i].start_ns = 0; q.clients[i].think_ns = 0; q.clients[i].wq = Quantum::All; q.clients[i].stop_waits = false; out.push(q); }
    }
    if p.workers.iter().any(|q| *q != Quantum::All) { let mut q = p.clone(); for x in q.workers.iter_mut() { *x = Quantum::All; } out.push(q); }
    if p.knobs != HubKnobs::default() {
        let mut q = p.clone(); q.knobs = HubKnobs::default();
        // delays were drawn relative to the timeout
        if q.knobs.worker_timeout == p.knobs.worker_timeout { out.push(q); } else { let mut q2 = p.clone(); q2.knobs = HubKnobs { worker_timeout: p.knobs.worker_timeout, ..HubKnobs::default() }; out.push(q2); }
    }
    let d = SchedCfg::default();
    if p.sched.ev_truncate_pm != 0 || p.sched.ev_permute_pm != 0 || p.sched.actor_burst != d.actor_burst { let mut q = p.clone(); q.sched = d; out.push(q); }
    out
}

fn report(p: &HubPlan, o: &Outcome) -> RunReport {
    let (violations, mut probes) = oracle(p, o);
    let mut th = TraceHash::new();
    th.mix(o.trace_hash);
    for c in &o.clients {
        for r in &c.reqs { th.mix(r.t_send.unwrap_or(0)); for x in &r.responses { th.mix(x.t); th.mix(x.status as u64); th.mix(x.seq); } }
        th.mix(c.stray.len() as u64);
    }
    for w in &o.workers { for x in &w.recs { th.mix(x.t_recv); th.mix(x.seq_recv); for s in &x.sent { th.mix(s.0); th.mix(s.1); th.mix(s.2 as u64); } } th.mix(w.t_closed.unwrap_or(0)); th.mix(w.killed as u64); }
    th.mix(o.end.returned as u64);
    th.mix(o.end.t_return);
    let finals: usize = o.clients.iter().flat_map(|c| c.reqs.iter()).filter(|r| !r.finals().is_empty()).count();
    probes.insert("final_answers".into(), finals as u64);
    let mut rep = RunReport { seed: p.seed, family: p.family.clone(), violations, trace_hash: th.0, nontrivial: finals > 0 && o.end.returned, stats: o.stats.clone(), probes, summary: summarize(p), ..Default::default() };
    if let Some(e) = &o.end.boot_error { rep.harness_error = Some(format!("hub boot failed: {e}")); }
    if let Some(a) = &o.end.aborted { if !o.ctl.forced { rep.harness_error = Some(format!("simulation aborted: {a}")); } }
    if !o.leaked_fds.is_empty() { rep.harness_error = Some(format!("descriptors leaked by the run: {:?}", o.leaked_fds)); }
    rep
}

impl Property for C09 {
    fn id(&self) -> &'static str { "C09" }
    fn runs(&self, tier: Tier) -> u64 { match tier { Tier::Quick => 16_000, Tier::Thorough => 600_000 } }
    fn gen_plan(&self, seed: u64, tier: Tier) -> Value { serde_json::to_value(generate(seed, tier)).unwrap() }
    fn enumerated(&self, _tier: Tier) -> Vec<Value> { enumerate_plans().into_iter().enumerate().map(|(i, mut p)| { p.seed = 9_000_000 + i as u64; serde_json::to_value(p).unwrap() }).collect() }
    fn run_plan(&self, plan: &Value) -> RunReport {
        let p: HubPlan = match serde_json::from_value(plan.clone()) { Ok(p) => p, Err(e) => return RunReport { harness_error: Some(format!("bad plan: {e}")), ..Default::default() } };
        let o = run(&p, false);
        report(&p, &o)
    }
    fn shrink(&self, plan: &Value) -> Vec<Value> {
        let Ok(p) = serde_json::from_value::<HubPlan>(plan.clone()) else { return vec![] };
        shrink_plan(&p).into_iter().map(|p| serde_json::to_value(p).unwrap()).collect()
    }
    fn debug_plan(&self, plan: &Value) -> String {
        let p: HubPlan = serde_json::from_value(plan.clone()).unwrap();
        let o = run(&p, true);
        let mut s = format!("{}\n", summarize(&p));
        for l in &o.log { s += l; s.push('\n'); }
        for (ci, c) in o.clients.iter().enumerate() {
            s += &format!("client {ci}: connect_error={:?} eof_at={:?} done={:?} stray={}\n", c.connect_error, c.eof_at, c.t_done, c.stray.len());
            for (ri, r) in c.reqs.iter().enumerate() {
                s += &format!("  req {ri} t_send={:?} seq={:?} gave_up={}\n", r.t_send, r.seq_send, r.gave_up);
                for x in &r.responses { s += &format!("    [{:.6} #{}] status={} tags={:?} {:?} content={}\n", x.t as f64 / 1e9, x.seq, x.status, x.tags, x.message, format!("{:?}", x.content).chars().take(300).collect::<String>()); }
            }
        }
        for w in &o.workers {
            s += &format!("worker {}: closed={:?} killed={} stalled={:?} eof={} bytes_in={}\n", w.id, w.t_closed, w.killed, w.stalled_since, w.eof, w.bytes_in);
            for x in &w.recs { s += &format!("  [{:.6} #{}] {} {} tags={:?} entry={:?} beh={} sent={:?}\n", x.t_recv as f64 / 1e9, x.seq_recv, x.hub_id, x.verb, x.tags, x.entry, x.beh, x.sent); }
        }
        s += &format!("controller: {:?}\nend: {:?}\nleaked fds: {:?}\n", o.ctl, o.end, o.leaked_fds);
        let (v, pr) = oracle(&p, &o);
        for x in v { s += &format!("VIOLATION {} [{}] {}\n", x.class, x.key, x.detail); }
        s += &format!("probes: {pr:?}\n");
        s
    }
    fn descr(&self) -> Descr {
        Descr {
            level: "exploration",
            rule: "enumerated (verb family x worker behaviour x 1-2 workers) plus seeded plans (1-4 scripted workers, 1-4 concurrent CLI clients, 1-4 requests each, per-(request,worker) behaviour, worker_timeout, channel buffer sizes, write quanta, epoll truncation/permutation); a run is non-trivial when >=1 client request received a final answer and run() returned; distinct = distinct decision/observation trace hashes",
            assumptions: vec!["scripted workers stand in for worker processes (kill() is intercepted and closes the scripted worker's channel)", "virtual clock: worker_timeout elapses in zero wall time", "release semantics (debug assertions off)", "x86-64 Linux"],
            real: vec!["sozu::command::server::CommandHub::run (scatter/gather, tasks, timeouts, client and worker sessions)", "sozu::command::requests (all verbs used)", "sozu_command_lib Channel / ConfigState", "mio", "Linux epoll + AF_UNIX"],
            stub: vec!["worker processes (scripted actors on the real channel)", "CLI clients (scripted actors on the real command socket)", "clock", "entropy", "kill(2)"],
            not_covered: vec!["UpgradeMain and the second phase of UpgradeWorker (need fork/exec; the worker side of the SCM socket is closed so the master refuses the upgrade before forking)", "ReloadConfiguration / load_static_config (Config::load_from_path panics on unreadable files; same Timeout::None path as LoadState)", "event subscribers", "worker_automatic_restart (off: it forks)", "Logging (mutates the process environment)", "short writes / EAGAIN injection on the hub's unix sockets (the hooks only buggify simulated TCP sockets)"],
        }
    }
}
